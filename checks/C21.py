"""C21 — the traversal queue keeps its ordering and coverage rules."""
import collections
from concurrent.futures import ThreadPoolExecutor

import vlib

U64 = (1 << 64) - 1


# ---------------------------------------------------------------- op syntax
# op = tuple: ("p",mc,seg) ("c",mc,seg,b) ("d",mc,seg) ("o",) ("O",) ("k",) ("D",) ("a",) ("A",t)
#             ("u",seg,cov,longest) ("X",) ("e",) ("z",)

def tok(op):
    return ":".join(str(int(x)) if not isinstance(x, str) else x for x in op)


def coq_loc(l):
    return "(L %d %d)" % (l[0], l[1])


def coq_op(op):
    k = op[0]
    if k == "p":
        return "OPush %s" % coq_loc(op[1:3])
    if k == "c":
        return "OPushCovered %s %s" % (coq_loc(op[1:3]), "true" if op[3] else "false")
    if k == "d":
        return "OPushDup %s" % coq_loc(op[1:3])
    if k == "A":
        return "ODrainAbove %d" % op[1]
    if k == "u":
        return "OCoverUpTo %d %d %d" % (op[1], op[2], op[3])
    return {"o": "OPop", "O": "OPopCovered", "k": "OPeek", "D": "OPopDups", "a": "OAllCovered",
            "X": "ODrainAll", "e": "OIsEmpty", "z": "OClear"}[k]


def parse_state(s):
    p, es = s.split("|")
    ents = []
    if es:
        for e in es.split(","):
            mc, seg = e.split(".")
            ents.append((int(mc), int(seg)))
    return (tuple(ents), int(p))


def parse_out(o):
    """-> ("unit",) | ("bool",b) | ("loc",l|None) | ("loccov",(l,c)|None) | ("loccnt",(l,n)|None) | ("locs",[l]) | ("fail",text)"""
    if o == "-":
        return ("unit",)
    if o in ("b0", "b1"):
        return ("bool", o == "b1")
    if o.startswith("l."):
        r = o[2:]
        return ("loc", tuple(int(x) for x in r.split(".")) if r else None)
    if o.startswith("v."):
        r = o[2:]
        if not r:
            return ("loccov", None)
        a = [int(x) for x in r.split(".")]
        return ("loccov", ((a[0], a[1]), bool(a[2])))
    if o.startswith("n."):
        r = o[2:]
        if not r:
            return ("loccnt", None)
        a = [int(x) for x in r.split(".")]
        return ("loccnt", ((a[0], a[1]), a[2]))
    if o.startswith("L."):
        r = o[2:]
        return ("locs", [tuple(int(x) for x in e.split(".")) for e in r.split(",")] if r else [])
    return ("fail", o)


def coq_out(v):
    k = v[0]
    if k == "unit":
        return "VUnit"
    if k == "bool":
        return "VBool %s" % ("true" if v[1] else "false")
    if k == "loc":
        return "VLoc %s" % ("None" if v[1] is None else "(Some %s)" % coq_loc(v[1]))
    if k == "loccov":
        return "VLocCov %s" % ("None" if v[1] is None else "(Some (%s, %s))" % (coq_loc(v[1][0]), "true" if v[1][1] else "false"))
    if k == "loccnt":
        return "VLocCnt %s" % ("None" if v[1] is None else "(Some (%s, %d%%nat))" % (coq_loc(v[1][0]), v[1][1]))
    if k == "locs":
        return "VLocs %s" % vlib.coq_list(v[1], coq_loc)
    raise ValueError(v)


def coq_queue(st):
    return "(Q %s %d%%nat)" % (vlib.coq_list(st[0], coq_loc), st[1])


# ---------------------------------------------------------------- the property's own oracle

def absq(st):
    ents, p = st
    return collections.Counter((e, i >= p) for i, e in enumerate(ents))


def oracle_step(before, op, out, after):
    """The documented rules as a relation between the multisets before/after (None = ok)."""
    if out[0] == "fail":
        return "operation failed: %s" % out[1]
    if after[1] > len(after[0]):
        return "partition beyond the end of the vector"
    m, m2 = absq(before), absq(after)
    k = op[0]
    locs = list(m.elements())
    top_mc = max((e[0] for (e, _) in locs), default=None)
    top = max((e for (e, _) in locs), default=None)

    def minus(c, x):
        d = collections.Counter(c)
        d[x] -= 1
        if d[x] < 0:
            return None
        return +d

    def plus(c, x):
        d = collections.Counter(c)
        d[x] += 1
        return d

    if k in ("p", "c"):
        l = (op[1], op[2])
        c = bool(op[3]) if k == "c" else False
        if out != ("unit",):
            return "push returned %r" % (out,)
        same = sorted({x for x in m if x[0][1] == l[1]})
        if not same:
            return None if m2 == plus(m, (l, c)) else "new segment: entry not added with the given flag"
        for (e, b) in same:
            rest = minus(m, (e, b))
            if e[0] < l[0] and m2 == plus(rest, (l, c)):
                return None
            if e[0] == l[0] and m2 == plus(rest, (e, b or c)):
                return None
            if e[0] > l[0] and m2 == m:
                return None
        return "push_covered merge rule not followed (existing %r, pushed %r covered=%r)" % (same, l, c)
    if k == "d":
        return None if m2 == plus(m, ((op[1], op[2]), False)) and out == ("unit",) else "push_duplicate did not add one uncovered entry"
    if k in ("O", "o"):
        want = "loccov" if k == "O" else "loc"
        if out[0] != want:
            return "wrong result kind"
        if out[1] is None:
            return None if not m and not m2 else "pop returned None on a non-empty queue"
        if k == "O":
            l, c = out[1]
            cands = [(l, c)]
        else:
            l = out[1]
            cands = [(l, False), (l, True)]
        if l[0] != top_mc:
            return "pop returned max_cut %d but the queue holds max_cut %d" % (l[0], top_mc)
        if l != top:
            return "pop returned %r, not the maximal location %r" % (l, top)
        for x in cands:
            r = minus(m, x)
            if r is not None and r == m2:
                return None
        return "pop did not remove exactly the returned entry"
    if k == "k":
        if m2 != m or out[0] != "loc":
            return "peek changed the queue"
        return None if out[1] == top else "peek returned %r, maximal is %r" % (out[1], top)
    if k == "D":
        if out[0] != "loccnt":
            return "wrong result kind"
        if out[1] is None:
            return None if not m and not m2 else "pop_duplicates returned None on a non-empty queue"
        l, n = out[1]
        if l != top:
            return "pop_duplicates returned %r, maximal is %r" % (l, top)
        exp = collections.Counter({x: c for x, c in m.items() if x[0] != l})
        cnt = sum(c for x, c in m.items() if x[0] == l)
        if m2 != exp:
            return "pop_duplicates did not remove exactly the entries equal to the maximal location"
        return None if n == cnt else "pop_duplicates count %d, expected %d" % (n, cnt)
    if k == "a":
        return None if out == ("bool", all(c for (_, c) in locs)) and m2 == m else "all_covered wrong"
    if k == "e":
        return None if out == ("bool", not m) and m2 == m else "is_empty wrong"
    if k == "z":
        return None if not m2 else "clear left entries"
    if k == "A":
        t = op[1]
        if out[0] != "locs":
            return "wrong result kind"
        exp_keep = collections.Counter({x: c for x, c in m.items() if x[0][0] <= t})
        exp_out = collections.Counter(e for (e, c) in locs if not c and e[0] > t)
        if m2 != exp_keep:
            return "drain_above kept/removed the wrong entries"
        return None if collections.Counter(out[1]) == exp_out else "drain_above passed the wrong entries to the callback"
    if k == "u":
        s, cov, lg = op[1], op[2], op[3]
        same = sorted({x for x in m if x[0][1] == s})
        if not same:
            return None if m2 == m else "cover_up_to changed a queue without that segment"
        for (e, b) in same:
            rest = minus(m, (e, b))
            if b and m2 == m:
                return None
            if not b and cov >= lg and m2 == plus(rest, (e, True)):
                return None
            if not b and cov < lg and e[0] <= cov and m2 == plus(rest, ((cov + 1, e[1]), False)):
                return None
            if not b and cov < lg and e[0] > cov and m2 == m:
                return None
        return "cover_up_to rule not followed"
    if k == "X":
        if out[0] != "locs" or m2:
            return "drain_all left entries"
        exp_out = collections.Counter(e for (e, c) in locs if not c)
        return None if collections.Counter(out[1]) == exp_out else "drain_all passed the wrong entries"
    return "unknown op"


def uniq_violation(st):
    segs = [e[1] for e in st[0]]
    return len(segs) != len(set(segs))


# ---------------------------------------------------------------- generators

SEGS = [0, 1, 2, 3]
MCS = [0, 1, 2, 3, 5, 8]


def rand_op(r, dup_ok, segs=SEGS, mcs=MCS):
    w = r.below(100)
    l = (r.choice(mcs), r.choice(segs))
    if w < 22:
        return ("p",) + l
    if w < 42:
        return ("c",) + l + (r.below(2),)
    if w < 52:
        return (("d",) + l) if dup_ok else (("c",) + l + (1,))
    if w < 60:
        return ("O",)
    if w < 65:
        return ("o",)
    if w < 69:
        return ("k",)
    if w < 74:
        return ("D",)
    if w < 77:
        return ("a",)
    if w < 84:
        return ("A", r.choice(mcs + [9]))
    if w < 94:
        return ("u", r.choice(segs), r.choice(mcs), r.choice(mcs + [9]))
    if w < 96:
        return ("X",)
    if w < 98:
        return ("e",)
    return ("z",) if r.chance(1, 3) else ("O",)


def gen_sequences(ctx, count):
    r = ctx.rng
    seqs = []
    for i in range(count):
        n = r.choice([1, 2, 3, 5, 8, 13, 21, 34, 60, r.range(1, 60)])
        dup_ok = (i % 3 == 0)
        seqs.append([rand_op(r, dup_ok) for _ in range(n)])
    # extreme stream: u64 boundary values and degenerate arguments
    big = [0, 1, U64 - 1, U64]
    for i in range(max(20, count // 10)):
        n = r.range(1, 25)
        seqs.append([rand_op(r, i % 2 == 0, segs=[0, U64], mcs=big) for _ in range(n)])
    seqs.append([("p", U64 - 1, 7), ("u", 7, U64 - 1, U64), ("O",)])
    seqs.append([("p", 3, 7), ("u", 7, U64, U64), ("u", 7, U64, 0), ("O",)])
    return seqs


BFS_SEGS = [0, 1]
BFS_MCS = [1, 2, 3]


def bfs_alphabet():
    ops = []
    for mc in BFS_MCS:
        for s in BFS_SEGS:
            ops += [("p", mc, s), ("c", mc, s, 1), ("d", mc, s)]
    ops += [("O",), ("o",), ("k",), ("D",), ("a",), ("e",), ("z",), ("X",), ("A", 1), ("A", 2)]
    for s in BFS_SEGS:
        for cov in (1, 2):
            for lg in (2, 3):
                ops.append(("u", s, cov, lg))
    return ops


def run_impl(ctx, binp, lines):
    rc, out, err = vlib.run_bin(binp, input="".join(l + "\n" for l in lines), timeout=3000)
    res = out.splitlines()
    if rc != 0 or len(res) != len(lines):
        ctx.oblige("harness:run", False, out[-1000:] + err[-2000:])
        return None
    return res


def bfs(ctx, binp, depth, cap):
    """All transitions (state, op) for states reachable within depth-1 steps: equivalent to
    every op sequence of length <= depth over the BFS alphabet."""
    alpha = bfs_alphabet()
    start = ((), 0)
    witness = {start: []}
    frontier = [start]
    transitions = []          # (state, op, out, state')
    levels = []
    for d in range(depth):
        lines, meta = [], []
        for st in frontier:
            w = " ".join(tok(o) for o in witness[st])
            for op in alpha:
                lines.append("!" + (w + " " if w else "") + tok(op))
                meta.append((st, op))
        res = run_impl(ctx, binp, lines)
        if res is None:
            return None
        nxt = []
        for (st, op), line in zip(meta, res):
            o, _, s = line.partition("@")
            out = parse_out(o)
            st2 = parse_state(s) if out[0] != "fail" and s else st
            transitions.append((st, op, out, st2))
            if st2 not in witness:
                witness[st2] = witness[st] + [op]
                nxt.append(st2)
        levels.append((len(frontier), len(lines)))
        frontier = nxt
        if len(transitions) > cap:
            break
    return transitions, witness, levels


# ---------------------------------------------------------------- model evaluation

HEADER = ("From Aranya Require Import base.Tactics base.Harness model.TravQueue.\n"
          "Open Scope N_scope.\n")


def render(chunk):
    items = []
    for (q0, ops, expect) in chunk:
        items.append("(%s, %s, %s)" % (
            coq_queue(q0), vlib.coq_list(ops, coq_op),
            vlib.coq_list(expect, lambda vq: "(%s, %s)" % (coq_out(vq[0]), coq_queue(vq[1])))))
    return ("Definition cases : list (queue * list op * list (out * queue)) := %s.\n"
            "Definition chk (c : queue * list op * list (out * queue)) : bool :=\n"
            "  let '(q0, ops, ex) := c in run_agrees q0 ops ex.\n"
            "Eval vm_compute in (mismatches chk cases).\n" % vlib.coq_list(items))


def model_eval(ctx, name, cases, shard):
    chunks = [cases[i:i + shard] for i in range(0, len(cases), shard)] or [[]]

    def one(ic):
        i, c = ic
        return vlib.coq_eval(ctx, "%s_%d" % (name, i), HEADER + render(c), 1500)
    with ThreadPoolExecutor(max_workers=4) as ex:
        outs = list(ex.map(one, enumerate(chunks)))
    mism, base = [], 0
    for (rc, o), ch in zip(outs, chunks):
        v = vlib.parse_coq_value(o) if rc == 0 else None
        if v is None:
            ctx.oblige("correspondence:model-eval", False, o[-2000:])
            return None
        mism += [base + j for j in v]
        base += len(ch)
    return mism


# ---------------------------------------------------------------- main

def regen_mine(ctx):
    """vlib.regen, but only the problems of this unit's generator (GenQueue) count for this property."""
    import os
    import sys
    sys.path.insert(0, os.path.join(vlib.ROOT, "tools"))
    import gen as gen_mod
    with vlib.Lock("coq"):
        problems = gen_mod.generate(vlib.REPO, os.path.join(vlib.COQ, "gen"))
    mine = [p for p in problems if p.startswith("GenQueue") or p.startswith("gen_queue")]
    ctx.oblige("translator:regen", not mine, "; ".join(mine))
    return not mine


def run(ctx):
    regen_mine(ctx)
    vlib.prove(ctx)
    binp = vlib.cargo_build(ctx, "hx-queue-lookup", bin="c21")
    if not binp:
        return
    oracle_fail = []     # (kind, description, replay)
    # ---- random + extreme sequences
    seqs = gen_sequences(ctx, 6000 if ctx.thorough else 500)
    res = run_impl(ctx, binp, [" ".join(tok(o) for o in s) for s in seqs])
    if res is None:
        return
    cases = []
    stats = collections.Counter()
    nontrivial = set()
    total_ops = 0
    for s, line in zip(seqs, res):
        parts = line.split()
        st = ((), 0)
        expect = []
        ok_model_case = True
        has_dup = any(o[0] == "d" for o in s)
        merged = crossed = False
        for op, part in zip(s, parts):
            o, _, sst = part.partition("@")
            out = parse_out(o)
            if out[0] == "fail" or not sst:
                oracle_fail.append(("queue operation failed (%s) on %s" % (o, tok(op)), s))
                ok_model_case = False
                break
            st2 = parse_state(sst)
            why = oracle_step(st, op, out, st2)
            if why:
                oracle_fail.append((why, s))
            if not has_dup and uniq_violation(st2):
                oracle_fail.append(("two entries for one segment without push_duplicate", s))
            stats[op[0]] += 1
            total_ops += 1
            if op[0] in ("p", "c") and any(e[1] == op[2] for e in st[0]):
                merged = True
                stats["push_on_existing_segment"] += 1
            if st2[1] != st[1] and len(st2[0]) == len(st[0]):
                crossed = True
                stats["entry_moved_across_partition"] += 1
            if op[0] in ("O", "o", "D", "A", "X") and 0 < st[1] < len(st[0]):
                stats["removal_from_mixed_queue"] += 1
            expect.append((out, st2))
            st = st2
        if ok_model_case:
            cases.append((((), 0), s, expect))
            if merged and crossed:
                nontrivial.add(tuple(s))
    # ---- exhaustive small scope (every op sequence up to the depth, as state transitions)
    depth = 5 if ctx.thorough else 4
    b = bfs(ctx, binp, depth, 400000 if ctx.thorough else 60000)
    if b is None:
        return
    transitions, witness, levels = b
    tcases = []
    for (st, op, out, st2) in transitions:
        if out[0] == "fail":
            oracle_fail.append(("queue operation failed (%s)" % out[1], witness[st] + [op]))
            continue
        why = oracle_step(st, op, out, st2)
        if why:
            oracle_fail.append((why, witness[st] + [op]))
        tcases.append((st, [op], [(out, st2)]))
    ctx.log("sequences %d (%d ops), bfs depth %d: %d states, %d transitions" % (
        len(cases), total_ops, depth, len(witness), len(transitions)))
    # ---- model side
    m1 = model_eval(ctx, "c21_seq", cases, 250)
    if m1 is None:
        return
    m2 = model_eval(ctx, "c21_bfs", tcases, 4000)
    if m2 is None:
        return
    ctx.coverage.update({
        "traces_validated_against_impl": len(cases) + len(tcases),
        "evaluations": total_ops + len(tcases),
        "distinct_nontrivial": len(nontrivial),
        "rule": "sequence = up to 60 ops over 4 segments x 6 max cuts (plus a u64-boundary stream); non-trivial = it contains a "
                "push/push_covered hitting a segment already queued AND an entry crossing the partition; every intermediate "
                "(output, entries vector, partition) is compared.  Exhaustive part: BFS over all states reachable within "
                "depth-1 ops over the alphabet 2 segments x 3 max cuts (%d ops); every (state, op) transition is compared, "
                "which is every op sequence of length <= depth" % len(bfs_alphabet()),
        "distribution": dict(stats),
        "bfs": {"depth": depth, "states": len(witness), "transitions": len(transitions),
                "levels_states_transitions": levels},
        "samples": [{"ops": " ".join(tok(o) for o in s), "impl": res[i]} for i, s in list(enumerate(seqs))[:2]],
    })
    ctx.assumptions += ["usize index arithmetic is modelled on nat (a Vec holds at most isize::MAX elements)",
                        "the closure passed to drain_above/drain_all is modelled as the list of its arguments in call order"]
    seen = set()
    for (why, s) in oracle_fail:
        if len(seen) >= 3 or why in seen:
            continue
        seen.add(why)
        line = " ".join(tok(o) for o in s)
        ctx.violation("TraversalQueue breaks its documented rule: " + why,
                      {"ops": line, "contradicts": "travqueue_refines / spec (coq/props/C21.v, coq/proofs/TravQueueSpec.v)",
                       "replay_cmd": "echo '%s' | build/target/debug/c21" % line})
    ctx.oblige("correspondence:model=impl:sequences", not m1,
               "model and implementation differ on sequences %s (first: %s)" % (
                   m1[:5], " ".join(tok(o) for o in cases[m1[0]][1]) if m1 else None))
    ctx.oblige("correspondence:model=impl:exhaustive-small-scope", not m2,
               "model and implementation differ on transitions %s (first: state %r op %s)" % (
                   m2[:5], tcases[m2[0]][0] if m2 else None, tok(tcases[m2[0]][1][0]) if m2 else None))
    ctx.oblige("oracle:documented-rules-on-impl-output", not oracle_fail, str(oracle_fail[:3])[:1500])
