"""C20 — peer caches only record what the peer really has."""
import collections
import os
import sys

sys.path.insert(0, os.path.dirname(os.path.abspath(__file__)))
import _ql_lib as ql
import vlib

PEER_HEAD_MAX_EXPECTED = 10     # "at most ten entries" in the property text


def gen_fan(r, backend):
    """A fan of 3-8 concurrent branches, all recorded in the cache, then a command that descends from
    three or more of them (nested merges / a merge of three / a child of such a merge); optionally with
    unrelated branches so that the cache is nearly full (9-10 entries)."""
    g = ql.Graph()
    g.init(r.choice([1, 2, 3]))
    if r.chance(1, 2):
        g.linear(g.n() - 1, r.choice([1, 4, 11]))
    root = g.n() - 1
    k = r.range(3, 8)
    tips = [g.linear(root, r.choice([1, 1, 2, 3, 10, 12])) for _ in range(k)]
    extra = []
    if r.chance(1, 2):
        for _ in range(r.choice([9, 10]) - k):
            extra.append(g.linear(root, r.choice([1, 2, 3])))
    order = list(tips)
    r.shuffle(order)
    joins = []                       # joins[j] descends from order[0..j+1]
    cur = order[0]
    for t in order[1:]:
        if r.chance(1, 3):
            cur = g.linear(cur, r.choice([1, 2]))          # a child between the merges
        cur = g.merge(cur, t, r.choice([1, 1, 2, 3]))
        joins.append(cur)
    child_all = g.linear(joins[-1], r.choice([1, 2, 11]))
    child_three = g.linear(joins[1], r.choice([1, 2])) if r.chance(1, 2) else None
    hs = sorted(g.tips())
    ops = list(g.ops) + ["H:" + ",".join(map(str, hs))]
    headmask = 0
    for h in hs:
        headmask |= g.anc[h]
    rec = tips + extra
    r.shuffle(rec)
    adds = [("pa", x) for x in rec]
    targets = [joins[-1], joins[1], child_all] + ([child_three] if child_three is not None else []) + joins[2:]
    variant = r.below(4)
    if variant == 0:
        final = [joins[-1]]
    elif variant == 1:
        final = [joins[1], r.choice(targets)]
    elif variant == 2:
        final = [child_all]
    else:
        final = [child_three if child_three is not None else joins[1], joins[-1]]
    # occasionally re-record the branch tips afterwards (now ancestors of an entry: ignored)
    adds += [("pa", x) for x in final] + [("pa", r.choice(tips)) for _ in range(r.below(3))]
    line = backend + " " + " ".join(ops) + " pc " + " ".join(":".join(map(str, a)) for a in adds)
    return g, hs, headmask, adds, line


def gen_case(r, total, backend, wide):
    if wide == "fan":
        return gen_fan(r, backend)
    g = ql.Graph()
    g.init(r.choice([1, 2, 3]))
    if wide:
        # many parallel branches so that more than ten incomparable heads exist
        root = g.n() - 1
        for _ in range(r.range(11, 16)):
            g.linear(root, r.choice([1, 2, 3, 11]))
        while g.n() < total:
            g.linear(r.choice(g.tips()), r.choice([1, 2, 5, 10]))
    else:
        g = ql.gen_graph(r, total, r.choice(["branchy", "branchy-long", "chain"]))
    hs = ql.choose_heads(r, g) if not wide else sorted(set(t for t in g.tips() if r.chance(9, 10)) or g.tips()[:1])
    ops = list(g.ops) + ["H:" + ",".join(map(str, hs))]
    n = g.n()
    adds = []
    headmask = 0
    for h in hs:
        headmask |= g.anc[h]
    committed = [c for c in range(n) if (headmask >> c) & 1]
    uncommitted = [c for c in range(n) if not (headmask >> c) & 1]
    for _ in range(r.range(8, 45)):
        w = r.below(100)
        if w < 62 or not uncommitted:
            x = r.choice(committed)
            adds.append(("pa", x))
        elif w < 78:
            adds.append(("pa", r.choice(uncommitted)))                      # stored but not under the committed heads
        elif w < 90:
            x = r.below(n)
            adds.append(("pA", g.idnum[x], max(0, g.mc[x] + r.choice([-2, -1, 1, 3]))))   # stale / wrong max cut
        else:
            adds.append(("pA", n + 10 + r.below(100), r.below(max(g.mc) + 2)))  # unknown id
    line = backend + " " + " ".join(ops) + " pc " + " ".join(":".join(map(str, a)) for a in adds)
    return g, hs, headmask, adds, line


def oracle(g, headmask, cmd, adds, caches):
    """The property, evaluated on the implementation's caches; returns [(step, why)]."""
    n = g.n()
    loc2cmd = {}
    for c in range(n):
        loc2cmd.setdefault(cmd[c], c)
    bad = []
    prev = []
    for step, (a, cache) in enumerate(zip(adds, caches)):
        if cache is None:
            bad.append((step, "add_command returned an error"))
            break
        # ---- invariant
        if len(cache) > PEER_HEAD_MAX_EXPECTED:
            bad.append((step, "cache holds %d entries" % len(cache)))
        ents = []
        for (idn, l) in cache:
            c = loc2cmd.get(l)
            if c is None or g.idnum[c] != idn:
                bad.append((step, "entry %d@%r is not a stored command at that location" % (idn, l)))
                continue
            if not (headmask >> c) & 1:
                bad.append((step, "entry %d (command #%d) is not committed" % (idn, c)))
            ents.append(c)
        for i, x in enumerate(ents):
            for j, y in enumerate(ents):
                if i != j and g.is_anc_eq(x, y):
                    bad.append((step, "entry #%d is an ancestor of entry #%d" % (x, y)))
        # ---- the call's rule
        if a[0] == "pa":
            idn, mc = g.idnum[a[1]], g.mc[a[1]]
        else:
            idn, mc = a[1], a[2]
        T = [c for c in range(n) if g.idnum[c] == idn and g.mc[c] == mc and (headmask >> c) & 1]
        prev_cmds = [loc2cmd.get(l) for (_, l) in prev]
        if None in prev_cmds:
            prev = cache
            continue
        if not T:
            exp = prev
        else:
            x = T[0]
            if any(g.is_anc_eq(x, e) for e in prev_cmds):
                exp = prev
            else:
                exp = [p for p, e in zip(prev, prev_cmds) if not g.is_anc_eq(e, x)]
                if len(exp) < PEER_HEAD_MAX_EXPECTED:
                    exp = exp + [(idn, cmd[x])]
        if cache != exp:
            bad.append((step, "recording %d@%d: cache became %r, the rules give %r" % (idn, mc, cache, exp)))
        prev = cache
    return bad


HEADER = ql.CHECK_HEADER.replace("model.SegStore.", "model.SegStore model.PeerCache.") + """
Definition ccache := list (N * loc).
(* runs the calls in order; returns the indices of the calls after which the model's cache differs *)
Fixpoint run_adds (st : store) (hs : heads) (pc : peer_cache) (i : N) (calls : list (N * N * ccache)) : list N :=
  match calls with
  | [] => []
  | (id, mc, e) :: r =>
    match add_command st hs pc id mc with
    | ROk pc' => (if cache_eqb pc' e then [] else [i]) ++ run_adds st hs e (N.succ i) r
    | RErr _ => i :: run_adds st hs e (N.succ i) r
    end
  end.
"""


def render(chunk):
    items = []
    for (segs, hds, calls) in chunk:
        items.append("(%s, %s, %s)" % (
            ql.cstore(segs), ql.cheads(hds),
            vlib.coq_list(calls, lambda c: "(%d, %d, %s)" % (c[0], c[1], ql.cheads(c[2])))))
    return ("Definition cases : list (store * heads * list (N * N * ccache)) := %s.\n"
            "Definition chk (c : store * heads * list (N * N * ccache)) : list N :=\n"
            "  let '(st, hs, calls) := c in run_adds st hs [] 0 calls.\n"
            "Eval vm_compute in (map chk cases).\n" % vlib.coq_list(items))


def run(ctx):
    ql.regen_mine(ctx)
    vlib.prove(ctx)
    binp = vlib.cargo_build(ctx, "hx-queue-lookup", bin="c11")
    if not binp:
        return
    r = ctx.rng
    ncase = 800 if ctx.thorough else 48
    plan = []
    for i in range(ncase):
        wide = True if i % 3 == 0 else ("fan" if i % 3 == 1 else False)
        plan.append((r.range(20, 200) if ctx.thorough else r.range(15, 90), r.choice(["mem", "mem", "libc"]), wide))
    gens = [gen_case(r, t, b, w) for (t, b, w) in plan]
    rc, out, err = vlib.run_bin(binp, input="".join(g[4] + "\n" for g in gens), timeout=3000)
    lines = out.splitlines()
    if rc != 0 or len(lines) != len(gens):
        ctx.oblige("harness:run", False, out[-1000:] + err[-2000:])
        return
    cases, fails = [], []
    stats = collections.Counter()
    nontrivial = 0
    ncalls = 0
    for (g, hs, headmask, adds, line), res in zip(gens, lines):
        parsed = ql.parse_case(res)
        if parsed is None:
            fails.append(("the storage API or add_command panicked: " + res[:200], line))
            continue
        caches = [None if a == "E" else ql.parse_cache(a) for a in parsed["q"]]
        for (step, why) in oracle(g, headmask, parsed["cmd"], adds, caches):
            fails.append(("step %d: %s" % (step, why), line))
        calls = []
        prev = []
        removed = grew = noop_known = False
        for a, c in zip(adds, caches):
            if c is None:
                break
            idn, mc = (g.idnum[a[1]], g.mc[a[1]]) if a[0] == "pa" else (a[1], a[2])
            calls.append((idn, mc, c))
            ncalls += 1
            if c == prev:
                stats["calls_ignored"] += 1
            else:
                gone = len([e for e in prev if e not in c])
                if gone:
                    stats["calls_removing_ancestors"] += 1
                    removed = True
                if gone >= 3:
                    stats["calls_superseding_3_or_more_entries"] += 1
                    if len(prev) >= 9:
                        stats["calls_superseding_3_or_more_in_nearly_full_cache"] += 1
                if len(c) > len(prev) or (c and c[-1] not in prev):
                    stats["calls_adding"] += 1
                    grew = True
            if len(c) == PEER_HEAD_MAX_EXPECTED:
                stats["calls_with_full_cache"] += 1
            if a[0] == "pA":
                stats["calls_stale_or_unknown"] += 1
            elif not (headmask >> a[1]) & 1:
                stats["calls_uncommitted"] += 1
            prev = c
        stats["max_cache_len"] = max(stats["max_cache_len"], max((len(c) for c in caches if c is not None), default=0))
        if removed and grew:
            nontrivial += 1
        cases.append((parsed["segs"], parsed["heads"], calls))
    ctx.log("%d graphs, %d add_command calls" % (len(cases), ncalls))
    res = ql.shard_eval(ctx, "c20", HEADER, cases, render, shard=12)
    if res is None:
        return
    vals, chunks = res
    flat = [v for vs in vals for v in vs]
    mism = [(i, v) for i, v in enumerate(flat) if v]
    ctx.coverage.update({
        "traces_validated_against_impl": len(cases),
        "evaluations": ncalls,
        "distinct_nontrivial": nontrivial,
        "rule": "case = a graph built through the real storage API (memory / libc backend; every third one with 11-15 parallel "
                "branches so the cache fills up, every third one a fan of 3-8 recorded concurrent branches joined by nested merges, "
                "also with the cache nearly full) and 8-45 PeerCache::add_command calls mixing committed commands, commands stored "
                "but not under the committed heads, stale/wrong max cuts and unknown ids; the cache is read back (PeerCache::heads) "
                "after every call; non-trivial = some call removed ancestors and some call added an entry",
        "distribution": dict(stats),
        "samples": [{"script": gens[i][4][:300], "impl": lines[i][-300:]} for i in range(min(2, len(gens)))],
    })
    ctx.assumptions += ["command ids are unique in a committed graph (hypothesis ids_unique of the theorem; true of hash-derived ids)",
                        "between calls the replica only grows (hypothesis `stable`)"]
    seen = set()
    for (why, line) in fails:
        key = " ".join(why.split(" ")[2:6])
        if len(seen) >= 3 or key in seen:
            continue
        seen.add(key)
        ctx.violation("peer cache breaks its rules: " + why,
                      {"script": line, "contradicts": "peercache_inv / add_command_correct (coq/props/C20.v)",
                       "replay_cmd": "echo '<script>' | build/target/debug/c11"})
    ctx.oblige("oracle:cache-rules-on-impl-output", not fails, str([f[0] for f in fails[:3]])[:1500])
    ctx.oblige("correspondence:model=impl", not mism,
               "model and implementation caches differ in (case, calls) %s; first script: %s" % (
                   mism[:4], gens[mism[0][0]][4][:500] if mism else None))
