"""C27 — policy front ends are total: parsing any text and compiling any parsed policy never panics."""
import json
import os
import re
import subprocess
import sys

import vlib

sys.path.insert(0, os.path.dirname(os.path.abspath(__file__)))
sys.path.insert(0, os.path.join(vlib.ROOT, "tools"))
import frontend_cases as fc  # noqa: E402

F8_DEPTH = 200      # finding F8's input class: syntactic nesting depth above this


def hexs(t):
    return t.encode("utf-8", "surrogatepass").hex()


def run_cases(binp, cases, shapes, timeout=3000):
    """Feed all cases to one process; if it dies, resume after the fatal case.
    -> (results: dict index -> fields, crashes: [(index, rc, stderr tail)], shape lines)"""
    results, crashes, shape_lines = {}, [], set()
    start = 0
    while start < len(cases):
        chunk = cases[start:]
        inp = "".join("%s %s\n" % (m, hexs(t)) for (m, t, _o) in chunk)
        p = subprocess.run([binp] + ([] if shapes else ["--no-shapes"]), input=inp, timeout=timeout,
                           stdout=subprocess.PIPE, stderr=subprocess.PIPE, text=True, errors="replace")
        done = 0
        ended = False
        for l in p.stdout.splitlines():
            if l.startswith("@@ "):
                parts = l.split()
                results[start + int(parts[1])] = dict(x.split("=", 1) for x in parts[2:])
                done = max(done, int(parts[1]) + 1)
            elif l.startswith("@@SHAPE") or l.startswith("@@TOP"):
                shape_lines.add(l)
            elif l.startswith("@@END"):
                ended = True
        if ended and p.returncode == 0:
            break
        # the process died while working on case start+done
        crashes.append((start + done, p.returncode, p.stderr[-600:]))
        start = start + done + 1
        if len(crashes) > 40:
            break
    return results, crashes, shape_lines


def run_single(binp, mode, text, timeout=900):
    try:
        p = subprocess.run([binp, "--no-shapes"], input="%s %s\n" % (mode, hexs(text)), timeout=timeout,
                           stdout=subprocess.PIPE, stderr=subprocess.PIPE, text=True, errors="replace")
    except subprocess.TimeoutExpired:
        return "timeout", {}, ""
    res = [l for l in p.stdout.splitlines() if l.startswith("@@ 0 ")]
    fields = dict(x.split("=", 1) for x in res[0].split()[2:]) if res else {}
    if p.returncode == 0 and fields:
        return "ok", fields, ""
    so = "overflowed its stack" in p.stderr or p.returncode in (-11, -6, 134, 139)
    return ("stack-overflow" if so else "died:%s" % p.returncode), fields, p.stderr[-300:]


def canon_py(e):
    """canonical text of a PEG as tools/gen_frontend.py reads it (same format as `c27 --grammar-dump`)"""
    k = e[0]

    def hx(s):
        return s.encode().hex()
    if k == "Str":
        return "(str %s)" % hx(e[1])
    if k == "Insens":
        return "(insens %s)" % hx(e[1])
    if k == "Range":
        return "(range %s %s)" % (hx(e[1]), hx(e[2]))
    if k == "Ref":
        return "(ref %s)" % e[1]
    if k in ("Seq", "Alt"):
        items, x = [], e
        while x[0] == k:
            items.append(x[1])
            x = x[2]
        items.append(x)
        flat = []
        for it in items:     # the left operand may itself be a parenthesised chain of the same kind
            c = canon_py(it)
            tag = "(seq " if k == "Seq" else "(alt "
            if it[0] == k and c.startswith(tag):
                flat.append(c[len(tag):-1])
            else:
                flat.append(c)
        return "(%s %s)" % ("seq" if k == "Seq" else "alt", " ".join(flat))
    if k == "Opt":
        return "(opt %s)" % canon_py(e[1])
    if k == "Star":
        return "(star %s)" % canon_py(e[1])
    if k == "Plus":
        return "(plus %s)" % canon_py(e[1])
    if k == "PosPred":
        return "(pos %s)" % canon_py(e[1])
    if k == "NegPred":
        return "(neg %s)" % canon_py(e[1])
    if k == "Rep":
        lo, hi = e[1], e[2]
        return "(rep %d %s %s)" % (lo, "inf" if hi in (None, -1) else hi, canon_py(e[3]))
    return "(?)"


def coq_string(s):
    return '"' + s.replace('"', '""') + '"'


def site_map(ctx):
    """(file suffix, line) -> (fn, text) from the generated ledger; and the class of every site from Coq"""
    sites = {}
    p = os.path.join(vlib.COQ, "gen", "GenFrontendSites.v")
    for l in open(p, encoding="utf-8"):
        m = re.match(r'\s*\{\| s_file := "(.*?)"; s_fn := "(.*?)"; s_kind := "(.*?)"; s_text := "(.*)"; s_ord := (\d+) \|\};? \(\* line (\d+)', l)
        if m:
            f = m.group(1).split("/", 1)[1]
            sites[(f, int(m.group(6)))] = (m.group(2), m.group(4).replace('""', '"'), int(m.group(5)))
    return sites


def run(ctx):
    vlib.regen(ctx)
    vlib.prove(ctx)
    bins = {}
    for prof in ("dev", "nodebug"):
        bins[prof] = vlib.cargo_build(ctx, "hx-frontend", profile=prof, bin="c27")
        if not bins[prof]:
            return
    import gen_frontend

    # ---- translator cross-check: the pest reader of tools/gen_frontend.py vs. pest_meta
    rc, out, err = vlib.run_bin(bins["dev"], ["--grammar-dump"])
    meta = {}
    for l in out.splitlines():
        if l.startswith("@@RULE "):
            _, name, kind, canon = l.split(" ", 3)
            meta[name] = (kind, canon)
    mine = {n: (k, canon_py(e)) for (n, k, e) in gen_frontend.parse_grammar(vlib.REPO)}
    diff = [n for n in sorted(set(meta) | set(mine)) if meta.get(n) != mine.get(n)]
    ctx.oblige("translator:grammar-reader=pest_meta", rc == 0 and meta and not diff,
               "rules read differently: %s %s" % (diff[:5], [(meta.get(n), mine.get(n)) for n in diff[:1]]))

    # ---- class of every ledger site (evaluated in Coq), for classifying an observed panic
    rc, o = vlib.coq_eval(ctx, "c27_classes",
                          "From Coq Require Import String List NArith.\nFrom Aranya Require Import proofs.FrontendSites gen.GenFrontendSites.\n"
                          "Open Scope string_scope.\n"
                          'Eval vm_compute in (length frontend_sites, class_count "grammar", class_count "model", class_count "text", '
                          'class_count "audited", class_count "fuzz-only", length fuzz_only_sites).\n'
                          "Eval vm_compute in fuzz_only_sites.\n")
    counts = None
    fuzz_only = []
    if rc == 0:
        m = re.search(r"=\s*\((\d+), (\d+), (\d+), (\d+), (\d+), (\d+), (\d+)\)", o)
        if m:
            counts = [int(x) for x in m.groups()]
        fuzz_only = re.findall(r'\("([^"]*)",\s*"((?:[^"]|"")*)",\s*(\d+)%?N?\)', o.split(":", 1)[-1].replace("\n", " "))
    ctx.oblige("ledger:class-counts", counts is not None and counts[0] == sum(counts[1:6]), o[-800:])
    ledger = site_map(ctx)

    # ---- cases
    n = 40000 if ctx.thorough else 3500
    cases = fc.generate_cases(vlib.REPO, ctx.rng, n)
    ctx.log("generated %d cases" % len(cases))
    all_results = {}
    shape_lines = set()
    crashes_all = []
    for prof in ("dev", "nodebug"):
        res, crashes, shp = run_cases(bins[prof], cases, shapes=(prof == "dev"))
        all_results[prof] = res
        shape_lines |= shp
        crashes_all += [(prof,) + c for c in crashes]
        ctx.log("profile %s: %d results, %d process deaths" % (prof, len(res), len(crashes)))
    ctx.oblige("harness:all-cases-ran", all(len(all_results[p]) + sum(1 for c in crashes_all if c[0] == p) >= len(cases) for p in all_results),
               "results: %s crashes: %s" % ({p: len(r) for p, r in all_results.items()}, crashes_all[:3]))

    # ---- oracle: the property itself, on the implementation's behaviour
    STEPS = {"P": "parse", "C1": "compile(debug, stub_ffi)", "C2": "compile(no debug, FFI schemas)", "I": "compile_interface", "M": "Machine::from_module"}
    violations = []          # (profile, index, step, message)
    render_panics = 0
    for prof, res in all_results.items():
        for i, d in sorted(res.items()):
            for k, what in STEPS.items():
                v = d.get(k, "-")
                if v.startswith("panic:"):
                    violations.append((prof, i, what, bytes.fromhex(v[6:]).decode("utf-8", "replace")))
            if d.get("R", "ok").startswith("panic:"):
                render_panics += 1
    known_hits = 0
    for (prof, i, rcode, tail) in crashes_all:
        mode, text, origin = cases[i]
        status, fields, errt = run_single(bins[prof], mode, text)
        depth = fc.nesting_depth(text)
        if status == "stack-overflow" and depth > F8_DEPTH:
            known_hits += 1
            ctx.report_known({"id": "F8"}, "F8 stack overflow on input of nesting depth %d (> %d) [%s]" % (depth, F8_DEPTH, origin))
        elif status == "ok":
            # the death is not reproducible on the case alone: report it as machinery trouble
            ctx.oblige("harness:crash-reproducible", False, "case %d (%s) killed the %s process (rc %s) but runs alone" % (i, origin, prof, rcode))
        else:
            violations.append((prof, i, "process " + status, "nesting depth %d; %s" % (depth, (errt or tail)[-200:])))

    # ---- deep-nesting probes (child processes): depth 200 must be handled, the towers beyond are finding F8
    probes = []
    big = {"paren": 3000, "paren_expr": 3000, "not": 30000, "return": 3000, "some": 3000, "block": 3000, "optional": 6000,
           "match": 3000, "blockexpr": 3000}
    thresholds = {}
    for kind in fc.TOWER_KINDS:
        for prof in ("dev", "nodebug"):
            d0 = F8_DEPTH
            mode, text = fc.tower(kind, d0)
            while fc.nesting_depth(text) > F8_DEPTH:      # the tower's own wrapper adds a level or two
                d0 -= 1
                mode, text = fc.tower(kind, d0)
            status, fields, errt = run_single(bins[prof], mode, text)
            depth = fc.nesting_depth(text)
            probes.append((kind, prof, depth, status))
            panicked = [k for k, v in fields.items() if v.startswith("panic:") and k != "R"]
            if status != "ok" or panicked or depth > F8_DEPTH:
                violations.append((prof, -1, "nesting probe %s depth %d" % (kind, depth),
                                   "status %s %s (must be handled: nesting depth <= %d)" % (status, panicked, F8_DEPTH)))
                cases.append((mode, text, "probe:" + kind))
                violations[-1] = (prof, len(cases) - 1) + violations[-1][2:]
        if kind in big:
            mode, text = fc.tower(kind, big[kind])
            status, fields, errt = run_single(bins["dev"], mode, text)
            probes.append((kind, "dev", fc.nesting_depth(text), status))
            if status == "stack-overflow":
                known_hits += 1
                ctx.report_known({"id": "F8"}, "F8 stack overflow: %s tower of depth %d aborts the process (depth %d is handled)" % (kind, big[kind], F8_DEPTH))
            elif status != "ok":
                cases.append((mode, text, "probe:" + kind))
                violations.append(("dev", len(cases) - 1, "nesting probe %s depth %d" % (kind, big[kind]), status + " " + errt))
        if ctx.thorough and kind in big:
            lo, hi = F8_DEPTH, big[kind]
            while hi - lo > max(2, lo // 40):
                mid = (lo + hi) // 2
                st, _, _ = run_single(bins["dev"], *fc.tower(kind, mid))
                if st == "ok":
                    lo = mid
                else:
                    hi = mid
            thresholds[kind] = {"handled_up_to": lo, "aborts_from": hi}

    ctx.log("nesting probes done (%d runs)" % len(probes))
    # ---- report violations (concrete replays)
    seen = set()
    for (prof, i, step, msg) in violations:
        mode, text, origin = cases[i]
        loc = re.match(r"(?:/repo|%s)/crates/aranya-policy-(\w+)/src/(.*?):(\d+)" % re.escape(os.path.realpath(vlib.REPO)), msg)
        where, cls = None, None
        if loc:
            key = (loc.group(2), int(loc.group(3)))
            where = ledger.get(key)
            if where:
                cls = "fuzz-only" if any(fn == where[0] and tx.replace('""', '"') == where[1] for (fn, tx, _o) in fuzz_only) else "discharged-by-proof"
        sig = (step, msg[:120])
        if sig in seen:
            continue
        seen.add(sig)
        if len(seen) > 3:
            continue
        ctx.violation("front end panicked in %s [%s profile]: %s" % (step, prof, msg[:300]), {
            "mode": mode, "text": text, "text_hex": hexs(text), "origin": origin, "profile": prof, "step": step, "panic": msg,
            "ledger_site": where, "ledger_class": cls,
            "contradicts": ("frontend_sites_discharged_partial: this site is recorded as unreachable (the model or the table is stale)"
                            if cls == "discharged-by-proof" else "property C27 directly (the site is on the fuzz-only list or outside the ledger)"),
            "replay_cmd": "echo '%s %s' | build/target/%s/c27 --no-shapes" % (mode, hexs(text), "debug" if prof == "dev" else "nodebug")})
    ctx.oblige("oracle:no-panic-on-any-input", not violations, "%d panicking (profile, case, step) triples; first: %s" % (len(violations), violations[:2]))

    # ---- model side: every pair-tree shape pest produced is inside the proved shape analysis
    shapes = sorted(shape_lines)
    items = []
    for l in shapes:
        parts = l.split(" ")
        kind, rule = parts[0], parts[1]
        kids = [k for k in (parts[2].split(",") if len(parts) > 2 and parts[2] else [])]
        items.append((kind == "@@TOP", rule, kids))
    if not ctx.thorough and len(items) > 6000:
        r2 = ctx.rng.fork()
        r2.shuffle(items)
        items = items[:6000]

    def render(chunk):
        rows = ["(%s, %s, %s)" % ("true" if top else "false", coq_string(rule), vlib.coq_list(kids, coq_string)) for (top, rule, kids) in chunk]
        return ("Definition cases : list (bool * string * list string) := %s.\n"
                "Definition chk (c : bool * string * list string) : bool :=\n"
                "  let '(top, rule, ks) := c in matches (lookup (if top then tops else nodes) rule) ks.\n"
                "Eval vm_compute in (mismatches chk cases).\n" % vlib.coq_list(rows))
    header = ("From Coq Require Import String List NArith.\nFrom Aranya Require Import base.Harness model.PegSyntax model.ShapeRe model.Frontend gen.GenGrammar.\n"
              "Import ListNotations.\nOpen Scope string_scope.\n"
              "(* children_shape / top_shape of every rule, computed once per shard *)\n"
              "Definition nodes := Eval vm_compute in (map (fun r => (r_name r, children_shape grammar (r_name r))) grammar ++ [(\"EOI\", children_shape grammar \"EOI\")])%list.\n"
              "Definition tops := Eval vm_compute in (map (fun r => (r_name r, top_shape grammar (r_name r))) grammar).\n"
              "Definition lookup (t : list (string * re)) (n : string) : re :=\n"
              "  match find (fun e => String.eqb (fst e) n) t with Some (_, r) => r | None => Emp end.\n")
    outs, chunks = vlib.coq_eval_sharded(ctx, "c27_shapes", header, items, render, shard=500)
    mism, base, bad_eval = [], 0, None
    for (rc, o), ch in zip(outs, chunks):
        v = vlib.parse_coq_value(o) if rc == 0 else None
        if v is None:
            bad_eval = o[-1500:]
            break
        mism += [base + j for j in v]
        base += len(ch)
    ctx.log("shape inclusion evaluated in Coq for %d distinct pair shapes" % len(items))
    ctx.oblige("correspondence:model-eval", bad_eval is None, bad_eval or "")
    ctx.oblige("correspondence:pest-shapes-inside-shape-analysis", not mism and len(items) > 0,
               "observed (rule, children) outside children_shape: %s" % [items[j] for j in mism[:3]])

    # ---- model side: the front-matter guard (model/FrontMatter.v on the generated trim set) vs. the real verdict
    dev = all_results["dev"]
    fm_items = []
    for i, (m_, t, o_) in enumerate(cases):
        f = dev.get(i, {}).get("FM", "-")
        if m_ == "D" and f in ("0", "1") and len(t) < 4000 and (o_.startswith("frontmatter") or len(fm_items) < 4000):
            fm_items.append((i, [ord(ch) for ch in t], f == "1"))

    def render_fm(chunk):
        rows = ["(%s, %s)" % (vlib.coq_list(cps), "true" if exp else "false") for (_i, cps, exp) in chunk]
        return ("Definition cases : list (list N * bool) := %s.\n"
                "Definition chk (c : list N * bool) : bool :=\n"
                "  Bool.eqb (has_unterminated_front_matter fm_trim fm_fences fm_line_seps fm_skip_prefix (fst c)) (snd c).\n"
                "Eval vm_compute in (mismatches chk cases).\n" % vlib.coq_list(rows))
    header_fm = ("From Coq Require Import List NArith Bool.\nFrom Aranya Require Import base.Harness model.FrontMatterSyntax model.FrontMatter gen.GenFrontMatter.\n"
                 "Import ListNotations.\nOpen Scope N_scope.\n")
    outs, chunks = vlib.coq_eval_sharded(ctx, "c27_frontmatter", header_fm, fm_items, render_fm, shard=400)
    fm_mism, base, bad_eval = [], 0, None
    for (rc, o), ch in zip(outs, chunks):
        v = vlib.parse_coq_value(o) if rc == 0 else None
        if v is None:
            bad_eval = o[-1500:]
            break
        fm_mism += [base + j for j in v]
        base += len(ch)
    ctx.log("front-matter guard: model vs implementation on %d documents" % len(fm_items))
    ctx.oblige("correspondence:front-matter-model-eval", bad_eval is None, bad_eval or "")
    ctx.oblige("correspondence:front-matter-guard-model=impl", not fm_mism and len(fm_items) > 0,
               "guard verdict differs on %s" % [(repr(cases[fm_items[j][0]][1][:80]), fm_items[j][2]) for j in fm_mism[:3]])

    # ---- coverage
    by_origin = {}
    for i, (m, t, o) in enumerate(cases):
        d = dev.get(i)
        if not d:
            continue
        k = o.split(":")[0]
        b = by_origin.setdefault(k, {"cases": 0, "parse_ok": 0, "compile_ok": 0, "compile_err": 0})
        b["cases"] += 1
        b["parse_ok"] += d["P"] == "ok"
        b["compile_ok"] += d["C1"] == "ok" or d["C2"] == "ok"
        b["compile_err"] += d["C1"].startswith("err") and d["C2"].startswith("err")
    parsed = {(m, t) for i, (m, t, o) in enumerate(cases) if dev.get(i, {}).get("P") == "ok"}
    ctx.coverage.update({
        "traces_validated_against_impl": len(items),
        "evaluations": sum(len(r) for r in all_results.values()),
        "distinct_nontrivial": len(parsed),
        "rule": "case = (entry point, text); both build profiles run every case; non-trivial = distinct texts the real parser accepted "
                "(their ASTs were then compiled twice with the real compiler); traces_validated = distinct (rule, child rules) pair-tree "
                "shapes produced by pest on the same inputs and checked inside Coq against children_shape/top_shape",
        "distribution": {"by_origin": by_origin,
                         "parse_errors_by_kind": _count(d["P"] for d in dev.values() if d["P"].startswith("err")),
                         "modes": _count(m for (m, t, o) in cases),
                         "process_deaths": len(crashes_all),
                         "error_display_panics(informational, outside the property)": render_panics},
        "ledger": dict(zip(["sites", "grammar", "model", "text", "audited", "fuzz_only"], counts[:6])) if counts else None,
        "fuzz_only_sites": ["%s: %s #%s" % (fn, tx.replace('""', '"'), o) for (fn, tx, o) in fuzz_only],
        "nesting_probes": [{"kind": k, "profile": p, "depth": d, "status": s} for (k, p, d, s) in probes],
        "nesting_thresholds_measured": thresholds or None,
        "shape_pairs_observed": len(shapes),
        "front_matter_documents_model_vs_impl": {"compared": len(fm_items), "guard_rejected": sum(1 for x in fm_items if x[2])},
        "samples": [{"mode": m, "origin": o, "text": t[:200], "dev": dev.get(i)} for i, (m, t, o) in list(enumerate(cases))[400:403]],
    })
    ctx.assumptions += [
        "pest's token discipline (which rules produce pairs, atomic / silent rules, implicit whitespace) is modelled by the relation `emits` from pest's documentation; "
        "the run checks every pair shape pest actually produced against the analysis proved sound for `emits`",
        "the link between a ledger row and the code it describes is by reading (local models are 5-15 line transcriptions; class `audited` has no proof content)",
        "callees outside the anchored files (pest, pratt, markdown, serde_yaml, aranya-policy-ast/-text/-module constructors) are covered by the fuzzing side only",
        "stack depth is not modelled: finding F8 (nesting depth > %d) is open" % F8_DEPTH,
    ]


def _count(it):
    d = {}
    for x in it:
        d[x] = d.get(x, 0) + 1
    return d
