"""C13 — reverting to a checkpoint is exact (graph perspectives and sessions)."""
import importlib.util
import os
import sys

import vlib

HERE = os.path.dirname(os.path.abspath(__file__))
sys.path.insert(0, HERE)
import _facts_lib as fl  # noqa: E402


def _load(name):
    spec = importlib.util.spec_from_file_location("check_" + name, os.path.join(HERE, name + ".py"))
    m = importlib.util.module_from_spec(spec)
    spec.loader.exec_module(m)
    return m


def f12_cases(U):
    """The input class of finding F12 (repaired): a checkpoint taken while writes are pending."""
    n, k1, k2 = U.names[0], U.keys[1], U.keys[2]
    return [
        [("N",), ("I", 0, n, k1, b"\x01"), ("K", 0), ("R", 0, 0)],
        [("N",), ("I", 0, n, k1, b"\x01"), ("K", 0), ("I", 0, n, k1, b"\x02"), ("D", 0, n, k2), ("R", 0, 0)],
        [("N",), ("I", 0, n, k1, b"\x01"), ("A", 0, 1), ("I", 0, n, k2, b"\x02"), ("K", 0), ("I", 0, n, k2, b"\x03"),
         ("A", 0, 2), ("I", 0, n, k1, b"\x04"), ("R", 0, 0), ("A", 0, 3), ("C", 0), ("O", 0, 0), ("O", 0, 1)],
    ]


def run(ctx):
    vlib.regen(ctx)
    vlib.prove(ctx)
    c12 = _load("C12")
    c14 = _load("C14")
    r = ctx.rng
    T = ctx.thorough
    # ---- graph perspectives: checkpoint / revert interleaved with everything else
    binp = vlib.cargo_build(ctx, "hx-facts", bin="c12")
    if not binp:
        return
    cases = []
    U0 = fl.Universe(fl.NAMES, fl.KEYS[:6])
    for ops in f12_cases(U0):
        for backend in ("mem", "file"):
            cases.append({"kind": "pending-at-checkpoint", "backend": backend, "U": U0, "ops": ops, "stats": {}, "oracle": True})
    for _ in range(300 if T else 36):
        U, ops, st = fl.gen_world_case(r, r.choice([1, 2, 3, 4, 6, 9]), 24, revert_heavy=True)
        cases.append({"kind": "history", "backend": "file" if r.chance(1, 3) else "mem", "U": U, "ops": ops, "stats": st, "oracle": True})
    c12.run_cases(ctx, binp, cases, "c13", shard=12)
    bad, mism = c12.report(ctx, cases, "perspective-revert")
    # ---- sessions: a failed action / receive is checkpoint; writes; revert
    binp14 = vlib.cargo_build(ctx, "hx-facts", bin="c14")
    if not binp14:
        return
    scases = c14.gen_cases(ctx, fail_heavy=True)
    if T:
        scases = scases[:120]
    else:
        scases = scases[:24]
    c14.run_session_cases(ctx, binp14, scases, "c13s", shard=12)
    c14.report_sessions(ctx, scases, "session-revert", "session_revert_exact / failed_call_exact' (coq/props/C13.v)")
    agg = {}
    for c in cases:
        for k, v in c["stats"].items():
            agg[k] = agg.get(k, 0) + v
    sagg = {}
    for c in scases:
        for k, v in c["stats"].items():
            sagg[k] = sagg.get(k, 0) + v
    reverts = [(c, i) for c in cases for i, o in enumerate(c["ops"]) if o[0] in ("R", "F")]
    pending_cp = 0
    for c in cases:
        o = fl.Oracle(c["U"])
        for op in c["ops"]:
            if op[0] == "K" and o.live(op[1]) and o.persps[op[1]]["pending"] > 0:
                pending_cp += 1
            o.step(op)
    ctx.coverage.update({
        "traces_validated_against_impl": len(cases) + len(scases),
        "evaluations": sum(len(c["U"].names) * (len(c["U"].keys) + len(c["U"].prefixes)) for (c, i) in reverts)
                       + sagg.get("failed_calls", 0),
        "distinct_nontrivial": len({fl.enc_case("", c["U"], c["ops"]) for c in cases if any(o[0] == "R" for o in c["ops"])})
                               + len({fl.enc_scase("", c["U"], c["ops"]) for c in scases if any(o[0] in ("a", "r") and not o[2] and any(it[0] in ("I", "D") for it in o[3]) for o in c["ops"])}),
        "rule": "graph side: histories with checkpoints/reverts (nested, to older live checkpoints, across added commands, with failed rules) "
                "observed after every step incl. head address; non-trivial = contains a revert. session side: failed action/receive calls "
                "that wrote before failing; the full session dump after the call must equal the one before",
        "distribution": {"graph_ops": agg, "checkpoints_with_pending_writes": pending_cp, "reverts_and_failed_rules": len(reverts),
                         "session_ops": sagg,
                         "by_backend": {k: sum(1 for c in cases + scases if c["backend"] == k) for k in ("mem", "file")}},
        "samples": [{"kind": c["kind"], "case": fl.enc_case(c["backend"], c["U"], c["ops"])[:500]} for c in cases[:2]],
    })
    ctx.oblige("coverage:checkpoint-with-pending-writes", pending_cp > 0, "no checkpoint was taken while writes were pending")
    ctx.assumptions += [
        "a revert targets a live checkpoint (one not invalidated by a revert to an older checkpoint); the theorem's `above` side condition",
        "finding F12 (checkpoint with pending writes lost them on revert) was repaired in /repo; the old behaviour is kept as revert_old_refuted",
    ]
