"""C12 — fact storage behaves as a key-value map."""
import os
import re
import sys

import vlib

sys.path.insert(0, os.path.dirname(os.path.abspath(__file__)))
import _facts_lib as fl  # noqa: E402


def parse_evals(out):
    """The values printed by the `Eval vm_compute in` commands of a cases file, in order."""
    vals = []
    for m in re.finditer(r"=\s*(\[.*?\])\s*:\s*list", out, re.S):
        vals.append(vlib.parse_term(m.group(1)))
    return vals


def run_cases(ctx, binp, cases, name, shard):
    """cases: list of dicts with backend, U, ops.  Fills impl / oracle / model verdicts in place."""
    inp = "".join(fl.enc_case(c["backend"], c["U"], c["ops"]) + "\n" for c in cases)
    rc, out, err = vlib.run_bin(binp, input=inp, timeout=3000)
    lines = out.splitlines()
    if rc != 0 or len(lines) != len(cases):
        ctx.oblige("harness:run:" + name, False, "rc=%s lines=%d/%d %s" % (rc, len(lines), len(cases), err[-1500:]))
        return False
    for c, line in zip(cases, lines):
        steps = line.split("|")
        c["impl"] = [fl.parse_step(s) for s in steps]
        c["raw"] = steps
        # the oracle: the flat-map specification evaluated on the implementation's answers
        o = fl.Oracle(c["U"])
        c["oracle_fail"] = None
        exp = [o.step(op) for op in c["ops"]]
        c["expected"] = exp
        if len(c["impl"]) != len(exp):
            c["oracle_fail"] = (min(len(c["impl"]), len(exp)), "runner stopped early")
        if c.get("oracle", True):
            for i, (e, g) in enumerate(zip(exp, c["impl"])):
                if not fl.obs_matches(e, g):
                    c["oracle_fail"] = (i, "answers differ from the flat map")
                    break
        elif any(g == "panic" for g in c["impl"]):
            c["oracle_fail"] = (c["impl"].index("panic"), "panic")
    # model side, compared inside Coq; a case whose implementation panicked has no observations to compare
    todo = [c for c in cases if "panic" not in c["impl"] and len(c["impl"]) == len(c["ops"])]
    # at most four coqc processes at a time (the machine is shared)
    outs, chunks = [], []
    group = 4 * shard
    for gi in range(0, max(len(todo), 1), group):
        o1, c1 = vlib.coq_eval_sharded(
            ctx, "%s_%d" % (name, gi // group), fl.COQ_HEADER, todo[gi:gi + group],
            lambda ch: fl.render_cases([(c["backend"] == "mem", c["U"], c["ops"], c["impl"]) for c in ch]),
            shard=shard, timeout=1500)
        outs += o1
        chunks += c1
    ok = True
    for (rc, o), ch in zip(outs, chunks):
        vals = parse_evals(o) if rc == 0 else []
        if len(vals) != 2 or len(vals[0]) != len(ch):
            ctx.oblige("correspondence:model-eval:" + name, False, o[-2500:])
            ok = False
            for c in ch:
                c["model_diff"] = "eval-failed"
            continue
        for c, d, depths in zip(ch, vals[0], vals[1]):
            c["model_diff"] = None if d == "None" else (d[1] if isinstance(d, tuple) else d)
            c["depths"] = depths
    return ok


def report(ctx, cases, label):
    """Violations first (oracle), then the correspondence obligation."""
    bad = [c for c in cases if c["oracle_fail"]]
    for c in bad[:3]:
        i, why = c["oracle_fail"]
        ctx.violation(
            "%s: fact queries disagree with the flat map after step %d (%s): %s" % (label, i, fl.enc_op(c["ops"][i]) if i < len(c["ops"]) else "?", why),
            {"case": fl.enc_case(c["backend"], c["U"], c["ops"]), "kind": c["kind"], "step": i,
             "op": fl.enc_op(c["ops"][i]) if i < len(c["ops"]) else None,
             "impl": c["raw"][i] if i < len(c["raw"]) else None,
             "flat_map_expects": repr(c["expected"][i]) if i < len(c["expected"]) else None,
             "contradicts": "facts_refine_flat (coq/props/C12.v) / revert_exact (coq/props/C13.v)",
             "replay_cmd": "echo '<case>' | build/target/debug/c12   # the case field above"})
    mism = [c for c in cases if c.get("model_diff") is not None]
    ctx.oblige("oracle:flat-map-on-impl-output:" + label, not bad,
               "; ".join("%s step %d: %s" % (c["kind"], c["oracle_fail"][0], c["oracle_fail"][1]) for c in bad[:5]))
    ctx.oblige("correspondence:model=impl:" + label, not mism,
               "; ".join("%s[%s] first differing step %s (%s): impl=%s" % (
                   c["kind"], c["backend"], c["model_diff"],
                   fl.enc_op(c["ops"][c["model_diff"]]) if isinstance(c["model_diff"], int) and c["model_diff"] < len(c["ops"]) else "?",
                   c["raw"][c["model_diff"]][:200] if isinstance(c["model_diff"], int) and c["model_diff"] < len(c["raw"]) else "?")
                         for c in mism[:4]))
    return bad, mism


def gen_cases(ctx):
    r = ctx.rng
    T = ctx.thorough
    cases = []

    def add(kind, backend, U, ops, stats, oracle=True):
        cases.append({"kind": kind, "backend": backend, "U": U, "ops": ops, "stats": stats, "oracle": oracle})

    # deep chains: single-command segments opened at the head, on both backends
    for backend in ("mem", "file"):
        for _ in range(3 if T else 1):
            U, ops, st = fl.gen_world_case(r, r.range(33, 44), 60, deep=True)
            add("deep", backend, U, ops, st)
    # deterministic depth ladder (every depth 1..limit, the compaction step, twice), both backends
    for backend in ("mem", "file"):
        U, ops, st = fl.gen_ladder_case(r, 2 * 16 + 3)
        add("ladder", backend, U, ops, st)
    # general histories: 1-25 segments, up to 40 commands, heads / mid-segment / write_facts / merges
    for _ in range(400 if T else 36):
        nseg = r.choice([1, 2, 3, 5, 8, 12, 18, 25])
        U, ops, st = fl.gen_world_case(r, nseg, 40)
        add("history", "file" if r.chance(2, 5) else "mem", U, ops, st)
    # many mid-size segments so that mid-segment priors get written out as indexes (two layers per segment)
    for _ in range(60 if T else 8):
        U, ops, st = fl.gen_world_case(r, r.range(20, 30), 120)
        add("long", "file" if r.chance(1, 3) else "mem", U, ops, st)
    for _ in range(40 if T else 4):
        U, ops, st = fl.gen_malformed_case(r)
        add("malformed", "file" if r.chance(1, 2) else "mem", U, ops, st)
    return cases


def run(ctx):
    vlib.regen(ctx)
    vlib.prove(ctx)
    binp = vlib.cargo_build(ctx, "hx-facts", bin="c12")
    if not binp:
        return
    cases = gen_cases(ctx)
    run_cases(ctx, binp, cases, "c12", shard=12)
    bad, mism = report(ctx, cases, "storage")
    steps = sum(len(c["ops"]) for c in cases)
    nq = sum(len(c["U"].names) * (len(c["U"].keys) + len(c["U"].prefixes)) * sum(1 for g in c["impl"] if g not in (None, "panic"))
             for c in cases)
    maxd = 16
    crossings = [sum(1 for d in c.get("depths", []) if d == maxd) for c in cases]
    agg = {}
    for c in cases:
        for k, v in c["stats"].items():
            agg[k] = agg.get(k, 0) + v
    ctx.coverage.update({
        "traces_validated_against_impl": len(cases),
        "evaluations": nq,
        "steps": steps,
        "distinct_nontrivial": len({fl.enc_case("", c["U"], c["ops"]) for c in cases
                                    if sum(1 for o in c["ops"] if o[0] in ("W", "C")) >= 2 and any(o[0] in ("D", "d") for o in c["ops"])}),
        "rule": "a case is a whole storage history (op list); after every step every exact query (names x keys) and every prefix query "
                "(names x all prefixes of all keys + absent ones) of the touched object is compared; non-trivial = at least two written "
                "segments and at least one delete; distinct by the full op list",
        "distribution": {
            "by_kind": {k: sum(1 for c in cases if c["kind"] == k) for k in ("deep", "ladder", "history", "long", "malformed")},
            "by_backend": {k: sum(1 for c in cases if c["backend"] == k) for k in ("mem", "file")},
            "segments_per_case_max": max(sum(1 for o in c["ops"] if o[0] in ("W", "C")) for c in cases),
            "commands_per_case_max": max(sum(1 for o in c["ops"] if o[0] == "A") for c in cases),
            "max_index_depth_seen": max([max(c.get("depths", [0]) or [0]) for c in cases]),
            "cases_reaching_depth_limit": sum(1 for x in crossings if x >= 1),
            "cases_crossing_depth_limit_twice": sum(1 for x in crossings if x >= 2),
            "ops": agg,
        },
        "samples": [{"kind": c["kind"], "backend": c["backend"], "case": fl.enc_case(c["backend"], c["U"], c["ops"])[:600],
                     "first_steps_impl": c["raw"][:3]} for c in cases[:3]],
    })
    ctx.oblige("coverage:depth-limit-crossed-twice", any(x >= 2 for x in crossings) or bool(mism),
               "no generated history drove a fact index chain to the limit twice")
    ctx.assumptions += [
        "Read::fetch returns the item Write::append stored at that offset (the IO backends are exercised, not modelled; crash behaviour is C15)",
        "API side conditions of the theorem: a perspective is written at a command boundary, new_storage takes a perspective from "
        "new_perspective, get_fact_perspective is given a location inside the segment (the runner also feeds histories outside them; there "
        "only model = implementation is compared)",
        "skip lists, policy ids and command payloads are not modelled (they carry no fact logic)",
    ]
