"""Shared by C11 and C20 (unit queue-lookup): graph scripts for the c11 runner,
output parsing, the reachability oracle, and rendering of stores as Coq terms."""
import vlib

THRESH = [1, 1, 2, 3, 5, 8, 9, 10, 11, 12, 15, 19, 20, 21, 22, 31, 32, 33, 40, 63, 64, 65]


class Graph:
    """The DAG as the generator knows it (independent of any storage)."""

    def __init__(self):
        self.parents = []      # ordinal -> list of parent ordinals
        self.mc = []
        self.seg = []          # ordinal -> segment ordinal
        self.idnum = []        # ordinal -> id number
        self.nseg = 0
        self.ops = []
        self.anc = []          # ordinal -> bitmask of ancestors-or-self
        self.has_child = set()

    def n(self):
        return len(self.parents)

    def _add(self, parents, idnum=None):
        o = self.n()
        self.parents.append(list(parents))
        self.mc.append(0 if not parents else 1 + max(self.mc[p] for p in parents))
        self.seg.append(self.nseg)
        self.idnum.append(o + 1 if idnum is None else idnum)
        m = 1 << o
        for p in parents:
            m |= self.anc[p]
            self.has_child.add(p)
        self.anc.append(m)
        return o

    def _ids(self, count, ids):
        if ids:
            for k, v in enumerate(ids):
                if v is not None:
                    self.ops.append("id:%d:%d" % (self.n() + k, v))

    def init(self, count, ids=None):
        self._ids(count, ids)
        self.ops.append("I:%d" % count)
        prev = None
        for k in range(count):
            prev = self._add([] if prev is None else [prev], ids[k] if ids else None)
        self.nseg += 1

    def linear(self, parent, count, ids=None):
        self._ids(count, ids)
        self.ops.append("S:%d:%d" % (parent, count))
        prev = parent
        for k in range(count):
            prev = self._add([prev], ids[k] if ids else None)
        self.nseg += 1
        return prev

    def merge(self, l, r, count):
        self.ops.append("M:%d:%d:%d" % (l, r, count))
        prev = self._add([l, r])
        for k in range(count - 1):
            prev = self._add([prev])
        self.nseg += 1
        return prev

    def tips(self):
        return [o for o in range(self.n()) if o not in self.has_child]

    def is_anc_eq(self, a, b):
        """a is an ancestor-or-equal of b"""
        return (self.anc[b] >> a) & 1 == 1


def gen_graph(r, total, kind):
    g = Graph()
    pick = lambda: r.choice(THRESH)
    if kind == "chain":
        g.init(min(pick(), total))
        last = g.n() - 1
        while g.n() < total:
            last = g.linear(last, min(pick(), total - g.n()))
        return g
    if kind == "fixedlen":
        ln = r.choice([1, 2, 3, 9, 10, 11])
        g.init(ln)
        last = g.n() - 1
        while g.n() < total:
            last = g.linear(last, ln)
        return g
    # branchy: segments grow from tips or from the middle of segments; merges of tips
    g.init(r.choice([1, 2, 3, 11]))
    while g.n() < total:
        tips = g.tips()
        w = r.below(100)
        if w < 25 and len(tips) >= 2:
            a, b = r.choice(tips), r.choice(tips)
            if a == b:
                continue
            g.merge(a, b, r.choice([1, 1, 2, 3, 10, 12]))
        elif w < 30 and g.n() >= 2:
            # a merge of arbitrary (possibly comparable) commands
            a, b = r.below(g.n()), r.below(g.n())
            if a == b:
                continue
            g.merge(a, b, r.choice([1, 2, 11]))
        elif w < 80 or not tips:
            g.linear(r.choice(tips), pick() if kind == "branchy-long" else r.choice([1, 2, 3, 5, 10, 11, 21]))
        else:
            g.linear(r.below(g.n()), r.choice([1, 2, 3, 10, 11]))
    return g


def choose_heads(r, g):
    tips = g.tips()
    w = r.below(10)
    if w < 5:
        hs = tips
    elif w < 8:
        hs = [t for t in tips if r.chance(1, 2)] or [r.choice(tips)]
    else:
        hs = [r.below(g.n())]
    return sorted(set(hs))


# ---------------------------------------------------------------- parsing the runner's output

def ploc(s):
    if s == "-":
        return None
    a, b = s.split(".")
    return (int(a), int(b))


def parse_case(line):
    """-> dict(segs=[(idx, prior, mc, ids, skip, lca)], heads=[(id,loc)], cmd=[loc], q=[str]) or None on panic"""
    if line.startswith("panic") or not line:
        return None
    segs, cmd, q, hds = [], [], [], []
    for rec in line.split(";"):
        f = rec.split(" ")
        if f[0] == "seg":
            pr = f[2]
            if pr == "n":
                prior = ("n",)
            elif pr[0] == "s":
                prior = ("s", ploc(pr[1:]))
            else:
                a, b = pr[1:].split("+")
                prior = ("m", ploc(a), ploc(b))
            ids = [] if f[4] == "-" else [int(x) for x in f[4].split(",")]
            skip = [] if f[5] == "-" else [ploc(x) for x in f[5].split(",")]
            segs.append((int(f[1]), prior, int(f[3]), ids, skip, ploc(f[6])))
        elif f[0] == "heads":
            if f[1] != "-":
                for h in f[1].split(","):
                    i, l = h.split("@")
                    hds.append((int(i), ploc(l)))
        elif f[0] == "cmd":
            cmd = [] if f[1] == "-" else [ploc(x) for x in f[1].split(",")]
        elif f[0] == "q":
            q.append(f[1] if len(f) > 1 else "")
    return {"segs": segs, "heads": hds, "cmd": cmd, "q": q}


def parse_cache(s):
    """`id@mc.seg,...` -> [(id,(mc,seg))]"""
    if s == "-" or s == "":
        return []
    out = []
    for h in s.split(","):
        i, l = h.split("@")
        out.append((int(i), ploc(l)))
    return out


# ---------------------------------------------------------------- Coq rendering

def cloc(l):
    return "(L %d %d)" % (l[0], l[1])


def coloc(l):
    return "None" if l is None else "(Some %s)" % cloc(l)


def cprior(p):
    if p[0] == "n":
        return "PNone"
    if p[0] == "s":
        return "(PSingle %s)" % cloc(p[1])
    return "(PMerge %s %s)" % (cloc(p[1]), cloc(p[2]))


def cseg(s):
    idx, prior, mc, ids, skip, lca = s
    return "(%d, Seg %s %s %d %s)" % (idx, cprior(prior), vlib.coq_list(ids), mc, vlib.coq_list(skip, cloc))


def cstore(segs):
    return vlib.coq_list(segs, cseg)


def cstore_lca(segs):
    return vlib.coq_list(segs, lambda s: "(%s, %s)" % (cseg(s), coloc(s[5])))


def cheads(hs):
    return vlib.coq_list(hs, lambda h: "(%d, %s)" % (h[0], cloc(h[1])))


CHECK_HEADER = """From Aranya Require Import base.Tactics base.Harness model.TravQueue model.SegStore.
Open Scope N_scope.
Inductive query :=
| QGet (id mc : N) (e : option loc)
| QFrom (s : loc) (id mc : N) (e : option loc)
| QAnc (t s : loc) (e : bool).
Definition chk_query (st : store) (hs : heads) (q : query) : bool :=
  match q with
  | QGet id mc e => rs_oloc_agrees (get_location st hs id mc) e
  | QFrom s id mc e => rs_oloc_agrees (get_location_from st s id mc) e
  | QAnc t s e => rs_bool_agrees (is_ancestor st t s) e
  end.
(* every segment's skip list is what build_skip_list computes from the store before it *)
Fixpoint build_ok (pre : store) (rest : list (N * segment * option loc)) : bool :=
  match rest with
  | [] => true
  | (idx, s, lca) :: r =>
    rs_locs_agrees (build_skip_list pre (s_prior s) lca (s_mc s)) (s_skip s) && build_ok (pre ++ [(idx, s)]) r
  end.
"""


def shard_eval(ctx, name, header, items, render, shard, workers=4, timeout=1500):
    from concurrent.futures import ThreadPoolExecutor
    chunks = [items[i:i + shard] for i in range(0, len(items), shard)] or [[]]

    def one(ic):
        i, c = ic
        return vlib.coq_eval(ctx, "%s_%d" % (name, i), header + render(c), timeout)
    with ThreadPoolExecutor(max_workers=workers) as ex:
        outs = list(ex.map(one, enumerate(chunks)))
    res = []
    for (rc, o), ch in zip(outs, chunks):
        v = vlib.parse_coq_value(o) if rc == 0 else None
        if v is None:
            ctx.oblige("correspondence:model-eval", False, o[-2000:])
            return None
        res.append(v)
    return res, chunks


def regen_mine(ctx):
    """vlib.regen, but only the problems of this unit's generator (GenQueue) count for the property."""
    import os
    import sys
    sys.path.insert(0, os.path.join(vlib.ROOT, "tools"))
    import gen as gen_mod
    with vlib.Lock("coq"):
        problems = gen_mod.generate(vlib.REPO, os.path.join(vlib.COQ, "gen"))
    mine = [p for p in problems if p.startswith("GenQueue") or p.startswith("gen_queue")]
    ctx.oblige("translator:regen", not mine, "; ".join(mine))
    return not mine
