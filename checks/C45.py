"""C45 — key stores behave as maps."""
import itertools
import os
import re
import shutil

import vlib

import crypto_common as cc

NIDS = 3


def rand_op(r, nids):
    i = r.below(nids)
    k = r.below(10)
    t = r.below(100)
    if t < 45:
        v = r.choice(["I%d" % k, "I%d" % k, "I%d" % k, "D", "F%d" % k])      # F = insert whose serialisation fails part-way
        n = r.choice([0, 0, 1, 1, 2, 3])
        return "E%d:%s:%d%s" % (i, v, n, "R" if r.chance(1, 2) else "D")
    if t < 65:
        return "G%d" % i
    if t < 74:
        return "T%d:%d" % (i, k)
    if t < 80:
        return "X%d:%d" % (i, k)                                              # try_insert of a failing key
    if t < 90:
        return "R%d" % i
    return "O"


def gen_sequences(ctx):
    r = ctx.rng
    T = ctx.thorough
    seqs = []
    # targeted: repeated Occupied::get and get-then-remove on one entry (F6's class), vacant drop, reopen
    seqs += [["E0:I3:0D", "E0:D:2D", "G0"], ["E0:I3:0D", "E0:D:1R", "G0", "E0:I4:0D", "G0"],
             ["E1:I5:0D", "E1:D:3R", "O", "G1"], ["E2:D:0D", "G2", "O", "G2", "E2:I1:0D", "O", "G2", "E2:D:2R", "O", "G2"],
             ["T0:1", "T0:2", "R0", "R0", "T0:2", "G0"],
             # failed inserts: nothing may be left behind, also not after reopen
             ["E0:F3:0D", "G0", "E0:D:0D", "O", "G0", "E0:I4:0D", "G0"], ["X1:5", "G1", "O", "G1", "T1:6", "X1:7", "G1", "R1", "X1:8", "G1"],
             ["E2:F1:0D", "E2:F2:0D", "O", "E2:D:1R", "T2:9", "E2:F3:2R", "G2"], ["E0:I1:0D", "E1:I2:0D", "E2:I3:0D", "O", "G0", "G1", "G2", "R1", "O", "G0", "G1", "G2"]]
    for _ in range(2500 if T else 150):
        n = r.choice([1, 2, 3, 4, 6, 8, 12, 16] if not T else [2, 4, 8, 12, 16, 24, 40])
        seqs.append([rand_op(r, NIDS if not T or r.chance(3, 4) else 5) for _ in range(n)])
    if T:
        # exhaustive small scope: every sequence of length <= 3 over a 13-op alphabet on two ids
        alpha = ["E0:I1:0D", "E0:I2:2R", "E0:D:1D", "E0:D:2R", "E0:F6:1R", "X0:7", "G0", "T0:3", "R0", "O", "E1:I4:1R", "E1:D:0D", "G1", "T1:5", "R1"]
        for n in (1, 2, 3):
            for s in itertools.product(alpha, repeat=n):
                seqs.append(list(s))
    return seqs


def kv(s):
    if s == "-":
        return 0
    if s == "e":
        return 1
    m = re.fullmatch(r"k(\d+)", s)
    return int(m.group(1)) + 10 if m else 999


def canon_token(tok):
    """token -> (canonical observation, listing) matching model/KeyStoreCases.v"""
    body, _, lst = tok.partition("@")
    listing = [int(x) if x.isdigit() else 999 for x in lst.split(",")] if lst else []
    if body in ("V1", "V0"):
        ob = [100, int(body[1])]
    elif body == "Vf":
        ob = [100, 2]
    elif body == "tf":
        ob = [103, 2]
    elif body.startswith("U["):
        m = re.fullmatch(r"U\[(.*)\]:(.*)", body)
        gs = [kv(x) for x in m.group(1).split(",")] if m.group(1) else []
        ob = [101, kv(m.group(2))] + gs
    elif body[0] == "g":
        ob = [102, kv(body[1:])]
    elif body in ("t1", "tx"):
        ob = [103, 1 if body == "t1" else 0]
    elif body[0] == "r" and body != "re" or body == "re":
        ob = [104, kv(body[1:])]
    elif body == "o":
        ob = [105]
    else:
        ob = [199, 9]
    return ob, listing


def spec(ops):
    """The plain map, in Python: expected (observation, listing) per op — the property's own oracle."""
    m = {}
    out = []
    for op in ops:
        c = op[0]
        if c == "E":
            f = op[1:].split(":")
            i, n, rm = int(f[0]), int(f[2][:-1]), f[2].endswith("R")
            if i in m:
                k = m[i]
                ob = [101, k + 10 if rm else 0] + [k + 10] * n
                if rm:
                    del m[i]
            elif f[1] == "D":
                ob = [100, 0]
            elif f[1][0] == "F":
                ob = [100, 2]                      # failed insert: the map is unchanged
            else:
                m[i] = int(f[1][1:])
                ob = [100, 1]
        elif c == "G":
            i = int(op[1:])
            ob = [102, m[i] + 10 if i in m else 0]
        elif c == "T":
            i, k = map(int, op[1:].split(":"))
            if i in m:
                ob = [103, 0]
            else:
                m[i] = k
                ob = [103, 1]
        elif c == "X":
            i = int(op[1:].split(":")[0])
            ob = [103, 0] if i in m else [103, 2]
        elif c == "R":
            i = int(op[1:])
            ob = [104, m.pop(i) + 10 if i in m else 0]
        else:
            ob = [105]
        out.append((ob, sorted(m)))
    return out


def coq_op(op):
    c = op[0]
    if c == "E":
        f = op[1:].split(":")
        v = "(VDrop N)" if f[1] == "D" else ("(VInsertFail N [1; 9])" if f[1][0] == "F" else "(VInsert N %d)" % int(f[1][1:]))
        return "OEntry N %d %s {| gets := %d%%nat; then_remove := %s |}" % (
            int(f[0]), v, int(f[2][:-1]), "true" if f[2].endswith("R") else "false")
    if c == "G":
        return "OGet N %d" % int(op[1:])
    if c == "T":
        i, k = op[1:].split(":")
        return "OTryInsert N %d %d" % (int(i), int(k))
    if c == "X":
        return "OTryInsertFail N %d [1; 9]" % int(op[1:].split(":")[0])
    if c == "R":
        return "ORemove N %d" % int(op[1:])
    return "OReopen N"


def run(ctx):
    cc.regen_mine(ctx)
    vlib.prove(ctx, extra_targets=["model/KeyStoreCases.vo"])
    bins = {}
    for prof in ("dev", "nodebug"):
        bins[prof] = vlib.cargo_build(ctx, "hx-crypto", profile=prof, bin="c45")
        if not bins[prof]:
            return
    seqs = gen_sequences(ctx)
    root = os.path.join(vlib.BUILD, "tmp-c45-%d" % os.getpid())
    results = {}
    try:
        for prof in bins:
            lines = []
            for j, ops in enumerate(seqs):
                for store in ("fs", "mem"):
                    d = "-"
                    if store == "fs":
                        d = os.path.join(root, prof, str(j))
                        os.makedirs(d)
                    lines.append("%s %s %s" % (store, d, " ".join(ops)))
            rc, out, err = vlib.run_bin(bins[prof], input="\n".join(lines) + "\n")
            ol = out.splitlines()
            if rc != 0 or len(ol) != len(lines):
                ctx.oblige("harness:run", False, "rc=%s %d/%d lines\n%s" % (rc, len(ol), len(lines), out[-800:] + err[-1500:]))
                return
            results[prof] = ol
    finally:
        shutil.rmtree(root, ignore_errors=True)
    cases = []   # (prof, store, ops, trace)
    bad = []
    for prof in results:
        k = 0
        for ops in seqs:
            want = spec(ops)
            for store in ("fs", "mem"):
                line = results[prof][k]
                k += 1
                if line.startswith("panic") or line == "badcase":
                    trace = [([198, 8], [])]
                    bad.append((prof, store, ops, 0, "panicked: " + line[:200]))
                else:
                    trace = [canon_token(t) for t in line.split()]
                    for n, (got, exp) in enumerate(zip(trace, want)):
                        if got != exp:
                            bad.append((prof, store, ops, n, "op %d (%s): store observed %s, a map gives %s" % (n, ops[n], got, exp)))
                            break
                    if len(trace) != len(want) and not bad:
                        bad.append((prof, store, ops, 0, "wrong number of results"))
                cases.append((prof, store, ops, trace))
    # model side
    header = "From Aranya Require Import base.Tactics base.Harness model.KeyStore model.KeyStoreCases.\nOpen Scope N_scope.\n"
    mism = []
    for prof, dbg in (("dev", "true"), ("nodebug", "false")):
        items = [c for c in cases if c[0] == prof]

        def render(chunk, dbg=dbg):
            its = ["(%s, %s, %s)" % ("true" if st == "fs" else "false", vlib.coq_list([coq_op(o) for o in ops]),
                                     vlib.coq_list(["(%s, %s)" % (vlib.coq_list(ob), vlib.coq_list(ls)) for (ob, ls) in tr]))
                   for (_, st, ops, tr) in chunk]
            return ("Definition cases : list (bool * list (op N) * list (list N * list N)) := %s.\n"
                    "Eval vm_compute in (mismatches (chk %s) cases).\n" % (vlib.coq_list(its), dbg))
        outs, chunks = vlib.coq_eval_sharded(ctx, "c45_" + prof, header, items, render, shard=500)
        for (rc, o), ch in zip(outs, chunks):
            v = vlib.parse_coq_value(o) if rc == 0 else None
            if v is None:
                ctx.oblige("correspondence:model-eval", False, o[-2000:])
                return
            mism += [ch[j] for j in v]
    nops = sum(len(s) for s in seqs)
    kinds = {}
    for s in seqs:
        for o in s:
            kinds[o[0]] = kinds.get(o[0], 0) + 1
    fail_ins = sum(1 for (p, st, ops, tr) in cases if p == "dev" and st == "fs" for (ob, _) in tr if ob in ([100, 2], [103, 2]))
    rep_get = sum(1 for s in seqs for n, o in enumerate(s) if o[0] == "E" and int(o.split(":")[2][:-1]) >= 2)
    get_rm = sum(1 for s in seqs for o in s if o[0] == "E" and int(o.split(":")[2][:-1]) >= 1 and o.endswith("R"))
    occ = sum(1 for (p, st, ops, tr) in cases if p == "dev" and st == "fs" for (ob, _) in tr if ob[0] == 101)
    occ_multi = sum(1 for (p, st, ops, tr) in cases if p == "dev" and st == "fs" for (ob, _) in tr if ob[0] == 101 and len(ob) >= 4)
    occ_get_rm = sum(1 for (p, st, ops, tr) in cases if p == "dev" and st == "fs" for (ob, _) in tr
                     if ob[0] == 101 and len(ob) >= 3 and ob[1] != 0)
    ctx.coverage.update({
        "traces_validated_against_impl": len(cases),
        "evaluations": 4 * nops,
        "distinct_nontrivial": len({tuple(s) for s in seqs if len(s) >= 2 and any(o[0] == "E" for o in s)}),
        "rule": "case = one operation sequence (entry+insert/drop/FAILING insert (Serialize errors after the first field), entry+n gets+remove/drop, get, try_insert (also with a failing key), remove, reopen) over %d ids run on a "
                "fresh fs store (own temp directory) and a fresh MemStore, in the dev and the debug-assertions-off profile; after every op "
                "the observation and the directory listing (canary excluded) / map domain are compared with the model and with a Python dict; "
                "non-trivial = at least 2 ops including an entry; distinct by op sequence" % NIDS,
        "distribution": {"sequences": len(seqs), "ops": nops, "ops_by_kind": kinds,
                         "entry_ops_asking_for_repeated_get": rep_get, "entry_ops_asking_for_get_then_remove": get_rm,
                         "occupied_entries_observed(fs,dev)": occ, "of_which_with_2+_gets": occ_multi,
                         "of_which_get_then_remove": occ_get_rm,
                         "failed_inserts_observed(fs,dev)": fail_ins,
                         "stores": ["fs_keystore::Store", "memstore::MemStore"], "profiles": ["dev", "nodebug"]},
        "samples": [{"ops": " ".join(ops), "store": st, "profile": p, "trace": tr} for (p, st, ops, tr) in cases[:2] + cases[12:14]],
    })
    ctx.assumptions += ["serialisation round-trips: dec (enc k) = Some k (CBOR of a WrappedKey)",
                        "system calls succeed; no other process touches the directory; the base58 alias of an id is injective (C46)"]
    for (prof, store, ops, n, why) in bad[:3]:
        d = "/verif/build/tmp-c45-replay" if store == "fs" else "-"
        ctx.violation("key store does not behave as a map: " + why,
                      {"profile": prof, "store": store, "ops": " ".join(ops), "first_bad_op": n,
                       "contradicts": "keystore_refines_map (coq/props/C45.v)",
                       "replay_cmd": ("mkdir -p %s && " % d if store == "fs" else "") + "echo '%s %s %s' | %s" % (store, d, " ".join(ops), bins[prof])})
    ctx.oblige("correspondence:model=impl", not mism,
               "model and implementation differ on %d sequences, first: %s" % (len(mism), [(m[0], m[1], " ".join(m[2]), m[3]) for m in mism[:2]]))
    ctx.oblige("oracle:map-on-impl-output", not bad, str([(b[0], b[1], " ".join(b[2]), b[4]) for b in bad[:3]]))
