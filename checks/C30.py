"""C30 — facts and effects change only inside finish blocks."""
import copy
import os
import sys

sys.path.insert(0, os.path.dirname(os.path.abspath(__file__)))
import vlib
import compiler_common as cc
import compiler_gen as cg

ENVELOPE = ('T', 'Envelope', {})


# ------------------------------------------------------------------ misplacement mutants

def collect(node, ctx, out):
    """every statement list of a piece of syntax with the context it is checked in"""
    if isinstance(node, tuple) and node and isinstance(node[0], str):
        k = node[0]
        if k == 'SFinish':
            out.append((node[1], 'finish'))
            for s in node[1]:
                collect(s, 'finish', out)
            return
        if k == 'SIf':
            for c, ss in node[1]:
                collect(c, ctx, out)
                out.append((ss, ctx))
                collect(ss, ctx, out)
            if node[2] is not None:
                out.append((node[2], ctx))
                collect(node[2], ctx, out)
            return
        if k == 'SMatch':
            collect(node[1], ctx, out)
            for p, ss in node[2]:
                out.append((ss, ctx))
                collect(ss, ctx, out)
            return
        if k == 'EBlock':
            out.append((node[1], ctx))
            collect(node[1], ctx, out)
            collect(node[2], ctx, out)
            return
        for c in node[1:]:
            collect(c, ctx, out)
    elif isinstance(node, (list, tuple)):
        for c in node:
            collect(c, ctx, out)


def stmt_lists(pol):
    out = []
    for f in pol['funs']:
        out.append((f['body'], 'fn'))
        collect(f['body'], 'fn', out)
    for f in pol['finfuns']:
        out.append((f['body'], 'finfn'))
        collect(f['body'], 'finfn', out)
    for c in pol['cmds']:
        out.append((c['policy'], 'policy'))
        collect(c['policy'], 'policy', out)
        for rc in c['recalls']:
            out.append((rc['body'], 'recall'))
            collect(rc['body'], 'recall', out)
    return out


def a_write(r, pol):
    ws = [('SCreate', 'F', [('k', ('EInt', 7))], [('v', ('EInt', 1)), ('b', ('EBool', True))]),
          ('SDelete', 'F', [('k', ('EInt', 1))]),
          ('SUpdate', 'F', [('k', ('EInt', 2))], None, [('v', ('EInt', 5)), ('b', ('EBool', False))]),
          ('SEmit', ('EStruct', 'Eff', [('a', ('EInt', 1)), ('b', ('EBool', True))])),
          ('SCreate', 'H', [('k', ('EInt', 9))], [('v', ('EInt', 1))])]
    for f in pol['finfuns']:
        if not f['params']:
            ws.append(('SCall', f['name'], []))
    return r.choice(ws)


NOT_FINISH_STMTS = [('SLet', 'zz', ('EInt', 1)),
                    ('SCheck', ('EBool', True), ('ETodo',)),
                    ('SCheck', ('EBool', False), ('ETodo',)),
                    ('SIf', [(('EBool', True), [])], None),
                    ('SMatch', ('EBool', True), [(('PVals', [('PLit', ('LBool', True))]), []), (('PDefault',), [])]),
                    ('SReturn', ('EInt', 1)),
                    ('SDebugAssert', ('EBool', False)),
                    ('SFinish', [])]
NOT_WHITELISTED = [('EIf', ('EBool', True), ('EBlock', [], ('EInt', 1)), ('EBlock', [], ('EInt', 2))),
                   ('ECoalesce', ('EWrap', 'W_Some', ('EInt', 1)), ('EInt', 2)),
                   ('EMatch', ('EBool', True), [(('PVals', [('PLit', ('LBool', True))]), ('EInt', 1)), (('PDefault',), ('EInt', 2))]),
                   ('EBlock', [], ('EInt', 1)),
                   ('EBlock', [('SCheck', ('EBool', False), ('ETodo',))], ('EInt', 1))]

ZZ_FUNS = [{'name': 'zz_f', 'params': [('n', cc.T_INT)], 'ret': cc.T_INT,
            'body': [('SCheck', ('EBin', 'BNe', ('EVar', 'n'), ('EInt', 1)), ('ETodo',)), ('SReturn', ('EVar', 'n'))]},
           {'name': 'zz_mk', 'params': [('n', cc.T_INT)], 'ret': ('struct', 'S0'),
            'body': [('SReturn', ('EStruct', 'S0', [('a', ('EVar', 'n')), ('b', ('EBool', True))]))]}]


def forbidden_int(r):
    """an int expression that is not finish code: it can fail a check, panic, or is a call / control flow"""
    return r.choice([('ECall', 'zz_f', [('EInt', 1)]),
                     ('ECall', 'saturating_add', [('EInt', 1), ('EInt', 2)]),
                     ('EBlock', [('SCheck', ('EBool', False), ('ETodo',))], ('EInt', 1)),
                     ('EBlock', [], ('EInt', 1)),
                     ('EIf', ('EBool', True), ('EBlock', [], ('EInt', 1)), ('EBlock', [], ('EInt', 2))),
                     ('EMatch', ('EBool', True), [(('PVals', [('PLit', ('LBool', True))]), ('EInt', 1)), (('PDefault',), ('EInt', 2))]),
                     ('ECoalesce', ('EWrap', 'W_Some', ('EInt', 1)), ('EInt', 2)),
                     ('ETodo',)])


def nested_forbidden(r, opt_slot):
    """a forbidden expression at nesting depth 1-3 under whitelisted constructors: struct literal field, Some(..), field access"""
    e = forbidden_int(r)
    depth = r.choice([0, 1, 1, 2]) if opt_slot else r.choice([1, 1, 2, 3])
    for _ in range(depth):
        c = r.below(3)
        if c < 2:      # (S0 { a: e, b: true }).a - inside a named struct literal, under a dot
            e = ('EDot', ('EStruct', 'S0', [('a', e), ('b', ('EBool', True))]), 'a')
        else:          # f(e).a - the left of a dot is a call
            e = ('EDot', ('ECall', 'zz_mk', [e]), 'a')
    return ('EWrap', 'W_Some', e) if opt_slot else e


def nest_in_finish(r, pol, lists):
    """put a nested forbidden expression into an operand of a finish statement; True when done"""
    inside = [l for (l, cx) in lists if cx in ('finish', 'finfn')]
    cands = []
    for l in inside:
        for i, st in enumerate(l):
            k = st[0]
            if k in ('SCreate', 'SDelete', 'SUpdate'):
                cands += [(l, i, 'key', j) for j in range(len(st[2]))]
                if k == 'SCreate':
                    cands += [(l, i, 'val', j) for j, (f, _) in enumerate(st[3]) if f == 'v']
                if k == 'SUpdate':
                    cands += [(l, i, 'to', j) for j, (f, _) in enumerate(st[4]) if f == 'v']
            elif k == 'SEmit' and st[1][0] == 'EStruct':
                cands += [(l, i, 'emit', j) for j, (f, _) in enumerate(st[1][2]) if f in ('a', 'o')]
            elif k == 'SCall':
                f = [x for x in pol['finfuns'] if x['name'] == st[1]]
                if f:
                    cands += [(l, i, 'arg', j) for j, (_, pt) in enumerate(f[0]['params']) if pt == cc.T_INT]
    if not cands:
        return False
    l, i, where, j = r.choice(cands)
    st = l[i]
    def put(fields, opt_slot=False):
        fields = list(fields)
        fields[j] = (fields[j][0], nested_forbidden(r, opt_slot))
        return fields
    if where == 'key':
        l[i] = st[:2] + (put(st[2]),) + st[3:]
    elif where == 'val':
        l[i] = st[:3] + (put(st[3]),)
    elif where == 'to':
        l[i] = st[:4] + (put(st[4]),)
    elif where == 'emit':
        fs = st[1][2]
        l[i] = ('SEmit', ('EStruct', st[1][1], put(fs, opt_slot=(fs[j][0] == 'o'))))
    else:
        args = list(st[2])
        args[j] = nested_forbidden(r, False)
        l[i] = ('SCall', st[1], args)
    pol['funs'] = list(pol['funs']) + [f for f in ZZ_FUNS if f['name'] not in [x['name'] for x in pol['funs']]]
    return True


# kinds every one of which the compiler has to reject
MUST_REJECT = ('write-outside-finish', 'write-in-branch-outside-finish', 'not-a-finish-statement-in-finish',
               'not-whitelisted-expression-in-finish', 'finish-in-function', 'nested-forbidden-expression-in-finish')


def misplace(r, pol):
    """a copy of the policy with one statement or expression put where the context table forbids it"""
    pol = copy.deepcopy(pol)
    lists = stmt_lists(pol)
    for _ in range(30):
        c = r.below(11)
        if c >= 7:
            if nest_in_finish(r, pol, lists):
                return pol, 'nested-forbidden-expression-in-finish'
            continue
        outside = [l for (l, cx) in lists if cx in ('policy', 'recall', 'fn')]
        inside = [l for (l, cx) in lists if cx in ('finish', 'finfn')]
        if c == 0 and outside:
            l = r.choice(outside)
            l.insert(r.below(len(l) + 1), a_write(r, pol))
            return pol, 'write-outside-finish'
        if c == 1 and outside:
            l = r.choice(outside)
            l.insert(r.below(len(l) + 1), ('SIf', [(('EBool', True), [a_write(r, pol)])], None))
            return pol, 'write-in-branch-outside-finish'
        if c == 2 and inside:
            l = r.choice(inside)
            l.insert(r.below(len(l) + 1), r.choice(NOT_FINISH_STMTS))
            return pol, 'not-a-finish-statement-in-finish'
        if c == 3 and inside:
            l = r.choice(inside)
            idx = [i for i, s in enumerate(l) if s[0] in ('SCreate', 'SDelete', 'SUpdate')]
            if idx:
                i = r.choice(idx)
                s = l[i]
                l[i] = s[:2] + ([('k', r.choice(NOT_WHITELISTED))],) + s[3:]
                return pol, 'not-whitelisted-expression-in-finish'
        if c == 4:
            ls = [l for (l, cx) in lists if cx in ('fn', 'finfn')]
            if ls:
                l = r.choice(ls)
                l.insert(r.below(len(l) + 1), ('SFinish', [a_write(r, pol)] if r.chance(1, 2) else []))
                return pol, 'finish-in-function'
        if c == 5:
            ls = [l for (l, cx) in lists if cx in ('policy', 'recall') and any(s[0] == 'SFinish' for s in l)]
            if ls:
                l = r.choice(ls)
                i = [j for j, s in enumerate(l) if s[0] == 'SFinish'][0]
                l.insert(i + 1, r.choice([('SLet', 'after_finish', ('EInt', 1)), a_write(r, pol), ('SFinish', [])]))
                return pol, 'statement-after-finish'
        if c == 6 and inside:
            l = r.choice(inside)
            l.insert(r.below(len(l) + 1), ('SRecall', 'r0', []))
            return pol, 'recall-in-finish'
    return pol, 'none'


# ------------------------------------------------------------------ oracle on one real run

def writes_of(log):
    return [e for e in log if e.startswith('ins:') or e.startswith('del:') or e.startswith('eff:')]


def run_oracle(pol, ex, log):
    """None, or what is wrong with the I/O log of a command-policy run that ended with `ex`"""
    ws = writes_of(log)
    effs = [e for e in ws if e.startswith('eff:')]
    has_recall = any(c['recalls'] for c in pol['cmds'])
    if ex == 'panic' and ws:
        return "the run ended with Exit(Panic) after writing: %s" % ws
    if ex == 'check':
        if not has_recall and ws:
            return "the run ended with Exit(Check) in a command without recall blocks after writing: %s" % ws
        if any(not e.endswith(':1') for e in effs):
            return "the run ended with Exit(Check) and emitted an effect not marked as recalled: %s" % effs
    if ex == 'normal' and any(not e.endswith(':0') for e in effs):
        return "the run ended normally and emitted an effect marked as recalled: %s" % effs
    return None


def run(ctx):
    vlib.regen(ctx)
    vlib.prove(ctx)
    binp = vlib.cargo_build(ctx, "hx-compiler", bin="c30")
    if not binp:
        return
    thorough = ctx.thorough
    n_pol = 500 if thorough else 36
    runs_per = 6 if thorough else 3
    depth = 4 if thorough else 3

    gens = []
    while len(gens) < n_pol:
        g = cg.CmdGen(ctx.rng.fork(), depth)
        pol = g.command_policy()
        if len(cc.policy_text(pol)) > 7000:
            continue
        gens.append((g, pol))

    # ---------------- L1: acceptance and code, unmutated policies and misplacement mutants
    l1_cases = []
    for i, (g, pol) in enumerate(gens):
        l1_cases.append((pol, 'unmutated'))
        m, kind = misplace(ctx.rng, pol)
        if kind != 'none':
            l1_cases.append((m, kind))
        if i % 3 == 0:
            m, kind = cg.mutate(ctx.rng, pol)
            if kind != 'none':
                l1_cases.append((m, 'other:' + kind))
    res, err = cc.run_harness(vlib, binp, [cc.compile_line(p) for (p, k) in l1_cases])
    if res is None:
        ctx.oblige("harness:run:l1", False, err)
        return
    kinds, accepted_misplaced, usable, bad_lines = {}, [], [], []
    for (p, k), l in zip(l1_cases, res):
        ok = l.startswith("ok ")
        if not (ok or l.startswith("err ")):
            bad_lines.append(l[:200])
            continue
        usable.append((p, l))
        d = kinds.setdefault(k, {})
        key = "accepted" if ok else l[4:]
        d[key] = d.get(key, 0) + 1
        if ok and k in MUST_REJECT:
            accepted_misplaced.append((p, k))
    for (p, k) in accepted_misplaced[:3]:
        ctx.violation("the compiler accepted a policy with a misplaced statement (%s): fact writes and effects are no longer confined to finish blocks" % k,
                      {"policy": cc.policy_text(p), "mutation": k,
                       "contradicts": "writes_only_in_finish_partial (coq/props/C30.v): acceptance is Typing.v's statement-context table",
                       "replay_cmd": "echo '%s' | build/target/debug/c30" % cc.compile_line(p)})
    ctx.oblige("oracle:L1:misplaced-statements-rejected", not accepted_misplaced, "%d accepted" % len(accepted_misplaced))
    ctx.log("L1: %d programs compiled by the harness" % len(usable))
    mism, cerr = cc.coq_mismatches(vlib, ctx, "c30_l1", cc.COQ_HEADER, usable, cc.l1_render, shard=30)
    if mism is None:
        ctx.oblige("correspondence:L1:model-eval", False, cerr)
        return
    ctx.oblige("correspondence:L1:compile-output-and-acceptance", not mism and len(bad_lines) <= len(res) // 20,
               "model and compiler differ on %d case(s), first: %s -> %s; unusable harness lines: %s" % (
                   len(mism), cc.policy_text(usable[mism[0]][0])[:2000] if mism else "", usable[mism[0]][1][:300] if mism else "", bad_lines[:3]))

    # ---------------- L3: real runs with the logging MachineIO, failing at random points
    l3_cases = []
    for (g, pol) in gens:
        for _ in range(runs_per):
            l3_cases.append((pol, g.this_value(), ctx.rng.choice([0, 0, 0, 1, 2, 3, 4, 6]), g.initial_facts()))
    res3, err = cc.run_harness(vlib, binp, [cc.run_line(p, "policy", "C", fa, [this, ENVELOPE], facts) for (p, this, fa, facts) in l3_cases])
    if res3 is None:
        ctx.oblige("harness:run:l3", False, err)
        return
    runs, exits, bad, writes_by_exit = [], {}, [], {}
    for (p, this, fa, facts), l in zip(l3_cases, res3):
        if l == "panic" or l.startswith("parse-err") or l.startswith("compile-err"):
            exits[l.split("|")[0][:40]] = exits.get(l.split("|")[0][:40], 0) + 1
            continue
        ex, top, depth_, log = cc.run_result(l)
        exits[ex] = exits.get(ex, 0) + 1
        if writes_of(log):
            writes_by_exit[ex] = writes_by_exit.get(ex, 0) + 1
        why = run_oracle(p, ex, log)
        if why:
            bad.append((p, this, fa, facts, l, why))
        runs.append((p, this, fa, facts, (ex, top, log)))
    for (p, this, fa, facts, l, why) in bad[:3]:
        ctx.violation("facts or effects changed outside a completed finish block: " + why,
                      {"policy": cc.policy_text(p), "this": cc.val_text(this), "fail_at": fa,
                       "initial_facts": [str(f) for f in facts], "impl": l,
                       "contradicts": "lang_writes_only_in_finish (coq/props/C30.v, the reference semantics these runs are compared with) and writes_only_in_finish_full_stmt (coq/proofs/FinishOnly.v)",
                       "replay_cmd": "echo '%s' | build/target/debug/c30" % cc.run_line(p, "policy", "C", fa, [this, ENVELOPE], facts)})
    ctx.oblige("oracle:L3:no-writes-before-check-or-panic", not bad, "%d runs" % len(bad))
    ctx.log("L3: %d runs by the harness" % len(runs))
    mism3, cerr = cc.coq_mismatches(vlib, ctx, "c30_l3", cc.COQ_HEADER, runs, cc.l3_policy_render, shard=40)
    if mism3 is None:
        ctx.oblige("correspondence:L3:model-eval", False, cerr)
        return
    for i in mism3[:2]:
        p, this, fa, facts, (ex, top, log) = runs[i]
        ctx.violation("a command policy run of the real compiler+VM differs from the reference semantics (exit reason or I/O log)",
                      {"policy": cc.policy_text(p), "this": cc.val_text(this), "fail_at": fa, "initial_facts": [str(f) for f in facts],
                       "impl": {"exit": ex, "io_log": log}, "contradicts": "Lang.run_policy (reference semantics, coq/model/Lang.v)",
                       "replay_cmd": "echo '%s' | build/target/debug/c30" % cc.run_line(p, "policy", "C", fa, [this, ENVELOPE], facts)})
    ctx.oblige("correspondence:L3:impl-run=reference-semantics", not mism3, "%d disagreeing runs" % len(mism3))

    ctx.log("L3: model evaluation done")
    cons = {}
    for (g, pol) in gens:
        cc.constructs([pol['cmds'], pol['finfuns']], cons)
    ctx.coverage.update({
        "traces_validated_against_impl": len(usable) + len(runs),
        "evaluations": len(usable) + len(runs),
        "distinct_nontrivial": len({(cc.policy_text(p), cc.val_text(t), fa, str(f)) for (p, t, fa, f, r) in runs if writes_of(r[2]) or r[0] in ('check', 'panic')})
                               + len({cc.policy_text(p) for (p, l) in usable}),
        "rule": "L1 case = a command policy (unmutated, or with one statement/expression put where the statement-context table forbids it, or one generic mutation); L3 case = (policy, command fields, initial facts, I/O failure point); a run is non-trivial if it wrote something or ended in check/panic; distinct by policy text and inputs",
        "distribution": {"l1_by_mutation_and_outcome": kinds, "l1_unusable_harness_lines": len(bad_lines),
                         "l3_runs": len(runs), "l3_exit_reasons": exits, "l3_runs_with_writes_by_exit": writes_by_exit,
                         "constructs_in_command_policies": cons, "nesting_depth": depth},
        "samples": [{"policy": cc.policy_text(p)[-700:], "this": cc.val_text(t), "fail_at": fa, "impl": {"exit": r[0], "log": r[2]}}
                    for (p, t, fa, f, r) in runs[:3]],
    })
    ctx.assumptions += [
        "the run-level theorem is about the reference semantics Lang.v (which leg L3 compares every real run with), the code-level theorem about the placement of write instructions; the same statement over Vm.run on the compiled code is not proved",
        "the code in the theorem is the layout of model/CompileDirect.v; L1 checks on every generated policy that it equals the real compiler's output",
    ]
