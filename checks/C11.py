"""C11 — command lookup and ancestry queries are exact."""
import collections
import os
import sys

sys.path.insert(0, os.path.dirname(os.path.abspath(__file__)))
import _ql_lib as ql
import vlib


def gen_case(ctx, r, kind, total, backend, dup_ids=False):
    g = ql.gen_graph(r, total, kind)
    if dup_ids:
        # malformed stream: a branch whose commands reuse the ids of commands at the same max cut
        base = r.below(g.n())
        cnt = r.choice([1, 2, 4])
        ids = []
        for k in range(cnt):
            mc = g.mc[base] + 1 + k
            same = [o for o in range(g.n()) if g.mc[o] == mc]
            ids.append(g.idnum[r.choice(same)] if same else None)
        tip = g.linear(base, cnt, ids)
        others = [t for t in g.tips() if t != tip]
        if others and r.chance(2, 3):
            g.merge(tip, r.choice(others), 1)
    hs = ql.choose_heads(r, g)
    ops = list(g.ops) + ["H:" + ",".join(map(str, hs))]
    if r.chance(1, 2):
        # a commit whose backend write fails (injected I/O error) must change nothing: first commit a
        # head set that leaves part of the graph uncommitted, then try to commit every tip and fail
        tips = sorted(set(g.tips()))
        if hs == tips:
            hs = sorted(set([r.choice(tips)] if len(tips) > 1 else [r.below(g.n())]))
            ops[-1] = "H:" + ",".join(map(str, hs))
        ops.append("Hf:" + ",".join(map(str, tips)))
    queries = [("*g",)]
    n = g.n()
    ys = sorted(set(hs[:2] + [r.below(n) for _ in range(3)])) if n < 1000 else sorted(set(hs[:1] + [r.below(n)]))
    for y in ys:
        queries.append(("*a", y))
    for _ in range(25):
        queries.append(("f", r.below(n), r.below(n)))
    for _ in range(12):
        x = r.below(n)
        queries.append(("G", g.idnum[x], max(0, g.mc[x] + r.choice([-1, 1, 1, 2, 7]))))   # stale / wrong max cut
        queries.append(("G", n + 5 + r.below(50), r.below(g.mc[x] + 2)))                  # unknown id
        queries.append(("F", r.below(n), g.idnum[x], max(0, g.mc[x] + r.choice([-1, 0, 1]))))
        queries.append(("B", r.below(g.nseg), r.below(max(g.mc) + 3), r.below(n)))         # arbitrary location
        queries.append(("a", x, x))
    line = backend + " " + " ".join(ops) + " " + " ".join(":".join(map(str, q)) for q in queries)
    return g, hs, queries, line


def expand(g, hs, queries, parsed):
    """-> list of (kind, args, impl answer, oracle verdict or None)"""
    cmd = parsed["cmd"]
    segidx = [s[0] for s in parsed["segs"]]
    n = g.n()
    headmask = 0
    for h in hs:
        headmask |= g.anc[h]
    out = []

    def lookup_oracle(mask, idn, mc, ans):
        T = [c for c in range(n) if g.idnum[c] == idn and g.mc[c] == mc and (mask >> c) & 1]
        if ans is None:
            return None if not T else "command id %d@%d is reachable (command #%d) but lookup returned None" % (idn, mc, T[0])
        if not T:
            return "lookup returned %r for id %d@%d which is not in the searched graph" % (ans, idn, mc)
        if ans not in [cmd[c] for c in T]:
            return "lookup returned %r which does not hold id %d@%d reachable from the start" % (ans, idn, mc)
        return None

    for q, a in zip(queries, parsed["q"]):
        k = q[0]
        if k == "*g":
            for x, s in enumerate(a.split(",")):
                ans = None if s == "E" else ql.ploc(s)
                why = "error result" if s == "E" else lookup_oracle(headmask, g.idnum[x], g.mc[x], ans)
                out.append(("get", (g.idnum[x], g.mc[x]), ans, why))
        elif k == "*a":
            y = q[1]
            for x, ch in enumerate(a):
                truth = x != y and g.is_anc_eq(x, y)
                why = None
                if ch == "E":
                    why = "error result"
                elif (ch == "1") != truth:
                    why = "is_ancestor(#%d, #%d) = %s but the truth is %s" % (x, y, ch, truth)
                out.append(("anc", (cmd[x], cmd[y]), ch == "1", why))
        elif k in ("G", "F", "f"):
            if k == "G":
                mask, idn, mc, start = headmask, q[1], q[2], None
            elif k == "F":
                mask, idn, mc, start = g.anc[q[1]], q[2], q[3], cmd[q[1]]
            else:
                mask, idn, mc, start = g.anc[q[1]], g.idnum[q[2]], g.mc[q[2]], cmd[q[1]]
            ans = None if a == "E" else ql.ploc(a)
            why = "error result" if a == "E" else lookup_oracle(mask, idn, mc, ans)
            out.append(("get" if start is None else "from", (idn, mc) if start is None else (start, idn, mc), ans, why))
        elif k in ("a", "B"):
            if k == "a":
                t, y = cmd[q[1]], q[2]
            else:
                t, y = (q[2], segidx[q[1]]), q[3]
            holders = [c for c in range(n) if cmd[c] == t]
            truth = any(c != y and g.is_anc_eq(c, y) for c in holders)
            why = None
            if a == "E":
                why = "error result"
            elif (a == "1") != truth:
                why = "is_ancestor(%r, #%d) = %s but the truth is %s" % (t, y, a, truth)
            out.append(("anc", (t, cmd[y]), a == "1", why))
    return out


def cquery(e):
    kind, args, ans, _ = e
    if kind == "get":
        return "QGet %d %d %s" % (args[0], args[1], ql.coloc(ans))
    if kind == "from":
        return "QFrom %s %d %d %s" % (ql.cloc(args[0]), args[1], args[2], ql.coloc(ans))
    return "QAnc %s %s %s" % (ql.cloc(args[0]), ql.cloc(args[1]), "true" if ans else "false")


def render(chunk):
    """one case per file chunk element: (segs, heads, queries)"""
    items = []
    for (segs, hds, qs) in chunk:
        items.append("(%s, %s, %s)" % (ql.cstore_lca(segs), ql.cheads(hds), vlib.coq_list(qs, cquery)))
    return ("Definition cases : list (list (N * segment * option loc) * heads * list query) := %s.\n"
            "(* per case: (skip lists rebuilt by the model?, indices of the queries the model answers differently) *)\n"
            "Definition chk (c : list (N * segment * option loc) * heads * list query) : bool * list N :=\n"
            "  let '(sl, hs, qs) := c in let st := map fst sl in\n"
            "  (build_ok [] sl, mismatches (chk_query st hs) qs).\n"
            "Eval vm_compute in (map chk cases).\n" % vlib.coq_list(items))


def run(ctx):
    ql.regen_mine(ctx)
    vlib.prove(ctx)
    binp = vlib.cargo_build(ctx, "hx-queue-lookup", bin="c11")
    if not binp:
        return
    r = ctx.rng
    plan = []
    if ctx.thorough:
        plan += [("chain", 5000, "mem", False), ("chain", 2000, "libc", False), ("fixedlen", 1000, "mem", False)]
        plan += [(r.choice(["chain", "fixedlen"]), r.range(20, 600), r.choice(["mem", "libc"]), False) for _ in range(30)]
        plan += [(r.choice(["branchy", "branchy-long"]), r.range(10, 350), r.choice(["mem", "mem", "libc"]), False) for _ in range(130)]
        plan += [("branchy", r.range(8, 120), r.choice(["mem", "libc"]), True) for _ in range(40)]
    else:
        plan += [("chain", 320, "mem", False), ("chain", 200, "libc", False)]
        plan += [(r.choice(["chain", "fixedlen"]), r.range(20, 250), r.choice(["mem", "libc"]), False) for _ in range(8)]
        plan += [(r.choice(["branchy", "branchy-long"]), r.range(10, 140), r.choice(["mem", "mem", "libc"]), False) for _ in range(28)]
        plan += [("branchy", r.range(8, 60), r.choice(["mem", "libc"]), True) for _ in range(8)]
    gens = [gen_case(ctx, r, k, t, b, d) for (k, t, b, d) in plan]
    rc, out, err = vlib.run_bin(binp, input="".join(g[3] + "\n" for g in gens), timeout=3000)
    lines = out.splitlines()
    if rc != 0 or len(lines) != len(gens):
        ctx.oblige("harness:run", False, out[-1000:] + err[-2000:])
        return
    cases, fails = [], []
    stats = collections.Counter()
    nontrivial = 0
    nq = 0
    for (g, hs, queries, line), (kind, total, backend, dup), res in zip(gens, plan, lines):
        parsed = ql.parse_case(res)
        if parsed is None:
            fails.append(("the storage API panicked/failed while building or querying: " + res[:200], line, None))
            continue
        if sorted(h[0] for h in parsed["heads"]) != sorted(g.idnum[h] for h in hs):
            fails.append(("get_heads() = %r differs from the last head set whose commit succeeded %r"
                          % (parsed["heads"], [g.idnum[h] for h in hs]), line, None))
        stats["failed_commit_cases"] += 1 if " Hf:" in line else 0
        ex = expand(g, hs, queries, parsed)
        nq += len(ex)
        for e in ex:
            if e[3]:
                fails.append((e[3], line, e))
        stats["graphs_" + kind] += 1
        stats["backend_" + backend] += 1
        stats["commands"] += g.n()
        stats["segments"] += len(parsed["segs"])
        stats["merge_segments"] += sum(1 for s in parsed["segs"] if s[1][0] == "m")
        stats["segments_with_skip_list"] += sum(1 for s in parsed["segs"] if s[4])
        stats["rich_skip_lists(len>1)"] += sum(1 for s in parsed["segs"] if len(s[4]) > 1)
        stats["dup_id_graphs"] += 1 if dup else 0
        found = sum(1 for e in ex if e[0] != "anc" and e[2] is not None)
        notfound = sum(1 for e in ex if e[0] != "anc" and e[2] is None)
        stats["lookups_found"] += found
        stats["lookups_not_found"] += notfound
        stats["ancestor_true"] += sum(1 for e in ex if e[0] == "anc" and e[2])
        stats["ancestor_false"] += sum(1 for e in ex if e[0] == "anc" and not e[2])
        if any(s[4] for s in parsed["segs"]) and found and notfound:
            nontrivial += 1
        cases.append((parsed["segs"], parsed["heads"], ex))
    ctx.log("%d graphs, %d commands, %d queries" % (len(cases), stats["commands"], nq))
    # ---- model side: same stores, same queries; skip lists rebuilt by the model's build_skip_list
    order = sorted(range(len(cases)), key=lambda i: -len(cases[i][2]))
    res = ql.shard_eval(ctx, "c11", ql.CHECK_HEADER, [cases[i] for i in order], render, shard=1 if ctx.thorough else 2)
    if res is None:
        return
    vals, chunks = res
    flat = [v for vs in vals for v in vs]
    build_bad, q_bad = [], []
    for i, v in zip(order, flat):
        okb, mism = v[0], v[1]
        if okb is not True:
            build_bad.append(i)
        for j in mism:
            q_bad.append((i, j))
    ctx.coverage.update({
        "traces_validated_against_impl": len(cases),
        "evaluations": nq,
        "distinct_nontrivial": nontrivial,
        "rule": "case = one graph built through the real storage API (LinearStorageProvider over the memory Manager or the libc "
                "FileManager), segment lengths drawn around 1,9,10,11,19..21,31..33,63..65, then get_location for EVERY command "
                "from the committed heads (in about half the cases after a further commit_heads of ALL tips whose backend Write::commit fails with an injected I/O error: it must return Err and change neither get_heads nor any answer), is_ancestor(X,Y) for every X against several Y, random get_location_from, and a malformed "
                "stream (stale/wrong max cuts, unknown ids, arbitrary locations, graphs with duplicated ids); non-trivial = the store "
                "has a non-empty skip list and the answers contain both found and not-found lookups; every answer is compared with "
                "true reachability in the generator's DAG (oracle) and with the Coq model on the dumped store; every segment's skip "
                "list is recomputed by the model's build_skip_list",
        "distribution": dict(stats),
        "samples": [{"script": gens[i][3][:300], "impl": lines[i][:300]} for i in range(min(2, len(gens)))],
    })
    ctx.assumptions += ["the harness computes a merge's last common ancestor with the same backward walk as braiding::lca_pair "
                        "(that function is private); the theorem's hypothesis on it (funnel) is what write_preserves needs",
                        "postcard/serde round-trip of SegmentRepr and the IoManager backends are exercised, not modelled"]
    seen = set()
    for (why, line, e) in fails:
        key = why.split(" ")[0:3]
        if len(seen) >= 3 or tuple(key) in seen:
            continue
        seen.add(tuple(key))
        ctx.violation("lookup/ancestry answer contradicts true reachability: " + why,
                      {"script": line, "query": repr(e), "contradicts": "get_location_exact / is_ancestor_exact (coq/props/C11.v)",
                       "replay_cmd": "echo '<script>' | build/target/debug/c11"})
    ctx.oblige("oracle:answers=true-reachability", not fails, str([f[0] for f in fails[:3]]))
    ctx.oblige("correspondence:model=impl:queries", not q_bad,
               "model and implementation differ on (case, query) %s; first script: %s; query %r" % (
                   q_bad[:5], gens[q_bad[0][0]][3][:400] if q_bad else None,
                   cases[q_bad[0][0]][2][q_bad[0][1]][:3] if q_bad else None))
    ctx.oblige("correspondence:model=impl:build_skip_list", not build_bad,
               "the model's build_skip_list differs from the stored skip lists in cases %s; first script: %s" % (
                   build_bad[:5], gens[build_bad[0]][3][:400] if build_bad else None))
