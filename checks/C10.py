"""C10 — a graph is bound to its init command."""
import os
import sys
import vlib
sys.path.insert(0, os.path.dirname(os.path.abspath(__file__)))
import _txn_common as T  # noqa: E402


def first_shapes(r, d):
    """Ops that try every first-command shape on the missing graph, then create it, then replay init-like
    commands at random batch positions."""
    gid = T.gid_of(d)
    ch = [i for i in d.order if d.cmds[i].par == (gid,)]
    foreign = max(d.order) + 1000 + r.below(1000)
    nopol = foreign + 1
    rej = foreign + 2
    d.add(T.Cmd(foreign, "i", (), 1, ()))
    d.add(T.Cmd(nopol, "i", (), 0, ()))
    d.add(T.Cmd(rej, "i", (), 1, (("E", 3), ("W", 1, 1))))
    ops = [("open", 0), ("add", 0, []), ("commit", 0), ("open", 0)]
    if ch:
        ops.append(("add", 0, [ch[0], gid]))           # parented first command
    ops.append(("add", 0, [foreign, gid]))              # parentless with another id
    ops.append(("add", 0, [nopol]))
    ops.append(("flush", 0))
    ops.append(("action", False, None, []))
    return ops, (foreign, nopol, rej)


def oracle(case, outs, probes):
    """Decides the expected class of every single-command probe from the property itself."""
    name, backend, gid, d, ops = case
    bad = []
    prev = None
    for j, (op, o) in enumerate(zip(ops, outs)):
        missing_before = prev is None or prev["heads"] is None
        if op[0] == "add" and o["res"] != "invalid":
            ids = op[2]
            if missing_before:
                if not ids:
                    exp = "err:InitError"
                else:
                    c = d.cmds[ids[0]]
                    if c.id != gid or c.par or not c.pol:
                        exp = "err:InitError"
                    elif T.sure_fail(c.prog):
                        exp = "err:Policy"
                    else:
                        exp = None
                        if o["heads"] is None:
                            bad.append((j, "well-formed init command did not create the graph: %s" % o["res"]))
                        elif [i for i, ps in o["graph"].items() if not ps] != [gid]:
                            bad.append((j, "graph created but its root is not the init command"))
                if exp:
                    if not o["res"].startswith(exp):
                        bad.append((j, "first command %s on a missing graph: expected %s, got %s" % (ids[:1], exp, o["res"])))
                    if o["heads"] is not None:
                        bad.append((j, "a graph was created by a malformed first command"))
                    if exp == "err:InitError" and o["sink"]:
                        bad.append((j, "effects emitted by a refused init command"))
            elif len(ids) == 1 and not d.cmds[ids[0]].par:
                x = ids[0]
                if x == gid:
                    if o["res"] != "ok:0" or T.state_key(o) != T.state_key(prev):
                        bad.append((j, "re-receiving the graph's own init command is not a no-op: %s" % o["res"]))
                else:
                    if o["res"] != "err:InitError" or T.state_key(o) != T.state_key(prev):
                        bad.append((j, "foreign parentless command %d not refused: %s" % (x, o["res"])))
        if op[0] == "newgraph":
            pubs = [c[0] for c in op[2]]
            main, _, ex = o["res"].partition(";")
            exd = {int(x.split(":")[0]): x.split(":")[1] == "1" for x in ex.split("+") if x}
            if main.startswith("ok:"):
                if not pubs or main != "ok:%d" % pubs[0]:
                    bad.append((j, "new_graph returned %s, the init command is %s" % (main, pubs[:1])))
                if pubs and not exd.get(pubs[0]):
                    bad.append((j, "no graph under the id of the init command %d after new_graph" % pubs[0]))
                for p in pubs[1:]:
                    if exd.get(p) and p != gid:
                        bad.append((j, "a graph exists under the id of the non-init command %d" % p))
                if pubs and pubs[0] == gid and missing_before:
                    if o["heads"] != [pubs[-1]] or o["graph"] is None or [i for i, ps in o["graph"].items() if not ps] != [gid]:
                        bad.append((j, "graph created by new_graph: heads %s, expected [%d], root must be %d" % (o["heads"], pubs[-1], gid)))
            else:
                for p in pubs:
                    if exd.get(p) and (p != gid or missing_before):
                        bad.append((j, "failed new_graph (%s) left a graph under id %d" % (main, p)))
                if prev is not None and T.state_key(o) != T.state_key(prev):
                    bad.append((j, "failed new_graph changed the state of the existing graph"))
        if o["graph"] is not None and [i for i, ps in o["graph"].items() if not ps] != [gid]:
            bad.append((j, "committed graph has a root other than the init command"))
        prev = o
    return bad


def run(ctx):
    vlib.prove(ctx)
    r = ctx.rng
    cases = []
    for (nm, d, ops) in T.fixed_scenarios():
        for be in ("mem", "libc"):
            cases.append(("%s-%s" % (nm, be), be, T.gid_of(d), d, ops))
    n = 160 if ctx.thorough else 24
    for i in range(n):
        d = T.gen_dag(r, r.range(5, 40 if ctx.thorough else 16), reject_w=6)
        gid = T.gid_of(d)
        pre, (foreign, nopol, rej) = first_shapes(r, d)
        variant = r.below(4)
        if variant == 0:       # rejected init under the right id is impossible (one init per id): use a separate graph id
            pass
        hist = T.gen_history(r, d, ntx=r.choice([1, 2]), p_action=3, target=set(d.order) - {foreign, nopol, rej})
        # sprinkle single-command probes: own init / foreign parentless / policy-less parentless
        out = []
        for op in hist:
            out.append(op)
            if op[0] == "add" and r.below(100) < 35:
                out.append(("add", op[1], [r.choice([gid, gid, foreign, nopol, rej])]))
            if op[0] == "add" and r.below(100) < 15:
                k = r.below(len(op[2]) + 1)
                out.append(("add", op[1], op[2][:k] + [r.choice([gid, foreign])] + op[2][k:]))
        ops = pre + [o for o in out if o != ("open", 0) or True]
        cases.append(("s%d" % i, "libc" if i % 3 == 0 else "mem", gid, d, ops))
    # graphs whose init command is rejected / has no policy under the RIGHT id
    for i in range(30 if ctx.thorough else 6):
        d = T.Dag()
        g = 500 + i
        kind = i % 3
        d.add(T.Cmd(g, "i", (), 0 if kind == 0 else 1, (("E", 9), ("W", 2, 2)) if kind == 1 else (("S", 1, 1),)))
        d.add(T.Cmd(g + 100, 1, (g,), 0, (("A", 1, 2),)))
        cases.append(("badinit%d" % i, r.choice(["mem", "libc"]), g, d,
                      [("open", 0), ("add", 0, [g, g + 100]), ("add", 0, [g + 100]), ("commit", 0), ("open", 1), ("add", 1, [g]), ("commit", 1)]))
    # graphs created by ClientState::new_graph whose init action publishes 1-3 commands
    for i in range(40 if ctx.thorough else 9):
        k = 1 + i % 3
        d = T.Dag()
        g = 2000 + 10 * i
        pubs = []
        for q in range(k):
            prog = tuple(o for o in T.rand_prog(r, 0) if o[0] != "Q")
            d.add(T.Cmd(g + q, "i" if q == 0 else r.choice([0, 1]), () if q == 0 else (g + q - 1,), 1 if q == 0 else 0, prog))
            pubs.append((g + q, "i" if q == 0 else d.cmds[g + q].prio, prog))
        base = len(d.order)
        for q in range(r.range(2, 8)):
            d.add(T.Cmd(g + 5 + q, r.choice([0, 1, 2]), (r.choice(d.order),), 0, T.rand_prog(r, 5)))
        rest = d.order[base:]
        ops = [("open", 0), ("newgraph", None, pubs)]
        if r.below(3) == 0:
            ops.insert(1, ("newgraph", r.below(k + 1), pubs))
        ops += [("add", 0, rest[:len(rest) // 2]), ("open", 1), ("add", 1, [pubs[-1][0]] + rest[len(rest) // 2:]), ("commit", 0),
                ("add", 1, [g]), ("commit", 1), ("newgraph", None, pubs[:1]), ("open", 2), ("add", 2, rest), ("commit", 2)]
        cases.append(("ng%d" % i, r.choice(["mem", "libc"]), g, d, ops))
    cases = T.replay_cases(ctx) or cases
    res, mm = T.run_cases(ctx, cases, "c10")
    if res is None:
        return
    viol = []
    for ci, (c, outs) in enumerate(zip(cases, res)):
        for (j, why) in oracle(c, outs, None):
            viol.append((ci, j, why))
    st = T.basic_stats(cases, res)
    ng = {"new_graph_ok_1": 0, "new_graph_ok_2": 0, "new_graph_ok_3": 0, "new_graph_failed": 0}
    for c, outs in zip(cases, res):
        for op, o in zip(c[4], outs):
            if op[0] == "newgraph":
                if o["res"].startswith("ok:") and 1 <= len(op[2]) <= 3:
                    ng["new_graph_ok_%d" % len(op[2])] += 1
                elif not o["res"].startswith("ok:"):
                    ng["new_graph_failed"] += 1
    shapes = {"empty": 0, "parented": 0, "foreign_id": 0, "no_policy": 0, "rejected_init": 0, "created": 0,
              "own_init_again": 0, "foreign_parentless_later": 0}
    for c, outs in zip(cases, res):
        prev = None
        for op, o in zip(c[4], outs):
            missing = prev is None or prev["heads"] is None
            if op[0] == "add" and o["res"] != "invalid":
                if missing:
                    if not op[2]:
                        shapes["empty"] += 1
                    else:
                        cc = c[3].cmds[op[2][0]]
                        if cc.par:
                            shapes["parented"] += 1
                        elif cc.id != c[2]:
                            shapes["foreign_id"] += 1
                        elif not cc.pol:
                            shapes["no_policy"] += 1
                        elif o["heads"] is None:
                            shapes["rejected_init"] += 1
                        else:
                            shapes["created"] += 1
                elif len(op[2]) == 1 and not c[3].cmds[op[2][0]].par:
                    shapes["own_init_again" if op[2][0] == c[2] else "foreign_parentless_later"] += 1
            prev = o
    ctx.coverage.update({
        "traces_validated_against_impl": len(cases),
        "evaluations": sum(len(c[4]) for c in cases),
        "distinct_nontrivial": sum(1 for c, outs in zip(cases, res)
                                   if any(o["res"] == "err:InitError" for o in outs) and any(o["heads"] for o in outs)),
        "rule": "non-trivial = a history that both creates the graph and has at least one refused init-like command; the eight first-command / init-like shapes are counted in distribution.shapes",
        "distribution": dict(st, shapes=shapes, new_graph=ng),
        "samples": [{"case": T.case_text(*cases[i])[:1200], "results": [o["res"] for o in res[i]][:12]} for i in (12, len(cases) - 1)],
    })
    ctx.assumptions += ["ids identify commands (rclash = false)"]
    for (ci, j, why) in viol[:3]:
        ctx.violation("init binding violated: " + why,
                      dict(T.replay_obj(cases[ci], res[ci], why, j), contradicts="init_binding (coq/props/C10.v)"))
    T.report_mismatches(ctx, cases, res, mm)
    ctx.oblige("oracle:init-binding-on-impl-output", not viol, str(viol[:3]))
    ctx.oblige("coverage:all-shapes-hit", all(v > 0 for v in shapes.values()) and all(v > 0 for v in ng.values()), str((shapes, ng)))
