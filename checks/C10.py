"""C10 — a graph is bound to its init command."""
import os
import sys
import vlib
sys.path.insert(0, os.path.dirname(os.path.abspath(__file__)))
import _txn_common as T  # noqa: E402


def first_shapes(r, d):
    """Ops that try every first-command shape on the missing graph, then create it, then replay init-like
    commands at random batch positions."""
    gid = T.gid_of(d)
    ch = [i for i in d.order if d.cmds[i].par == (gid,)]
    foreign = max(d.order) + 1000 + r.below(1000)
    nopol = foreign + 1
    rej = foreign + 2
    d.add(T.Cmd(foreign, "i", (), 1, ()))
    d.add(T.Cmd(nopol, "i", (), 0, ()))
    d.add(T.Cmd(rej, "i", (), 1, (("E", 3), ("W", 1, 1))))
    ops = [("open", 0), ("add", 0, []), ("commit", 0), ("open", 0)]
    if ch:
        ops.append(("add", 0, [ch[0], gid]))           # parented first command
    ops.append(("add", 0, [foreign, gid]))              # parentless with another id
    ops.append(("add", 0, [nopol]))
    ops.append(("flush", 0))
    ops.append(("action", False, None, []))
    return ops, (foreign, nopol, rej)


def oracle(case, outs, probes):
    """Decides the expected class of every single-command probe from the property itself."""
    name, backend, gid, d, ops = case
    bad = []
    prev = None
    for j, (op, o) in enumerate(zip(ops, outs)):
        missing_before = prev is None or prev["heads"] is None
        if op[0] == "add" and o["res"] != "invalid":
            ids = op[2]
            if missing_before:
                if not ids:
                    exp = "err:InitError"
                else:
                    c = d.cmds[ids[0]]
                    if c.id != gid or c.par or not c.pol:
                        exp = "err:InitError"
                    elif T.sure_fail(c.prog):
                        exp = "err:Policy"
                    else:
                        exp = None
                        if o["heads"] is None:
                            bad.append((j, "well-formed init command did not create the graph: %s" % o["res"]))
                        elif [i for i, ps in o["graph"].items() if not ps] != [gid]:
                            bad.append((j, "graph created but its root is not the init command"))
                if exp:
                    if not o["res"].startswith(exp):
                        bad.append((j, "first command %s on a missing graph: expected %s, got %s" % (ids[:1], exp, o["res"])))
                    if o["heads"] is not None:
                        bad.append((j, "a graph was created by a malformed first command"))
                    if exp == "err:InitError" and o["sink"]:
                        bad.append((j, "effects emitted by a refused init command"))
            elif len(ids) == 1 and not d.cmds[ids[0]].par:
                x = ids[0]
                if x == gid:
                    if o["res"] != "ok:0" or T.state_key(o) != T.state_key(prev):
                        bad.append((j, "re-receiving the graph's own init command is not a no-op: %s" % o["res"]))
                else:
                    if o["res"] != "err:InitError" or T.state_key(o) != T.state_key(prev):
                        bad.append((j, "foreign parentless command %d not refused: %s" % (x, o["res"])))
        if o["graph"] is not None and [i for i, ps in o["graph"].items() if not ps] != [gid]:
            bad.append((j, "committed graph has a root other than the init command"))
        prev = o
    return bad


def run(ctx):
    vlib.prove(ctx)
    r = ctx.rng
    cases = []
    for (nm, d, ops) in T.fixed_scenarios():
        for be in ("mem", "libc"):
            cases.append(("%s-%s" % (nm, be), be, T.gid_of(d), d, ops))
    n = 160 if ctx.thorough else 24
    for i in range(n):
        d = T.gen_dag(r, r.range(5, 40 if ctx.thorough else 16), reject_w=6)
        gid = T.gid_of(d)
        pre, (foreign, nopol, rej) = first_shapes(r, d)
        variant = r.below(4)
        if variant == 0:       # rejected init under the right id is impossible (one init per id): use a separate graph id
            pass
        hist = T.gen_history(r, d, ntx=r.choice([1, 2]), p_action=3, target=set(d.order) - {foreign, nopol, rej})
        # sprinkle single-command probes: own init / foreign parentless / policy-less parentless
        out = []
        for op in hist:
            out.append(op)
            if op[0] == "add" and r.below(100) < 35:
                out.append(("add", op[1], [r.choice([gid, gid, foreign, nopol, rej])]))
            if op[0] == "add" and r.below(100) < 15:
                k = r.below(len(op[2]) + 1)
                out.append(("add", op[1], op[2][:k] + [r.choice([gid, foreign])] + op[2][k:]))
        ops = pre + [o for o in out if o != ("open", 0) or True]
        cases.append(("s%d" % i, "libc" if i % 3 == 0 else "mem", gid, d, ops))
    # graphs whose init command is rejected / has no policy under the RIGHT id
    for i in range(30 if ctx.thorough else 6):
        d = T.Dag()
        g = 500 + i
        kind = i % 3
        d.add(T.Cmd(g, "i", (), 0 if kind == 0 else 1, (("E", 9), ("W", 2, 2)) if kind == 1 else (("S", 1, 1),)))
        d.add(T.Cmd(g + 100, 1, (g,), 0, (("A", 1, 2),)))
        cases.append(("badinit%d" % i, r.choice(["mem", "libc"]), g, d,
                      [("open", 0), ("add", 0, [g, g + 100]), ("add", 0, [g + 100]), ("commit", 0), ("open", 1), ("add", 1, [g]), ("commit", 1)]))
    cases = T.replay_cases(ctx) or cases
    res, mm = T.run_cases(ctx, cases, "c10")
    if res is None:
        return
    viol = []
    for ci, (c, outs) in enumerate(zip(cases, res)):
        for (j, why) in oracle(c, outs, None):
            viol.append((ci, j, why))
    st = T.basic_stats(cases, res)
    shapes = {"empty": 0, "parented": 0, "foreign_id": 0, "no_policy": 0, "rejected_init": 0, "created": 0,
              "own_init_again": 0, "foreign_parentless_later": 0}
    for c, outs in zip(cases, res):
        prev = None
        for op, o in zip(c[4], outs):
            missing = prev is None or prev["heads"] is None
            if op[0] == "add" and o["res"] != "invalid":
                if missing:
                    if not op[2]:
                        shapes["empty"] += 1
                    else:
                        cc = c[3].cmds[op[2][0]]
                        if cc.par:
                            shapes["parented"] += 1
                        elif cc.id != c[2]:
                            shapes["foreign_id"] += 1
                        elif not cc.pol:
                            shapes["no_policy"] += 1
                        elif o["heads"] is None:
                            shapes["rejected_init"] += 1
                        else:
                            shapes["created"] += 1
                elif len(op[2]) == 1 and not c[3].cmds[op[2][0]].par:
                    shapes["own_init_again" if op[2][0] == c[2] else "foreign_parentless_later"] += 1
            prev = o
    ctx.coverage.update({
        "traces_validated_against_impl": len(cases),
        "evaluations": sum(len(c[4]) for c in cases),
        "distinct_nontrivial": sum(1 for c, outs in zip(cases, res)
                                   if any(o["res"] == "err:InitError" for o in outs) and any(o["heads"] for o in outs)),
        "rule": "non-trivial = a history that both creates the graph and has at least one refused init-like command; the eight first-command / init-like shapes are counted in distribution.shapes",
        "distribution": dict(st, shapes=shapes),
        "samples": [{"case": T.case_text(*cases[i])[:1200], "results": [o["res"] for o in res[i]][:12]} for i in (12, len(cases) - 1)],
    })
    ctx.assumptions += ["ids identify commands (rclash = false)"]
    for (ci, j, why) in viol[:3]:
        ctx.violation("init binding violated: " + why,
                      dict(T.replay_obj(cases[ci], res[ci], why, j), contradicts="init_binding (coq/props/C10.v)"))
    T.report_mismatches(ctx, cases, res, mm)
    ctx.oblige("oracle:init-binding-on-impl-output", not viol, str(viol[:3]))
    ctx.oblige("coverage:all-shapes-hit", all(v > 0 for v in shapes.values()), str(shapes))
