"""C29 — fact queries in policies match a fact-store model.

Proof: coq/props/C29.v (key codec: injective, decode∘encode, order preserving per type and for
compound keys, prefix_respected; vm_fact_ops_refine / vm_fact_history_refine: Query, exists, the four
counting functions through compile_counting_function's regenerated table, map, create, update, delete
over VmPolicyIO + flat storage refine the typed specification store).

Correspondence: generated policy text -> REAL parser/compiler -> VM -> VmPolicy/VmPolicyIO ->
ClientState -> linear storage (memory backend); the same schema/ops are evaluated by the Coq model
(vm_compute) and compared inside Coq (results, spec-store results, final store byte for byte), and a
plain Python oracle (list comprehension over a dict) judges the implementation's output.
"""
import vlib

I64_MIN, I64_MAX = -(1 << 63), (1 << 63) - 1
HDR = "---\npolicy-version: 2\n---\n\n```policy\n"
ENUM = "Color"
ENUM_VARIANTS = ["Red", "Green", "Blue"]
SEALOPEN = "    seal { return envelope::do_seal(payload) }\n    open { return envelope::do_open(payload, envelope) }\n"

INT_POOL = [I64_MIN, I64_MIN + 1, -256, -2, -1, 0, 1, 2, 255, 256, 1 << 32, I64_MAX - 1, I64_MAX]
STR_POOL = [b"", b"a", b"ab", b"abc", b"abd", b"b", b"aa", b"z", "é".encode(), "a€".encode(), b"a b", b"A", b"~"]
ID_POOL = [bytes(32), b"\xff" * 32, bytes(31) + b"\x01", b"\x01" + bytes(31), b"\x80" + bytes(31),
           bytes(range(32)), b"\x00\xff" * 16, b"\x7f" + b"\xff" * 31]
# command fields are validated against the enum definition when a command is decoded, so only real variants travel
ENUM_POOL = [0, 1, 2]
TYPES = ["int", "bool", "string", "id", "enum"]


# ------------------------------------------------------------------ values
def ty_text(t):
    return "enum " + ENUM if t == "enum" else t


def pool(t):
    return {"int": INT_POOL, "bool": [False, True], "string": STR_POOL, "id": ID_POOL, "enum": ENUM_POOL}[t]


def arg(t, v):
    """harness value syntax"""
    if t == "int":
        return "i%d" % v
    if t == "bool":
        return "b%d" % (1 if v else 0)
    if t == "string":
        return "s" + v.hex()
    if t == "id":
        return "d" + v.hex()
    return "e%s:%d" % (ENUM, v)


def unarg(s):
    c, r = s[0], s[1:]
    if c == "i":
        return int(r)
    if c == "b":
        return r == "1"
    if c in "sd":
        return bytes.fromhex(r)
    if c == "e":
        return int(r.split(":")[1])
    raise ValueError(s)


def lit_ok(t, v):
    """can this value be written as a literal in policy text?"""
    if t == "int":
        return 0 <= v <= I64_MAX
    if t == "bool":
        return True
    if t == "string":
        return all(97 <= b <= 122 for b in v)
    if t == "enum":
        return 0 <= v < len(ENUM_VARIANTS)
    return False


def lit_text(t, v):
    if t == "int":
        return str(v)
    if t == "bool":
        return "true" if v else "false"
    if t == "string":
        return '"%s"' % v.decode()
    return "%s::%s" % (ENUM, ENUM_VARIANTS[v])


def coq_bytes(b):
    return "[" + ";".join(str(x) for x in b) + "]"


def coq_z(v):
    return "(%d)%%Z" % v


def coq_hval(t, v):
    if t == "int":
        return "HInt %s" % coq_z(v)
    if t == "bool":
        return "HBool %s" % ("true" if v else "false")
    if t == "string":
        return "HString %s" % coq_bytes(v)
    if t == "id":
        return "HId %s" % coq_bytes(v)
    return "HEnum %s %s" % (coq_bytes(ENUM.encode()), coq_z(v))


def coq_value(t, v):
    if t == "int":
        return "VInt %s" % coq_z(v)
    if t == "bool":
        return "VBool %s" % ("true" if v else "false")
    if t == "string":
        return "VString %s" % coq_bytes(v)
    if t == "id":
        return "VId %s" % coq_bytes(v)
    return "VEnum %s %s" % (coq_bytes(ENUM.encode()), coq_z(v))


def coq_ty(t):
    return {"int": "TInt", "bool": "TBool", "string": "TString", "id": "TId"}.get(t) or "TEnum %s" % coq_bytes(ENUM.encode())


# ------------------------------------------------------------------ case generation
class Case:
    pass


def gen_case(r, idx, thorough):
    c = Case()
    n = r.choice([1, 1, 2, 2, 2, 3])
    m = r.choice([0, 1, 1, 2, 2])
    c.kt = [r.choice(TYPES) for _ in range(n)]
    c.vt = [r.choice(TYPES) for _ in range(m)]
    # small per-position pools so that keys collide and prefixes are shared
    c.kpool = [[r.choice(pool(t)) for _ in range(r.choice([2, 3, 4]))] for t in c.kt]
    c.vpool = [[r.choice(pool(t)) for _ in range(r.choice([2, 3]))] for t in c.vt]
    c.decoy = r.chance(1, 4)
    kn = ["k%d" % i for i in range(n)]
    vn = ["v%d" % i for i in range(m)]
    c.kn, c.vn = kn, vn

    # query forms (static part lives in the policy text)
    forms = []
    nforms = r.choice([4, 5, 6, 7])
    kinds = ["query", "exists", "count_up_to", "at_least", "at_most", "exactly", "map", "map", "query"]
    for fi in range(nforms):
        f = Case()
        f.kind = r.choice(kinds) if fi >= 2 else ["map", "query"][fi]
        f.j = r.choice(list(range(n + 1)) + [n, max(n - 1, 0)])
        f.ksrc = []       # per bound key: ("var",) or ("lit", value)
        for p in range(f.j):
            cand = [v for v in c.kpool[p] if lit_ok(c.kt[p], v)]
            if cand and r.chance(1, 3):
                f.ksrc.append(("lit", r.choice(cand)))
            else:
                f.ksrc.append(("var",))
        f.vsrc = []       # per value field: None (bind) | ("var",) | ("lit", value)
        bound_any = m > 0 and r.chance(1, 2)
        for p in range(m):
            if bound_any and r.chance(2, 3):
                cand = [v for v in c.vpool[p] if lit_ok(c.vt[p], v)]
                if cand and r.chance(1, 3):
                    f.vsrc.append(("lit", r.choice(cand)))
                else:
                    f.vsrc.append(("var",))
            else:
                f.vsrc.append(None)
        f.has_vals = any(x is not None for x in f.vsrc) or (m > 0 and r.chance(1, 3))
        f.limit = r.choice([1, 1, 2, 2, 3, 4, 7, I64_MAX - 1, I64_MAX if f.kind in ("count_up_to", "at_least") else 5])
        forms.append(f)
    c.forms = forms

    # operations
    ops = []

    def rand_key():
        return tuple(r.choice(c.kpool[p]) for p in range(n))

    def rand_vals():
        return tuple(r.choice(c.vpool[p]) for p in range(m))

    def qop():
        fi = r.below(len(forms))
        f = forms[fi]
        kv = [r.choice(c.kpool[p]) if f.ksrc[p][0] == "var" else f.ksrc[p][1] for p in range(f.j)]
        vv = [None if f.vsrc[p] is None else (r.choice(c.vpool[p]) if f.vsrc[p][0] == "var" else f.vsrc[p][1]) for p in range(m)]
        return ("q", fi, kv, vv)

    for _ in range(r.choice([3, 4, 5, 6, 8] if not thorough else [4, 6, 8, 10, 12])):
        ops.append(("put", rand_key(), rand_vals()))
    for _ in range(r.choice([3, 4, 5])):
        ops.append(qop())
    present = [o[1] for o in ops if o[0] == "put"]
    for _ in range(r.choice([1, 2, 3, 4])):
        what = r.choice(["del", "del", "upd", "upd", "upd_any", "put", "upd_absent", "upd_wrong"] if m > 0 else ["del", "del", "put"])
        k = r.choice(present) if present and r.chance(4, 5) else rand_key()
        if what == "del":
            ops.append(("del", k))
        elif what == "put":
            ops.append(("put", k, rand_vals()))
        elif what == "upd_absent":
            ops.append(("upd", rand_key(), rand_vals(), rand_vals(), "guess"))
        elif what == "upd_wrong":
            ops.append(("upd", k, rand_vals(), rand_vals(), "guess"))
        elif what == "upd":
            ops.append(("upd", k, None, rand_vals(), "current"))   # expected values = the current ones
        else:
            ops.append(("upd_any", k, rand_vals()))
        if r.chance(1, 2):
            ops.append(qop())
    for _ in range(r.choice([2, 3, 4])):
        ops.append(qop())
    c.ops = ops
    return c


def rand_qop(r, c):
    fi = r.below(len(c.forms))
    f = c.forms[fi]
    m = len(c.vt)
    kv = [r.choice(c.kpool[p]) if f.ksrc[p][0] == "var" else f.ksrc[p][1] for p in range(f.j)]
    vv = [None if f.vsrc[p] is None else (r.choice(c.vpool[p]) if f.vsrc[p][0] == "var" else f.vsrc[p][1]) for p in range(m)]
    return ("q", fi, kv, vv)


def gen_session_ops(r, c, stored):
    """ops for an ephemeral session on top of a graph holding `stored`: create / update (delete+insert) /
    delete / re-create of facts that exist on the graph and of facts that exist only in the session,
    with queries after every write"""
    n, m = len(c.kt), len(c.vt)

    def rand_key():
        return tuple(r.choice(c.kpool[p]) for p in range(n))

    def rand_vals():
        return tuple(r.choice(c.vpool[p]) for p in range(m))
    ops = []
    on_graph = sorted(stored)
    fresh = [k for k in (rand_key() for _ in range(6)) if k not in stored]
    scripts = []
    for k in (r.shuffle(list(on_graph))[:2] if on_graph else []):
        if m > 0:
            scripts.append([("upd", k, None, rand_vals(), "current"), ("del", k), ("put", k, rand_vals()), ("del", k)])
            scripts.append([("upd_any", k, rand_vals()), ("del", k)])
        scripts.append([("del", k), ("put", k, rand_vals()), ("del", k)])
    for k in fresh[:2]:
        scr = [("put", k, rand_vals())]
        if m > 0:
            scr.append(("upd_any", k, rand_vals()))
        scr += [("del", k), ("put", k, rand_vals())]
        scripts.append(scr)
    r.shuffle(scripts)
    for scr in scripts[:r.choice([2, 3, 4])]:
        for o in scr:
            ops.append(o)
            for _ in range(r.choice([1, 1, 2])):
                ops.append(rand_qop(r, c))
    for _ in range(r.choice([1, 2, 3])):
        what = r.choice(["put", "del", "q", "q"])
        ops.append(("put", rand_key(), rand_vals()) if what == "put" else ("del", rand_key()) if what == "del" else rand_qop(r, c))
    ops.append(rand_qop(r, c))
    return ops


def fact_lit(c, keys, vals):
    """text of F[..]=>{..}; keys: list of exprs or None(bind) for ALL key positions; vals: None or list for all value positions"""
    ks = ", ".join("%s: %s" % (c.kn[p], keys[p] if keys[p] is not None else "?") for p in range(len(c.kn)))
    s = "F[%s]" % ks
    if vals is not None:
        s += "=>{%s}" % ", ".join("%s: %s" % (c.vn[p], vals[p] if vals[p] is not None else "?") for p in range(len(c.vn)))
    return s


def policy_text(c):
    n, m = len(c.kt), len(c.vt)
    out = [HDR, "use envelope\n"]
    if "enum" in c.kt + c.vt:
        out.append("enum %s { %s }\n" % (ENUM, ", ".join(ENUM_VARIANTS)))
    kf = ["%s %s" % (c.kn[p], ty_text(c.kt[p])) for p in range(n)]
    vf = ["%s %s" % (c.vn[p], ty_text(c.vt[p])) for p in range(m)]
    out.append("fact F[%s]=>{%s}\n" % (", ".join(kf), ", ".join(vf)))
    out.append("effect Row { %s }\n" % ", ".join(kf + vf))
    out.append("effect NoRow { z int }\neffect Cnt { n int }\neffect Flag { f bool }\neffect Done { z int }\n")
    if c.decoy:
        out.append("fact G[k0 int]=>{v0 int}\n")

    sess = getattr(c, "session", False)

    def command(name, fields, body):
        out.append("command %s {\n    attributes { priority: 0 }\n    fields { %s }\n%s    policy {\n%s    }\n}\n" % (
            name, ", ".join(fields + ["z int"]), SEALOPEN, body))
        if sess:   # the same command for ephemeral sessions
            out.append("ephemeral command E%s {\n    fields { %s }\n%s    policy {\n%s    }\n}\n" % (
                name, ", ".join(fields + ["z int"]), SEALOPEN, body))

    def action(name, params, body):
        out.append("action %s(%s) {\n%s}\n" % (name, ", ".join(params + ["z int"]), body))
        if sess:
            out.append("ephemeral action e%s(%s) {\n%s}\n" % (name, ", ".join(params + ["z int"]), body.replace("publish ", "publish E")))

    out.append("command Init {\n    attributes { init: true }\n    fields { nonce int }\n%s    policy { finish {} }\n}\n" % SEALOPEN)
    out.append("action init(nonce int) { publish Init { nonce: nonce } }\n")
    allf = kf + vf
    alln = c.kn + c.vn

    def pub(cmd, names):
        return "publish %s { %s }" % (cmd, ", ".join(["%s: %s" % (x, x) for x in names] + ["z: z"]))

    thisk = ["this." + x for x in c.kn]
    thisv = ["this." + x for x in c.vn]
    command("Put", allf, "        finish { create %s }\n" % fact_lit(c, thisk, thisv))
    action("put", allf, "    %s\n" % pub("Put", alln))
    command("Del", kf, "        finish { delete %s }\n" % fact_lit(c, thisk, None))
    action("del", kf, "    %s\n" % pub("Del", c.kn))
    if m > 0:
        of = ["o%d %s" % (p, ty_text(c.vt[p])) for p in range(m)]
        on = ["o%d" % p for p in range(m)]
        command("Upd", kf + of + vf, "        finish { update %s to {%s} }\n" % (
            fact_lit(c, thisk, ["this.o%d" % p for p in range(m)]),
            ", ".join("%s: this.%s" % (x, x) for x in c.vn)))
        action("upd", kf + of + vf, "    %s\n" % pub("Upd", c.kn + on + c.vn))
        command("UpdAny", allf, "        finish { update %s to {%s} }\n" % (
            fact_lit(c, thisk, None), ", ".join("%s: this.%s" % (x, x) for x in c.vn)))
        action("upd_any", allf, "    %s\n" % pub("UpdAny", alln))
    if c.decoy:
        command("PutG", ["g int"], "        finish { create G[k0: this.g]=>{v0: this.g} }\n")
        action("put_g", ["g int"], "    publish PutG { g: g, z: z }\n")
    # an action must publish at least one command, so every map action ends with a marker
    command("DoneC", [], "        finish { emit Done { z: this.z } }\n")
    command("RowC", allf, "        finish { emit Row { %s } }\n" % ", ".join("%s: this.%s" % (x, x) for x in alln))

    for fi, f in enumerate(c.forms):
        params, pn = [], []
        for p in range(f.j):
            if f.ksrc[p][0] == "var":
                params.append("a%d %s" % (p, ty_text(c.kt[p])))
                pn.append("a%d" % p)
        for p in range(m):
            if f.vsrc[p] is not None and f.vsrc[p][0] == "var":
                params.append("b%d %s" % (p, ty_text(c.vt[p])))
                pn.append("b%d" % p)

        def exprs(prefix):
            ks = []
            for p in range(n):
                if p < f.j:
                    ks.append(prefix + "a%d" % p if f.ksrc[p][0] == "var" else lit_text(c.kt[p], f.ksrc[p][1]))
                else:
                    ks.append(None)
            vs = None
            if f.has_vals:
                vs = []
                for p in range(m):
                    if f.vsrc[p] is None:
                        vs.append(None)
                    else:
                        vs.append(prefix + "b%d" % p if f.vsrc[p][0] == "var" else lit_text(c.vt[p], f.vsrc[p][1]))
            return fact_lit(c, ks, vs)

        if f.kind == "map":
            action("m%d" % fi, params, "    map %s as f {\n        publish RowC { %s, z: z }\n    }\n    publish DoneC { z: z }\n" % (
                exprs(""), ", ".join("%s: f.%s" % (x, x) for x in alln)))
            continue
        lit = exprs("this.")
        if f.kind == "query":
            body = ("        let r = query %s\n        match r {\n            Some(u) => { finish { emit Row { %s } } }\n"
                    "            None => { finish { emit NoRow { z: 0 } } }\n        }\n") % (
                        lit, ", ".join("%s: u.%s" % (x, x) for x in alln))
        elif f.kind == "exists":
            body = "        let b = exists %s\n        finish { emit Flag { f: b } }\n" % lit
        elif f.kind == "count_up_to":
            body = "        let c = count_up_to %d %s\n        finish { emit Cnt { n: c } }\n" % (f.limit, lit)
        else:
            body = "        let b = %s %d %s\n        finish { emit Flag { f: b } }\n" % (f.kind, f.limit, lit)
        command("Q%d" % fi, params, body)
        action("q%d" % fi, params, "    %s\n" % pub("Q%d" % fi, pn))
    out.append("```\n")
    return "".join(out)


def op_line(c, op, sess=False):
    l = op_line0(c, op)
    return "E:e" + l[2:] if sess else l


def op_line0(c, op):
    z = "i0"
    if op[0] == "put":
        a = [arg(t, v) for t, v in zip(c.kt, op[1])] + [arg(t, v) for t, v in zip(c.vt, op[2])]
        return "A:put(%s)" % ",".join(a + [z])
    if op[0] == "del":
        return "A:del(%s)" % ",".join([arg(t, v) for t, v in zip(c.kt, op[1])] + [z])
    if op[0] == "upd":
        a = [arg(t, v) for t, v in zip(c.kt, op[1])] + [arg(t, v) for t, v in zip(c.vt, op[2])] + [arg(t, v) for t, v in zip(c.vt, op[3])]
        return "A:upd(%s)" % ",".join(a + [z])
    if op[0] == "upd_any":
        a = [arg(t, v) for t, v in zip(c.kt, op[1])] + [arg(t, v) for t, v in zip(c.vt, op[2])]
        return "A:upd_any(%s)" % ",".join(a + [z])
    if op[0] == "put_g":
        return "A:put_g(i%d,i0)" % op[1]
    _, fi, kv, vv = op
    f = c.forms[fi]
    a = [arg(c.kt[p], kv[p]) for p in range(f.j) if f.ksrc[p][0] == "var"]
    a += [arg(c.vt[p], vv[p]) for p in range(len(c.vt)) if f.vsrc[p] is not None and f.vsrc[p][0] == "var"]
    return "A:%s%d(%s)" % ("m" if f.kind == "map" else "q", fi, ",".join(a + [z]))


# ------------------------------------------------------------------ the oracle: a dict and list comprehensions
def resolve_current(c, ops):
    """fill in `upd ... current` expected values from the oracle store (the generator needs a store anyway)"""
    store = {}
    out = []
    for op in ops:
        if op[0] == "upd" and op[4] == "current":
            cur = store.get(op[1])
            exp = cur if cur is not None else tuple(c.vpool[p][0] for p in range(len(c.vt)))
            op = ("upd", op[1], exp, op[3], "current")
        oracle_step(c, store, op)
        out.append(op)
    return out


def oracle_step(c, store, op):
    """returns the expected observable: ('unit',) | ('err',) | ('row', fact|None) | ('int', n) | ('bool', b) | ('rows', [...])"""
    if op[0] == "put":
        store[op[1]] = op[2]
        return ("unit",)
    if op[0] == "put_g":
        return ("unit",)
    if op[0] == "del":
        store.pop(op[1], None)
        return ("unit",)
    if op[0] == "upd":
        if op[1] not in store or store[op[1]] != op[2]:
            return ("err",)
        store[op[1]] = op[3]
        return ("unit",)
    if op[0] == "upd_any":
        if op[1] not in store:
            return ("err",)
        store[op[1]] = op[2]
        return ("unit",)
    _, fi, kv, vv = op
    f = c.forms[fi]
    rows = [(k, store[k]) for k in sorted(store)
            if list(k[:f.j]) == list(kv) and all(vv[p] is None or store[k][p] == vv[p] for p in range(len(c.vt)))]
    if f.kind == "map":
        return ("rows", rows)
    if f.kind == "query":
        return ("row", rows[0] if rows else None)
    if f.kind == "exists":
        return ("bool", len(rows) > 0)
    if f.kind == "count_up_to":
        return ("int", min(len(rows), f.limit))
    if f.kind == "at_least":
        return ("bool", len(rows) >= f.limit)
    if f.kind == "at_most":
        return ("bool", len(rows) <= f.limit)
    return ("bool", len(rows) == f.limit)


# ------------------------------------------------------------------ parsing the implementation's output
def parse_effect(c, e):
    name, body = e.split("{", 1)
    fields = {}
    for kv in body.rstrip("}").split(","):
        if kv:
            k, v = kv.split("=", 1)
            fields[k] = v
    return name, fields


def parse_row(c, fields):
    return (tuple(unarg(fields[x]) for x in c.kn), tuple(unarg(fields[x]) for x in c.vn))


def observe(c, op, res):
    """implementation result -> the same observable shape as the oracle"""
    if res.startswith("err:"):
        return ("err",)
    if not (res.startswith("ok[") and res.endswith("]")):
        return ("bad", res)
    effs = [parse_effect(c, e) for e in res[3:-1].split("|") if e]
    if op[0] in ("put", "del", "upd", "upd_any", "put_g"):
        return ("unit",) if not effs else ("bad", res)
    f = c.forms[op[1]]
    if f.kind == "map":
        if not effs or effs[-1][0] != "Done" or any(nm != "Row" for nm, _ in effs[:-1]):
            return ("bad", res)
        return ("rows", [parse_row(c, fl) for _, fl in effs[:-1]])
    if len(effs) != 1:
        return ("bad", res)
    nm, fl = effs[0]
    if f.kind == "query":
        return ("row", parse_row(c, fl) if nm == "Row" else None) if nm in ("Row", "NoRow") else ("bad", res)
    if f.kind == "count_up_to":
        return ("int", unarg(fl["n"])) if nm == "Cnt" else ("bad", res)
    return ("bool", unarg(fl["f"])) if nm == "Flag" else ("bad", res)


def parse_dump(c, res):
    rows = []
    for e in res[5:-1].split("|"):
        if not e:
            continue
        ks, vs = e.split("=", 1)
        keys = [bytes.fromhex(x) for x in ks.split(".")] if ks else []
        vals = []
        for kv in vs.split(","):
            if kv:
                k, v = kv.split("=", 1)
                vals.append((k, unarg(v)))
        rows.append((keys, vals))
    return rows


# ------------------------------------------------------------------ Coq rendering
def coq_lit(c, kv, vv):
    ks = "; ".join(coq_hval(c.kt[p], kv[p]) for p in range(len(kv)))
    vs = "; ".join("(%s, %s)" % (coq_bytes(c.vn[p].encode()), coq_value(c.vt[p], vv[p])) for p in range(len(c.vt)) if vv[p] is not None)
    return "{| l_keys := [%s]; l_vals := [%s] |}" % (ks, vs)


def coq_op(c, op):
    m = len(c.vt)
    if op[0] == "put":
        return "OCreate %s" % coq_lit(c, op[1], op[2])
    if op[0] == "del":
        return "ODelete %s" % coq_lit(c, op[1], [None] * m)
    if op[0] == "upd":
        to = "; ".join("(%s, %s)" % (coq_bytes(c.vn[p].encode()), coq_value(c.vt[p], op[3][p])) for p in range(m))
        return "OUpdate %s [%s]" % (coq_lit(c, op[1], op[2]), to)
    if op[0] == "upd_any":
        to = "; ".join("(%s, %s)" % (coq_bytes(c.vn[p].encode()), coq_value(c.vt[p], op[2][p])) for p in range(m))
        return "OUpdate %s [%s]" % (coq_lit(c, op[1], [None] * m), to)
    _, fi, kv, vv = op
    f = c.forms[fi]
    l = coq_lit(c, kv, vv)
    if f.kind == "map":
        return "OMap %s" % l
    if f.kind == "query":
        return "OQuery %s" % l
    if f.kind == "exists":
        return "OExists %s" % l
    k = {"count_up_to": "GUpTo", "at_least": "GAtLeast", "at_most": "GAtMost", "exactly": "GExactly"}[f.kind]
    return "OCount %s %s %s" % (k, coq_z(f.limit), l)


def coq_row(c, row):
    k, v = row
    ks = "; ".join("(%s, %s)" % (coq_bytes(c.kn[p].encode()), coq_hval(c.kt[p], k[p])) for p in range(len(c.kt)))
    vs = "; ".join("(%s, %s)" % (coq_bytes(c.vn[p].encode()), coq_value(c.vt[p], v[p])) for p in range(len(c.vt)))
    return "([%s], [%s])" % (ks, vs)


def coq_result(c, ob):
    if ob[0] == "unit":
        return "RUnit"
    if ob[0] == "err":
        return "RErr EBug"
    if ob[0] == "row":
        return "RRow None" if ob[1] is None else "RRow (Some %s)" % coq_row(c, ob[1])
    if ob[0] == "int":
        return "RInt %s" % coq_z(ob[1])
    if ob[0] == "bool":
        return "RBool %s" % ("true" if ob[1] else "false")
    return "RRows [%s]" % "; ".join(coq_row(c, x) for x in ob[1])


def coq_schema(c):
    ks = "; ".join("(%s, %s)" % (coq_bytes(c.kn[p].encode()), coq_ty(c.kt[p])) for p in range(len(c.kt)))
    vs = "; ".join("(%s, %s)" % (coq_bytes(c.vn[p].encode()), coq_ty(c.vt[p])) for p in range(len(c.vt)))
    return "{| s_name := [70]; s_keys := [%s]; s_vals := [%s] |}" % (ks, vs)


def coq_dump(c, dump):
    rows = []
    for keys, vals in dump:
        vs = "; ".join("(%s, %s)" % (coq_bytes(k.encode()), coq_value(c.vt[c.vn.index(k)], v)) for k, v in vals)
        rows.append("([%s], [%s])" % ("; ".join(coq_bytes(k) for k in keys), vs))
    return "[%s]" % "; ".join(rows)


COQ_HEADER = ("From Aranya Require Import base.Tactics base.Harness gen.GenKeyEnc model.KeyEnc model.FactOps model.FactOpsCheck.\n"
              "Open Scope N_scope.\n")


# ------------------------------------------------------------------ compile-time stream (malformed limits)
def limit_cases(r, count):
    out = []
    for _ in range(count):
        kind = r.choice(["count_up_to", "at_least", "at_most", "exactly"])
        lim = r.choice([0, -1, -5, 1, 2, I64_MAX, I64_MAX - 1, I64_MIN])
        out.append((kind, lim))
    for kind in ("count_up_to", "at_least", "at_most", "exactly"):
        for lim in (0, 1, I64_MAX, I64_MAX - 1):
            out.append((kind, lim))
    return out


def limit_policy(kind, lim):
    return (HDR + "use envelope\nfact F[k0 int]=>{v0 int}\neffect Cnt { n int }\neffect Flag { f bool }\n"
            "command Init {\n    attributes { init: true }\n    fields { nonce int }\n" + SEALOPEN + "    policy { finish {} }\n}\n"
            "action init(nonce int) { publish Init { nonce: nonce } }\n"
            "command Q {\n    attributes { priority: 0 }\n    fields { z int }\n" + SEALOPEN +
            "    policy {\n        let x = %s %d F[k0: ?]\n        finish { emit %s }\n    }\n}\n"
            "action q(z int) { publish Q { z: z } }\n```\n") % (
                kind, lim, "Cnt { n: x }" if kind == "count_up_to" else "Flag { f: x }")


# ------------------------------------------------------------------ run
def run(ctx):
    vlib.regen(ctx)
    vlib.prove(ctx, extra_targets=["model/FactOpsCheck.vo"])
    binp = vlib.cargo_build(ctx, "hx-vmpolicy", bin="c29")
    if not binp:
        return
    r = ctx.rng
    ncases = 3000 if ctx.thorough else 240
    cases = []
    for i in range(ncases):
        c = gen_case(r, i, ctx.thorough)
        c.ops = resolve_current(c, c.ops)
        # every 4th case also runs an ephemeral session on top of the graph it has built
        c.session = (i % 4 == 3)
        c.sops = []
        if c.session:
            stored = {}
            for o in c.ops:
                oracle_step(c, stored, o)
            sops = gen_session_ops(r, c, stored)
            c.sops = resolve_current(c, c.ops + sops)[len(c.ops):]
        if c.decoy:
            c.ops.insert(r.below(len(c.ops)), ("put_g", r.choice([1, 2, 3])))
        c.policy = policy_text(c)
        cases.append(c)
    lcases = limit_cases(r, 40 if ctx.thorough else 8)

    def case_line(c):
        ops = [op_line(c, o) for o in c.ops]
        if c.session:
            ops += ["S"] + [op_line(c, o, True) for o in c.sops] + ["R"]
        return "%s %s;D:F\n" % (c.policy.encode().hex(), ";".join(ops))
    inp = "".join(case_line(c) for c in cases)
    inp += "".join("%s A:q(i0)\n" % limit_policy(k, l).encode().hex() for (k, l) in lcases)
    import concurrent.futures
    lines_in = inp.splitlines(True)
    nsh = 4
    shards = [lines_in[i::nsh] for i in range(nsh)]
    with concurrent.futures.ThreadPoolExecutor(max_workers=nsh) as ex:
        outs = list(ex.map(lambda sh: vlib.run_bin(binp, input="".join(sh), timeout=3000), shards))
    lines = [None] * len(lines_in)
    for si, (rc, out, err) in enumerate(outs):
        ol = out.splitlines()
        if rc != 0 or len(ol) != len(shards[si]):
            ctx.oblige("harness:run", False, (out[-1000:] + err[-2000:]))
            return
        for j, l in enumerate(ol):
            lines[si + j * nsh] = l

    # ---- fact operation cases
    oracle_fail, bad, pairs = [], [], []
    stats = {"ops": 0, "rows_returned": 0, "multi_row_maps": 0, "value_filtered": 0, "errors": 0, "prefix_partial": 0,
             "capped_counts": 0, "stored_facts_final": 0, "literal_bound": 0, "session_cases": 0, "session_ops": 0}
    kinds_seen = {}
    nontrivial = set()
    for ci, c in enumerate(cases):
        line = lines[ci]
        parts = line.split(";")
        nparts = len(c.ops) + 1 + (len(c.sops) + 2 if c.session else 0)
        if len(parts) != nparts or not parts[-1].startswith("dump["):
            bad.append((ci, line[:300]))
            continue
        recv = None
        if c.session:
            if parts[len(c.ops)] != "session":
                bad.append((ci, parts[len(c.ops)][:100]))
                continue
            recv = parts[-2]
            parts = parts[:len(c.ops)] + parts[len(c.ops) + 1:-2] + parts[-1:]
        store = {}
        graph_store = None
        obs = []
        nt = False
        sess_effects = []
        for oi, (op, res) in enumerate(zip(c.ops + c.sops, parts)):
            if oi == len(c.ops):
                graph_store = dict(store)      # what the graph holds when the session starts
            if oi >= len(c.ops):
                stats["session_ops"] += 1
                if res.startswith("ok[") and res[3:-1]:
                    sess_effects.append(res[3:-1])
            want = oracle_step(c, store, op)
            got = observe(c, op, res)
            obs.append(got)
            stats["ops"] += 1
            if got[0] == "bad":
                bad.append((ci, res[:300]))
            elif got != want:
                oracle_fail.append((ci, oi, want, got))
            if op[0] == "q":
                f = c.forms[op[1]]
                kinds_seen[f.kind] = kinds_seen.get(f.kind, 0) + 1
                if want[0] == "rows":
                    stats["rows_returned"] += len(want[1])
                    if len(want[1]) >= 2:
                        stats["multi_row_maps"] += 1
                        nt = True
                if any(v is not None for v in op[3]):
                    stats["value_filtered"] += 1
                    nt = nt or want not in (("rows", []), ("row", None), ("bool", False), ("int", 0))
                if 0 < f.j < len(c.kt):
                    stats["prefix_partial"] += 1
                if f.kind == "count_up_to" and want[1] == f.limit:
                    stats["capped_counts"] += 1
                if any(s[0] == "lit" for s in f.ksrc) or any(s is not None and s[0] == "lit" for s in f.vsrc):
                    stats["literal_bound"] += 1
            if want == ("err",):
                stats["errors"] += 1
        if c.session:
            stats["session_cases"] += 1
            # the session is ephemeral: the graph's store is what it was when the session started
            store = graph_store if graph_store is not None else store
            # a second session receiving the first one's commands re-emits exactly its effects
            want_recv = "recv[%s]" % "|".join(sess_effects)
            if recv != want_recv:
                oracle_fail.append((ci, "session-receive", want_recv[:400], recv[:400]))
        dump = parse_dump(c, parts[-1])
        stats["stored_facts_final"] += len(dump)
        # oracle on the final store: the typed facts, in typed key order
        want_store = [(k, store[k]) for k in sorted(store)]
        got_store = [tuple(v for _, v in vals) for _, vals in dump]
        if [v for _, v in want_store] != got_store or any([n for n, _ in vals] != c.vn for _, vals in dump):
            oracle_fail.append((ci, "final-store", want_store, dump))
        if nt:
            nontrivial.add((tuple(c.kt), tuple(c.vt), tuple(op_line(c, o) for o in c.ops + c.sops)))
        pairs.append((c, obs, dump))

    # ---- compile-time stream
    lim_fail = []
    lim_items = []
    for li, (kind, lim) in enumerate(lcases):
        res = lines[len(cases) + li]
        rejected = res.startswith("compile-error") or res == "panic"
        should_reject = lim <= 0 or (kind in ("at_most", "exactly") and lim == I64_MAX)
        if rejected != should_reject or (not rejected and not res.startswith("ok[")):
            lim_fail.append((kind, lim, res[:200]))
        lim_items.append("(%s, %s, %s)" % ({"count_up_to": "GUpTo", "at_least": "GAtLeast", "at_most": "GAtMost", "exactly": "GExactly"}[kind],
                                          coq_z(lim), "true" if rejected else "false"))

    # ---- model side, compared inside Coq
    def render(chunk):
        items = []
        for (c, obs, dump) in chunk:
            allops = c.ops + c.sops
            items.append("(%s, [%s], [%s], [%s], %s)" % (
                coq_schema(c), "; ".join(coq_op(c, o) for o in c.ops if o[0] != "put_g"),
                "; ".join(coq_op(c, o) for o in c.sops),
                "; ".join(coq_result(c, ob) for o, ob in zip(allops, obs) if o[0] != "put_g"),
                coq_dump(c, dump)))
        return ("Definition cases : list (schema * list op * list op * list result * list (list bytes * list fval)) := [%s].\n"
                "Eval vm_compute in (mismatches c_check_sess cases).\n" % ";\n ".join(items))

    clean = [p for p in pairs if not any(ob[0] == "bad" for ob in p[1])]
    outs, chunks = vlib.coq_eval_sharded(ctx, "c29", COQ_HEADER, clean, render, shard=30 if not ctx.thorough else 60)
    mism, base = [], 0
    for (rc, o), ch in zip(outs, chunks):
        v = vlib.parse_coq_value(o) if rc == 0 else None
        if v is None:
            ctx.oblige("correspondence:model-eval", False, o[-3000:])
            return
        mism += [base + j for j in v]
        base += len(ch)
    # codec: every serialised key element the implementation stored, against ser_key / deser_key
    kitems = set()
    failed_cases = {x[0] for x in oracle_fail}
    for (c, obs, dump) in clean:
        if cases.index(c) in failed_cases:
            continue
        # pair typed keys with dumped bytes through the oracle's final store order
        final = {}
        for o in c.ops:
            oracle_step(c, final, o)
        for k, (keys, vals) in zip(sorted(final), dump):
            for p, kb in enumerate(keys):
                kitems.add("((%s, %s), %s)" % (coq_bytes(c.kn[p].encode()), coq_hval(c.kt[p], k[p]), coq_bytes(kb)))
    kitems = sorted(kitems)
    rc, o = vlib.coq_eval(ctx, "c29_codec", COQ_HEADER + (
        "Definition kcases : list (fkey * bytes) := [%s].\nEval vm_compute in (mismatches k_check kcases).\n" % ";\n ".join(kitems)) + (
        "Definition lcases : list (gkind * Z * bool) := [%s].\n"
        "Eval vm_compute in (mismatches (fun c => let '(k, n, rej) := c in Bool.eqb rej (match compile_counting k n with Err _ => true | Ok _ => false end)) lcases).\n"
        % "; ".join(lim_items)))
    vals = []
    if rc == 0:
        import re
        for mm in re.finditer(r"=\s*(\[[^\]]*\])\s*:\s*list N", o):
            vals.append(vlib.parse_term(mm.group(1)))
    if len(vals) != 2:
        ctx.oblige("correspondence:codec-eval", False, o[-3000:])
        return
    kmis, lmis = vals

    ctx.coverage.update({
        "traces_validated_against_impl": len(clean),
        "evaluations": stats["ops"] + len(kitems) + len(lcases),
        "distinct_nontrivial": len(nontrivial),
        "rule": "case = generated policy (schema over int/bool/string/id/enum, 4-7 query forms with literal or variable bound "
                "fields) + 9-25 on-graph actions through ClientState on linear memory storage; non-trivial = some map returned "
                ">= 2 rows in key order or a value-filtered query returned a non-empty answer; distinct by (schema, action list)",
        "distribution": dict(stats, query_kinds=kinds_seen, cases=len(cases), codec_key_elements=len(kitems),
                             compile_time_limit_cases=len(lcases),
                             key_types={t: sum(c.kt.count(t) for c in cases) for t in TYPES},
                             value_types={t: sum(c.vt.count(t) for c in cases) for t in TYPES}),
        "samples": [{"schema": {"keys": c.kt, "values": c.vt}, "ops": [op_line(c, o) for o in c.ops][:6], "impl": lines[i].split(";")[:6]}
                    for i, c in list(enumerate(cases))[:2]],
    })
    ctx.assumptions += [
        "storage = flat sorted map per fact name with prefix query (C12, named component `storage_is_flat_map`; inhabited by flat_store_is_instance)",
        "postcard round-trips Vec<FactValue> (hypothesis `forall vs, deser_vals (ser_vals vs) = Some vs`)",
        "core::str::from_utf8 is a parameter `utf8` of the decoder; key/identifier lengths < 2^64",
        "fact values range over int/bool/string/bytes/id/enum/optional (no struct-typed fact values in the model)",
    ]
    for (ci, oi, want, got) in oracle_fail[:3]:
        c = cases[ci]
        ctx.violation("policy fact operation disagrees with the fact-store oracle (case %d, op %s): expected %r, implementation %r" % (ci, oi, want, got),
                      {"schema": {"keys": c.kt, "values": c.vt}, "policy": c.policy,
                       "ops": [op_line(c, o) for o in c.ops] + (["S"] + [op_line(c, o, True) for o in c.sops] + ["R"] if c.session else []),
                       "failing_op": oi, "expected": repr(want), "impl": repr(got), "impl_line": lines[ci],
                       "contradicts": "vm_fact_ops_refine (coq/props/C29.v)",
                       "replay_cmd": "printf '%%s %%s;D:F\\n' <policy hex> '<ops>' | build/target/debug/c29"})
    for (kind, lim, res) in lim_fail[:2]:
        ctx.violation("counting-function limit handling: %s %d -> %s" % (kind, lim, res),
                      {"kind": kind, "limit": lim, "impl": res, "contradicts": "compile_counting (model/FactOps.v)"})
    ctx.oblige("harness:well-formed-output", not bad, str(bad[:3]))
    ctx.oblige("correspondence:model=impl", not mism,
               "model and implementation differ on cases %s; first: ops=%r impl=%r" % (
                   mism[:5], [op_line(clean[mism[0]][0], o) for o in clean[mism[0]][0].ops] if mism else None,
                   lines[cases.index(clean[mism[0]][0])][:600] if mism else None))
    ctx.oblige("correspondence:key-codec-bytes", not kmis, "ser_key/deser_key differ from stored bytes on %s: %s" % (kmis[:5], [kitems[i] for i in kmis[:2]]))
    ctx.oblige("correspondence:counting-limits", not lmis, "compile_counting differs on %s" % [lcases[i] for i in lmis[:5]])
    ctx.oblige("oracle:fact-store", not oracle_fail, str(oracle_fail[:2])[:1500])
    ctx.oblige("oracle:counting-limits", not lim_fail, str(lim_fail[:3]))
