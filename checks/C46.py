"""C46 — IDs round-trip through text and serde."""
import json
import os
import sys

import vlib

ALPHA = b"123456789ABCDEFGHJKLMNPQRSTUVWXYZabcdefghijkmnopqrstuvwxyz"   # the oracle's own table
AIDX = {c: i for i, c in enumerate(ALPHA)}
TWO256 = 1 << 256


def regen_own(ctx):
    """Run this unit's translator plug-in only (coq/gen/GenB58.v, GenText.v)."""
    sys.path.insert(0, os.path.join(vlib.ROOT, "tools"))
    import gen as gen_mod
    gen_mod.load_plugins()
    problems = []
    with vlib.Lock("coq"):
        for g in gen_mod.GENERATORS:
            if g.__module__ != "gen_ids_text":
                continue
            try:
                name, text, probs = g(vlib.REPO)
            except Exception as e:      # structural surprise
                problems.append("%s: %r" % (g.__name__, e))
                continue
            problems += probs
            path = os.path.join(vlib.COQ, "gen", name)
            os.makedirs(os.path.dirname(path), exist_ok=True)
            if not os.path.exists(path) or open(path).read() != text:
                with open(path, "w") as f:
                    f.write(text)
    ctx.oblige("translator:regen", not problems, "; ".join(problems))


# ---------------------------------------------------------------- independent oracle arithmetic

def b58_value(s):
    """Positional base-58 value of a byte string, None when a byte is outside the alphabet."""
    v = 0
    for c in s:
        d = AIDX.get(c)
        if d is None:
            return None
        v = v * 58 + d
    return v


def b58_digits(x, width):
    out = bytearray()
    for _ in range(width):
        out.append(ALPHA[x % 58])
        x //= 58
    assert x == 0
    return bytes(reversed(out))


def b58_min(x):
    out = bytearray()
    while x:
        out.append(ALPHA[x % 58])
        x //= 58
    return bytes(reversed(out))


def varint(n):
    out = bytearray()
    while True:
        if n < 128:
            out.append(n)
            return bytes(out)
        out.append((n & 0x7F) | 0x80)
        n >>= 7


def py_take_varint(buf):
    """(value, rest) for a varint of at most 10 bytes (arbitrary precision), None when it does not end."""
    v = 0
    for i, b in enumerate(buf[:10]):
        v |= (b & 0x7F) << (7 * i)
        if b < 128:
            return v, buf[i + 1:]
    return None


# ---------------------------------------------------------------- case generation

def gen_ids(ctx, r, nrand):
    vals = [0, 1, TWO256 - 1, TWO256 - 2, 1 << 255, (1 << 255) - 1]
    for k in range(0, 44):
        for d in (-1, 0, 1):
            v = 58 ** k + d
            if 0 <= v < TWO256:
                vals.append(v)
    for k in range(1, 5):
        for d in (-1, 0, 1):
            v = (1 << (64 * k)) + d
            if 0 <= v < TWO256:
                vals.append(v)
    for k in range(1, 32):
        vals.append(1 << (8 * k))
        vals.append((1 << (8 * k)) - 1)
    for k in range(1, 5):                      # multiples of 58^10 (encode's chunk radix)
        vals.append(58 ** (10 * k) * r.range(1, 57))
        vals.append(58 ** (10 * k) * r.range(1, 57) + r.below(58 ** 10))
    ids = [v.to_bytes(32, "big") for v in vals]
    for z in range(0, 33):                     # z leading zero bytes, then random
        ids.append(bytes(z) + bytes(r.below(255) + 1 for _ in range(32 - z)))
    for z in range(1, 32):                     # trailing zero bytes
        ids.append(bytes(r.below(256) for _ in range(32 - z)) + bytes(z))
    for _ in range(nrand):
        ids.append(bytes(r.below(256) for _ in range(32)))
    return [("id", b) for b in ids]


def gen_strs(ctx, r, nrand):
    out = [b""]
    out += [bytes([a]) for a in range(256)]
    if ctx.thorough:
        out += [bytes([a, b]) for a in range(256) for b in range(256)]
    else:
        # every first byte with some second byte and every second byte with some first byte, plus a sample
        for a in range(256):
            out.append(bytes([a, r.choice(ALPHA)]))
            out.append(bytes([r.choice(ALPHA), a]))
        for _ in range(1500):
            out.append(bytes([r.below(256), r.below(256)]))
        for a in ALPHA:
            out.append(bytes([a, r.choice(ALPHA)]))
    # values around 2^256 at several widths (leading '1' digits are zeros)
    near = [TWO256 - 1, TWO256, TWO256 + 1, TWO256 - 58, TWO256 + 58, 2 * TWO256, 58 ** 43, 58 ** 43 - 1,
            58 ** 44 - 1, TWO256 // 58, TWO256 * 58, TWO256 * 58 ** 10 - 1]
    for v in near:
        m = b58_min(v)
        for w in (len(m), 44, 45, 50, 60, 100):
            if w >= len(m):
                out.append(b"1" * (w - len(m)) + m)
    for n in (40, 43, 44, 45, 46, 50, 88, 200):
        out.append(b"z" * n)
        out.append(b"1" * n)
        out.append(b"1" * n + b"2")
    # chunk boundaries of the decoder (10 characters per chunk)
    for n in (9, 10, 11, 19, 20, 21, 29, 30, 31, 39, 40, 41, 43, 44):
        s = bytes(r.choice(ALPHA) for _ in range(n))
        out.append(s)
        out.append(b"1" * (44 - n) + s)
        for bad in (b"0", b"O", b"I", b"l", b" ", b"\x00", b"\x7f", b"\xc3\xa9", b"\xff"):
            pos = r.below(n + 1)
            out.append(s[:pos] + bad + s[pos:])
            if n >= 1:
                pos = r.below(n)
                out.append(s[:pos] + bad + s[pos + 1:])
    for _ in range(nrand):
        kind = r.below(6)
        if kind == 0:      # canonical text of a random id
            s = b58_digits(r.below(TWO256), 44)
        elif kind == 1:    # random alphabet text of random length
            s = bytes(r.choice(ALPHA) for _ in range(r.choice([3, 5, 10, 20, 30, 42, 43, 44, 44, 45, 46, 60])))
        elif kind == 2:    # canonical text with one character replaced by an arbitrary byte
            s = bytearray(b58_digits(r.below(TWO256), 44))
            s[r.below(44)] = r.below(256)
            s = bytes(s)
        elif kind == 3:    # canonical text truncated / extended
            s = b58_digits(r.below(TWO256), 44)
            s = r.choice([s[1:], s[:-1], s + bytes([r.choice(ALPHA)]), b"1" + s, s + s, s[:r.below(44)]])
        elif kind == 4:    # 44..46 digits with a large leading digit: mostly overflow
            s = bytes([r.choice(ALPHA[5:])]) + bytes(r.choice(ALPHA) for _ in range(r.choice([43, 44, 45])))
        else:              # arbitrary bytes
            s = bytes(r.below(256) for _ in range(r.choice([3, 4, 8, 44])))
        out.append(s)
    return [("str", s) for s in out]


def gen_pcs(ctx, r, nrand):
    out = []
    for n in list(range(0, 40)) + [63, 64, 127, 128, 129, 255, 256, 300]:
        body = bytes(r.below(256) for _ in range(n))
        out.append(varint(n) + body)                       # exact
        out.append(varint(n) + body + b"\xaa\xbb")          # trailing bytes
        if n:
            out.append(varint(n) + body[:-1])               # one byte short
    body = bytes(r.below(256) for _ in range(32))
    out += [b"", b"\x20", b"\x80", b"\xa0\x00" + body, b"\xa0\x80\x00" + body,          # over-long varints for 32
            b"\xa0\x80\x80\x80\x80\x80\x80\x80\x80\x00" + body,
            b"\xa0\x80\x80\x80\x80\x80\x80\x80\x80\x01" + body,
            b"\xa0\x80\x80\x80\x80\x80\x80\x80\x80\x02" + body,
            b"\xa0\x80\x80\x80\x80\x80\x80\x80\x80\x80\x00" + body,
            b"\xff" * 9 + b"\x01", b"\xff" * 9 + b"\x02", b"\xff" * 10, b"\xff" * 11,
            b"\x80" * 9 + b"\x01" + body, b"\x20" + body * 3]
    for _ in range(nrand):
        k = r.below(4)
        if k == 0:
            out.append(b"\x20" + bytes(r.below(256) for _ in range(32)) + bytes(r.below(256) for _ in range(r.below(4))))
        elif k == 1:
            n = r.choice([0, 1, 16, 31, 33, 64])
            out.append(varint(n) + bytes(r.below(256) for _ in range(n)))
        elif k == 2:
            out.append(bytes(r.below(256) for _ in range(r.below(40))))
        else:
            pre = bytes((r.below(128) | 0x80) for _ in range(r.below(11))) + bytes([r.below(128)])
            out.append(pre + bytes(r.below(256) for _ in range(r.choice([0, 31, 32, 33]))))
    return [("pc", b) for b in out]


def gen_probes(ctx, r, nrand):
    out = []
    for n in list(range(0, 36)) + [64, 100]:
        body = bytes(r.below(256) for _ in range(n))
        out.append(("probe", (0, "b", body)))
        out.append(("probe", (0, "q", body)))
        out.append(("probe", (1, "b", body)))       # bytes offered to the human-readable visitor: type error
        out.append(("probe", (1, "q", body)))
    for s in (b"", b"1", b"5Q", b58_digits(12345, 44), b"0", b"zzzz" * 12):
        out.append(("probe", (0, "s", s)))          # str offered to the binary visitor: type error
        out.append(("probe", (1, "s", s)))
    out.append(("probe", (0, "u", b"")))
    out.append(("probe", (1, "u", b"")))
    for _ in range(nrand):
        n = r.choice([31, 32, 32, 33, 0, 8])
        out.append(("probe", (0, r.choice(["b", "q"]), bytes(r.below(256) for _ in range(n)))))
    # raw JSON documents: strings go to visit_str, every other JSON type is a type error
    txt = b58_digits(r.below(TWO256), 44).decode()
    docs = ['"%s"' % txt, '"5Q"', '""', '"0"', "null", "true", "0", "-1", "1.5", "[]", "[1,2]", "{}", '{"a":1}',
            '"\\u0031\\u0032"', '[%s]' % ",".join(["0"] * 32), ' "%s" ' % txt]
    for d in docs:
        out.append(("json", d.encode()))
    return out


def case_line(c):
    kind, a = c
    if kind == "probe":
        hr, k, b = a
        return "probe %d %s %s" % (hr, k, b.hex() or "-")
    return "%s %s" % (kind, a.hex() or "-")


def parse_out(line):
    parts = line.split()
    return parts[0], dict(p.split("=", 1) for p in parts[1:])


# ---------------------------------------------------------------- the property's oracle (on implementation output)

def want_text(res, s):
    """`parsing text either fails cleanly or yields the id it encodes`; res is ok:<hex> / err:bad / …"""
    if res == "err:bad":
        return None
    if not res.startswith("ok:"):
        return "text parse did not fail cleanly: %s" % res
    v = b58_value(s)
    if v is None:
        return "text with a non-alphabet byte was accepted"
    if v >= TWO256:
        return "text whose value does not fit 32 bytes was accepted"
    if bytes.fromhex(res[3:]) != v.to_bytes(32, "big"):
        return "parsed id is not the id the text encodes"
    return None


def oracle(c, kind, o):
    k, a = c
    if kind != k:
        return "runner answered %s for a %s case" % (kind, k)
    if any(v == "panic" for v in o.values()):
        return "panic"
    if k == "id":
        okid = "ok:" + a.hex()
        try:
            disp = bytes.fromhex(o["disp"])
        except ValueError:
            return "Display failed"
        if b58_value(disp) != int.from_bytes(a, "big"):
            return "Display is not a base58 numeral of the id"
        if o["rt"] != okid or o["dec"] != okid:
            return "Display text does not parse back to the id (%s / %s)" % (o["rt"], o["dec"])
        if o["jrt"] != okid:
            return "serde_json round trip: %s" % o["jrt"]
        if o["prt"] != okid:
            return "postcard round trip: %s" % o["prt"]
        if not o["tagged"].endswith(":1:1"):
            return "round trip of a differently tagged id fails: %s" % o["tagged"]
        # (the exact serialised forms — quotes + text, 0x20 + bytes — are compared with the model, not judged here)
        return None
    if k == "str":
        w = want_text(o["dec"], a)
        if w:
            return w
        try:
            a.decode("utf-8")
            utf8 = True
        except UnicodeDecodeError:
            utf8 = False
        if not utf8:
            return None if (o["fs"], o["probe"], o["js"]) == ("na", "na", "na") else "runner confused about UTF-8"
        w = want_text(o["fs"], a)
        if w:
            return "FromStr: " + w
        if o["fs"] != o["dec"]:
            return "FromStr and decode disagree"
        for key in ("probe", "js"):
            if o["dec"].startswith("ok:"):
                if o[key] != o["dec"]:
                    return "human-readable deserialisation differs from FromStr: %s" % o[key]
            elif o[key].startswith("ok:"):
                return "human-readable deserialisation accepted text that FromStr rejects"
            elif o[key] == "err:custom":
                return "internal Bug error surfaced through serde"
        return None
    if k == "pc":
        res = o["pc"]
        tv = py_take_varint(a)
        canonical = tv is not None and tv[0] == 32 and len(tv[1]) >= 32
        if res.startswith("ok:"):
            if not canonical:
                return "postcard input with a length other than 32 was accepted"
            if bytes.fromhex(res[3:]) != tv[1][:32]:
                return "postcard deserialisation returned other bytes than the payload"
        elif a[:1] == b"\x20" and len(a) >= 33:
            return "well-formed binary id rejected: %s" % res
        return None
    if k == "probe":
        hr, pk, b = a
        res = o["probe"]
        if hr == 0 and pk == "b":
            good = "ok:" + b.hex() if len(b) == 32 else None
            if len(b) == 32 and res != good:
                return "32 raw bytes not accepted as themselves"
            if len(b) != 32 and res.startswith("ok:"):
                return "byte string of length %d accepted as an id" % len(b)
            return None
        if hr == 0 and pk == "q":
            if len(b) < 32 and res.startswith("ok:"):
                return "sequence of %d bytes accepted as an id" % len(b)
            if len(b) >= 32 and res != "ok:" + b[:32].hex():
                return "sequence of 32 bytes not accepted as itself"
            return None
        if hr == 1 and pk == "s":
            return want_text(res if not res.startswith("err:value") else "err:bad", b)
        return "payload of the wrong kind was accepted" if res.startswith("ok:") else None
    if k == "json":
        res = o["json"]
        try:
            doc = json.loads(a.decode())
        except Exception:
            return None
        if isinstance(doc, str):
            return want_text(res if res != "err:value" else "err:bad", doc.encode())
        return "a JSON %s was accepted as an id" % type(doc).__name__ if res.startswith("ok:") else None
    return "unknown case kind"


# ---------------------------------------------------------------- model side (Coq terms)

HEADER = """From Aranya Require Import base.Tactics base.Harness gen.GenB58 model.B58.
Open Scope N_scope.
Definition res_eqb (a b : res (list N)) : bool :=
  match a, b with
  | Ok x, Ok y => lN_eqb x y | Err BadInput, Err BadInput => true | Err Bug, Err Bug => true | _, _ => false end.
Definition dres_eqb (a b : dres) : bool :=
  match a, b with
  | DOk x, DOk y => lN_eqb x y
  | DErr InvalidValue, DErr InvalidValue => true | DErr Custom, DErr Custom => true
  | DErr InvalidType, DErr InvalidType => true | DErr (InvalidLength n), DErr (InvalidLength m) => N.eqb n m
  | _, _ => false end.
Definition pcres_eqb (a b : pcres) : bool :=
  match a, b with
  | PcOk x, PcOk y => lN_eqb x y
  | PcErr PcEnd, PcErr PcEnd => true | PcErr PcBadVarint, PcErr PcBadVarint => true
  | PcErr PcCustom, PcErr PcCustom => true | _, _ => false end.
Definition eres_eqb (a b : eres (list N)) : bool :=
  match a, b with EOk x, EOk y => lN_eqb x y | EPanic, EPanic => true | _, _ => false end.
(* serde_json only adds the quotes: the alphabet needs no escapes *)
Definition json_of (p : eres payload) : eres (list N) :=
  match p with EOk (PStr s) => EOk (34 :: s ++ [34]) | EOk _ => EPanic | EPanic => EPanic | EFuel => EFuel end.
Definition chk_id (c : list N * (eres (list N) * res (list N) * res (list N)) * (eres (list N) * dres) * (eres (list N) * pcres)) : bool :=
  let '(b, (disp, rt, dec), (js, jrt), (pc, prt)) := c in
  let dm := id_to_base58 b in
  eres_eqb dm disp
  && match dm with
     | EOk s => res_eqb (id_from_str s) rt && res_eqb (id_decode s) dec
                && dres_eqb (id_deserialize true (PStr s)) jrt
     | _ => false end
  && eres_eqb (json_of (id_serialize true b)) js
  && eres_eqb (pc_serialize b) pc
  && match pc_serialize b with EOk buf => pcres_eqb (pc_deserialize buf) prt | _ => false end.
Definition chk_str (c : list N * res (list N) * option (res (list N) * dres * dres)) : bool :=
  let '(s, dec, u) := c in
  res_eqb (id_decode s) dec
  && match u with
     | None => true
     | Some (fs, pr, js) => res_eqb (id_from_str s) fs && dres_eqb (id_deserialize true (PStr s)) pr
                            && dres_eqb (id_deserialize true (PStr s)) js
     end.
Definition chk_pc (c : list N * pcres) : bool := pcres_eqb (pc_deserialize (fst c)) (snd c).
Definition chk_probe (c : bool * payload * dres) : bool :=
  let '(hr, p, r) := c in dres_eqb (id_deserialize hr p) r.
"""


def t_res(s):
    if s.startswith("ok:"):
        return "(Ok %s)" % vlib.coq_bytes(bytes.fromhex(s[3:]))
    return {"err:bad": "(Err BadInput)"}.get(s, "(Err Bug)")        # the model never returns Bug: anything else mismatches


def t_dres(s):
    if s.startswith("ok:"):
        return "(DOk %s)" % vlib.coq_bytes(bytes.fromhex(s[3:]))
    if s.startswith("err:len:"):
        return "(DErr (InvalidLength %d))" % int(s[8:])
    return {"err:value": "(DErr InvalidValue)", "err:type": "(DErr InvalidType)"}.get(s, "(DErr Custom)")


def t_pcres(s):
    if s.startswith("ok:"):
        return "(PcOk %s)" % vlib.coq_bytes(bytes.fromhex(s[3:]))
    return {"err:end": "(PcErr PcEnd)", "err:varint": "(PcErr PcBadVarint)", "err:custom": "(PcErr PcCustom)"}.get(
        s, "(PcOk [999])")


def t_eres(hexs):
    try:
        return "(EOk %s)" % vlib.coq_bytes(bytes.fromhex(hexs))
    except ValueError:
        return "EPanic"


def term(c, o):
    k, a = c
    if k == "id":
        return "(%s, (%s, %s, %s), (%s, %s), (%s, %s))" % (
            vlib.coq_bytes(a), t_eres(o["disp"]), t_res(o["rt"]), t_res(o["dec"]),
            t_eres(o["json"]), t_dres(o["jrt"]), t_eres(o["pc"]), t_pcres(o["prt"]))
    if k == "str":
        u = "None" if o["fs"] == "na" else "(Some (%s, %s, %s))" % (t_res(o["fs"]), t_dres(o["probe"]), t_dres(o["js"]))
        return "(%s, %s, %s)" % (vlib.coq_bytes(a), t_res(o["dec"]), u)
    if k == "pc":
        return "(%s, %s)" % (vlib.coq_bytes(a), t_pcres(o["pc"]))
    if k == "probe":
        hr, pk, b = a
        p = {"s": "(PStr %s)", "b": "(PBytes %s)", "q": "(PSeq %s)"}.get(pk)
        p = p % vlib.coq_bytes(b) if p else "POther"
        return "(%s, %s, %s)" % ("true" if hr else "false", p, t_dres(o["probe"]))
    if k == "json":
        doc = json.loads(a.decode())
        p = "(PStr %s)" % vlib.coq_bytes(doc.encode()) if isinstance(doc, str) else "POther"
        return "(true, %s, %s)" % (p, t_dres(o["json"]))


TYPES = {
    "id": ("chk_id", "list N * (eres (list N) * res (list N) * res (list N)) * (eres (list N) * dres) * (eres (list N) * pcres)"),
    "str": ("chk_str", "list N * res (list N) * option (res (list N) * dres * dres)"),
    "pc": ("chk_pc", "list N * pcres"),
    "probe": ("chk_probe", "bool * payload * dres"),
}


def model_compare(ctx, group, idxs, cases, outs):
    """Evaluate the model on the cases of one kind inside Coq; returns the global indices that mismatch."""
    chk, ty = TYPES[group]

    def render(chunk):
        return ("Definition cases : list (%s) := %s.\nEval vm_compute in (mismatches %s cases).\n"
                % (ty, vlib.coq_list([term(cases[i], outs[i][1]) for i in chunk]), chk))
    # at most four coqc processes at a time, and no list literal longer than 2500 entries
    shard = min(2500, max(200, -(-len(idxs) // 4)))
    mism = []
    for b, start in enumerate(range(0, len(idxs), 4 * shard)):
        batch = idxs[start:start + 4 * shard]
        res, chunks = vlib.coq_eval_sharded(ctx, "c46_%s_%d" % (group, b), HEADER, batch, render, shard=shard)
        for (rc, o), ch in zip(res, chunks):
            v = vlib.parse_coq_value(o) if rc == 0 else None
            if v is None:
                ctx.oblige("correspondence:model-eval:" + group, False, o[-2000:])
                return None
            mism += [ch[j] for j in v]
    return mism


def run(ctx):
    regen_own(ctx)
    vlib.prove(ctx)
    binp = vlib.cargo_build(ctx, "hx-ids-text", bin="c46")
    if not binp:
        return
    r = ctx.rng
    if ctx.replay_in:
        rp = json.load(open(ctx.replay_in))
        cases = []
        for ln in rp.get("case_lines", []):
            p = ln.split()
            arg = lambda x: bytes.fromhex("" if x == "-" else x)
            cases.append(("probe", (int(p[1]), p[2], arg(p[3]))) if p[0] == "probe" else (p[0], arg(p[1])))
    else:
        t = 6 if ctx.thorough else 1
        cases = (gen_ids(ctx, r.fork(), 400 * t) + gen_strs(ctx, r.fork(), 1500 * t)
                 + gen_pcs(ctx, r.fork(), 300 * t) + gen_probes(ctx, r.fork(), 200 * t))
    inp = "".join(case_line(c) + "\n" for c in cases)
    rc, out, err = vlib.run_bin(binp, input=inp)
    lines = out.splitlines()
    if rc != 0 or len(lines) != len(cases):
        ctx.oblige("harness:run", False, (out[-1000:] + err[-2000:]))
        return
    outs = [parse_out(l) for l in lines]
    ctx.log("implementation ran %d cases" % len(cases))

    # the property's oracle on the implementation's own output
    bad = []
    for i, (c, (kind, o)) in enumerate(zip(cases, outs)):
        why = oracle(c, kind, o)
        if why:
            bad.append((i, why))
    # the model on the same cases, compared inside Coq
    mism = []
    evaluated = 0
    for group in ("id", "str", "pc", "probe"):
        idxs = [i for i, c in enumerate(cases) if (c[0] == group or (group == "probe" and c[0] == "json"))]
        if not idxs:
            continue
        m = model_compare(ctx, group, idxs, cases, outs)
        if m is None:
            return
        evaluated += len(idxs)
        mism += m
    ctx.log("model evaluated on %d cases, %d mismatches, %d oracle failures" % (evaluated, len(mism), len(bad)))

    def accepted(i):
        o = outs[i][1]
        return any(v.startswith("ok:") for k, v in o.items() if k in ("dec", "pc", "probe", "json", "rt"))
    strs = [i for i, c in enumerate(cases) if c[0] == "str"]
    dist = {
        "id_cases": sum(1 for c in cases if c[0] == "id"),
        "str_cases": len(strs),
        "str_accepted": sum(1 for i in strs if accepted(i)),
        "str_rejected_bad_char": sum(1 for i in strs if not accepted(i) and b58_value(cases[i][1]) is None),
        "str_rejected_overflow": sum(1 for i in strs if not accepted(i) and b58_value(cases[i][1]) is not None),
        "str_not_utf8": sum(1 for i in strs if outs[i][1]["fs"] == "na"),
        "str_len_le_2": sum(1 for i in strs if len(cases[i][1]) <= 2),
        "str_len_44": sum(1 for i in strs if len(cases[i][1]) == 44),
        "str_len_other_than_44_accepted": sum(1 for i in strs if accepted(i) and len(cases[i][1]) != 44),
        "postcard_cases": sum(1 for c in cases if c[0] == "pc"),
        "postcard_accepted": sum(1 for i, c in enumerate(cases) if c[0] == "pc" and accepted(i)),
        "postcard_err_kinds": {k: sum(1 for i, c in enumerate(cases) if c[0] == "pc" and outs[i][1]["pc"] == k)
                               for k in ("err:end", "err:varint", "err:custom")},
        "probe_cases": sum(1 for c in cases if c[0] == "probe"),
        "probe_wrong_length_rejected": sum(1 for i, c in enumerate(cases) if c[0] == "probe"
                                           and outs[i][1]["probe"].startswith("err:len")),
        "probe_type_errors": sum(1 for i, c in enumerate(cases) if c[0] == "probe" and outs[i][1]["probe"] == "err:type"),
        "json_documents": sum(1 for c in cases if c[0] == "json"),
    }
    ctx.coverage.update({
        "traces_validated_against_impl": len(cases),
        "evaluations": evaluated,
        "distinct_nontrivial": len({case_line(c) for c in cases
                                    if not (c[0] == "id" and c[1] == bytes(32)) and case_line(c).split()[-1] != "-"}),
        "rule": "case = one of: 32-byte id (Display/FromStr/decode/serde_json/postcard round trips, plus a second tag type); "
                "byte string given to decode/FromStr/human-readable Deserialize/serde_json; postcard buffer; "
                "(is_human_readable, payload kind, bytes) given to Id::deserialize through a probe deserializer; raw JSON document. "
                "non-trivial = not the all-zero id and not the empty string; distinct by the full case line",
        "distribution": dist,
        "samples": [{"case": case_line(cases[i]), "impl": outs[i][1]} for i in
                    ([0, len(cases) // 3, len(cases) // 2, len(cases) - 1] if cases else [])],
    })
    ctx.assumptions += [
        "u64 arithmetic of spideroak-base58 (wrapping_*, <<, >>, overflowing_*) is modelled as integer arithmetic modulo 2^64",
        "serde formats are modelled as: serde_json = quotes around the base58 text / JSON type dispatch; "
        "postcard = varint length + bytes; both tied by the correspondence run only",
        "the id is 32 bytes and text is a byte string (a Rust &str is valid UTF-8 by construction)",
    ]
    for (i, why) in bad[:3]:
        ctx.violation("aranya_id::Id violates C46: " + why,
                      {"case_lines": [case_line(cases[i])], "impl": outs[i][1],
                       "contradicts": "id_text_roundtrip / id_parse_sound / serde_roundtrip / serde_reject (coq/props/C46.v)",
                       "replay_cmd": "echo '%s' | build/target/debug/c46" % case_line(cases[i])})
    ctx.oblige("correspondence:model=impl", not mism,
               "model and implementation differ on %d cases, e.g. %s" % (
                   len(mism), [(case_line(cases[i])[:160], outs[i][1]) for i in mism[:3]]))
    ctx.oblige("oracle:property-on-impl-output", not bad, str([(case_line(cases[i])[:160], w) for i, w in bad[:3]]))
