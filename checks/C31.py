"""C31 — the policy compiler CLI honours validation.

proof:           coq/props/C31.v over the skeleton regenerated from main.rs / validate.rs (gen/GenCli.v)
correspondence:  the real policy-compiler binary (main.rs compiled unmodified) is spawned on generated
                 policy documents x flag combinations; exit status and output-file presence are compared,
                 inside Coq, with `Cli.cli` fed the library's own parse/compile results and the per-label
                 trace results; `Cli.validate` is compared with the real `validate` (also on damaged
                 modules, which is the only way to reach a tracer error)
oracle:          the property text, evaluated on what the binary did, with "passes validation" taken from
                 the tracer directly (never from the boolean `validate` returns)
"""
import json
import os
import shutil
import subprocess
from concurrent.futures import ThreadPoolExecutor

import vlib

FRONT = "---\npolicy-version: 2\n---\n"


# ---------------------------------------------------------------- policy document generator

class Doc:
    """One generated policy.  `defect` names what was planted (None = meant to be valid); the verdict
    classes used by the oracle are NOT taken from here but from the library / tracer."""

    def __init__(self, r, defect=None):
        self.r = r
        self.defect = defect
        self.planted = False
        self.n_let = 0
        self.structs, self.enums, self.cmds, self.effects, self.facts = [], [], [], [], []
        self.funcs, self.globals = [], []
        self.items = []

    # -- expressions
    def int_expr(self, env, depth=0, calls=True):
        r = self.r
        k = r.below(8 if depth < 2 else 3)
        ints = [v for v, t in env if t == "int"]
        if k == 0 or not ints and k in (1, 2):
            return str(r.choice([0, 1, 2, 3, 7, 42, 1000]))
        if k in (1, 2):
            return r.choice(ints)
        if k == 3 and self.globals:
            return r.choice(self.globals)
        if k == 4:
            return "%s(%s, %s)" % (r.choice(["saturating_add", "saturating_sub"]), self.int_expr(env, depth + 1, calls), self.int_expr(env, depth + 1, calls))
        if k == 5 and calls and self.funcs:
            # only the first function (a branch-free leaf) is ever called: the tracer follows calls, and call chains
            # between branchy functions make the number of traced paths explode (minutes per document)
            return "%s(%s, %s)" % (self.funcs[0], self.int_expr(env, depth + 1, False), self.bool_expr(env, depth + 1, False))
        svars = [v for v, t in env if t == "S"]
        if k == 6 and svars:
            return r.choice(svars) + ".a"
        return str(r.below(10))

    def bool_expr(self, env, depth=0, calls=True):
        r = self.r
        k = r.below(7 if depth < 2 else 3)
        bools = [v for v, t in env if t == "bool"]
        if k == 0:
            return r.choice(["true", "false"])
        if k == 1 and bools:
            return r.choice(bools)
        if k in (2, 3):
            return "%s %s %s" % (self.int_expr(env, depth + 1, calls), r.choice([">", "<", "==", ">=", "<=", "!="]), self.int_expr(env, depth + 1, calls))
        if k == 4:
            return "!(%s)" % self.bool_expr(env, depth + 1, calls)
        if k == 5:
            return "(%s) %s (%s)" % (self.bool_expr(env, depth + 1, calls), r.choice(["&&", "||"]), self.bool_expr(env, depth + 1, calls))
        return r.choice(["true", "false"])

    def fresh(self):
        self.n_let += 1
        return "v%d" % self.n_let

    def lets(self, env, ind, calls=True):
        out = []
        for _ in range(self.r.choice([0, 0, 1, 1, 2])):
            v = self.fresh()
            if self.r.chance(1, 3):
                out.append("%slet %s = %s" % (ind, v, self.bool_expr(env, 0, calls)))
                env = env + [(v, "bool")]
            else:
                out.append("%slet %s = %s" % (ind, v, self.int_expr(env, 0, calls)))
                env = env + [(v, "int")]
        return out, env

    # -- a block every path of which ends in `terminal(env)` (a return / a publish)
    def block(self, env, ind, depth, terminal, calls, plant):
        """plant: name of the defect that may be planted in this block (once per document)."""
        r = self.r
        out, env = self.lets(env, ind, calls)
        if plant == "settwice" and not self.planted and (depth >= 1 or r.chance(1, 2)):
            self.planted = True
            v = self.fresh()
            out.append("%sif %s {\n%s    let %s = 1\n%s}" % (ind, self.bool_expr(env, 1, calls), ind, v, ind))
            out.append("%slet %s = 2" % (ind, v))
            env = env + [(v, "int")]
        shape = r.below(6) if depth < 3 else 0
        omit = plant in ("noreturn", "nopublish") and not self.planted and (depth >= 1 or r.chance(1, 2))
        sub = lambda e=env: self.block(e, ind + "    ", depth + 1, terminal, calls, plant)
        if shape in (0, 1):
            if omit:
                self.planted = True
                # the branch that ends here simply lacks its terminal statement
                out.append("%sif %s {\n%s    %s\n%s}" % (ind, self.bool_expr(env, 1, calls), ind, terminal(env), ind))
            else:
                out.append(ind + terminal(env))
        elif shape == 2:
            out.append("%sif %s {\n%s\n%s} else {\n%s\n%s}" % (ind, self.bool_expr(env, 1, calls), sub(), ind, sub(), ind))
        elif shape == 3:
            a = "%sif %s {\n%s\n%s}" % (ind, self.bool_expr(env, 1, calls), sub(), ind)
            if r.chance(1, 2):
                a += " else if %s {\n%s\n%s}" % (self.bool_expr(env, 1, calls), sub(), ind)
            out.append(a)
            if omit:
                self.planted = True
            else:
                out.append(ind + terminal(env))
        elif shape == 4:
            scrut = self.int_expr(env, 1, calls)
            arms = []
            for lit in sorted(set(r.below(6) for _ in range(r.range(1, 3)))):
                arms.append("%s    %d => {\n%s\n%s    }" % (ind, lit, self.block(env, ind + "        ", depth + 1, terminal, calls, plant), ind))
            if omit:
                self.planted = True
                arms.append("%s    _ => { }" % ind)
            else:
                arms.append("%s    _ => {\n%s\n%s    }" % (ind, self.block(env, ind + "        ", depth + 1, terminal, calls, plant), ind))
            out.append("%smatch %s {\n%s\n%s}" % (ind, scrut, "\n".join(arms), ind))
        else:
            bools = self.bool_expr(env, 1, calls)
            out.append("%smatch %s {\n%s    true => {\n%s\n%s    }\n%s    false => {\n%s\n%s    }\n%s}" % (
                ind, bools, ind, self.block(env, ind + "        ", depth + 1, terminal, calls, plant), ind,
                ind, self.block(env, ind + "        ", depth + 1, terminal, calls, plant), ind, ind))
        return "\n".join(out)

    # -- items
    def add_struct(self):
        n = "S%d" % len(self.structs)
        self.structs.append(n)
        self.items.append("struct %s {\n    a int,\n    b string,\n    c bool,\n}" % n)

    def add_enum(self):
        n = "E%d" % len(self.enums)
        self.enums.append(n)
        self.items.append("enum %s { %s }" % (n, ", ".join(self.r.choice([["A", "B"], ["Red", "Green", "Blue"], ["One"]]))))

    def add_global(self):
        n = "G%d" % len(self.globals)
        self.items.append("let %s = %d" % (n, self.r.below(100)))
        self.globals.append(n)

    def add_effect(self):
        n = "Ev%d" % len(self.effects)
        self.effects.append(n)
        self.items.append("effect %s {\n    a int,\n    s string,\n}" % n)

    def add_fact(self):
        n = "F%d" % len(self.facts)
        self.facts.append(n)
        self.items.append("fact %s[k int]=>{v int}" % n)

    def add_function(self, plant=None):
        n = "f%d" % len(self.funcs)
        env = [("n", "int"), ("b", "bool")]
        if not self.funcs and plant is None:
            # the leaf helper
            self.items.append("function %s(n int, b bool) int {\n    return %s\n}" % (n, self.int_expr(env, 1, False)))
            self.funcs.append(n)
            return
        body = self.block(env, "    ", 0, lambda e: "return " + self.int_expr(e, 0, True), True, plant)
        self.items.append("function %s(n int, b bool) int {\n%s\n}" % (n, body))
        self.funcs.append(n)

    def add_command(self, plant=None):
        r = self.r
        n = "C%d" % len(self.cmds)
        env = []
        lets, env2 = self.lets([("this.a", "int")], "        ", True)
        fin = []
        if self.facts and r.chance(1, 2):
            fin.append("create %s[k: %s]=>{v: %s}" % (r.choice(self.facts), self.int_expr(env2, 1), self.int_expr(env2, 1)))
        if self.effects and r.chance(1, 2):
            fin.append("emit %s { a: %s, s: this.s }" % (r.choice(self.effects), self.int_expr(env2, 1)))
        finish = "finish {\n%s\n            }" % "\n".join("                " + f for f in fin) if fin else "finish {}"
        pol = list(lets)
        if plant == "settwice" and not self.planted:
            self.planted = True
            v = self.fresh()
            pol.append("        if %s {\n            let %s = 1\n        }\n        let %s = 2" % (self.bool_expr(env2, 1), v, v))
        k = r.below(3)
        if k == 0:
            pol.append("        " + finish.replace("\n    ", "\n"))
        elif k == 1:
            pol.append("        check %s else recall default()" % self.bool_expr(env2, 1))
            pol.append("        " + finish.replace("\n    ", "\n"))
        else:
            pol.append("        if %s {\n            %s\n        } else {\n            finish {}\n        }" % (self.bool_expr(env2, 1), finish))
        self.items.append(
            "command %s {\n    fields {\n        a int,\n        s string,\n    }\n    seal { return todo() }\n    open { return todo() }\n"
            "    policy {\n%s\n    }\n    recall default() {\n        finish {}\n    }\n}" % (n, "\n".join(pol)))
        self.cmds.append(n)

    def add_action(self, plant=None):
        n = "act%d" % sum(1 for i in self.items if i.startswith("action "))
        if not self.cmds:
            self.add_command()
        env = [("n", "int"), ("b", "bool")]

        def publish(e):
            return "publish %s { a: %s, s: \"%s\" }" % (self.r.choice(self.cmds), self.int_expr(e, 1, False), self.r.choice(["x", "hello", ""]))
        body = self.block(env, "    ", 0, publish, False, plant)
        self.items.append("action %s(n int, b bool) {\n%s\n}" % (n, body))

    def build(self):
        r = self.r
        d = self.defect
        for _ in range(r.range(0, 2)):
            r.choice([self.add_struct, self.add_enum, self.add_global, self.add_effect, self.add_fact])()
        target = {"noreturn": "function", "nopublish": "action", "settwice": r.choice(["function", "action", "command"])}.get(d)
        kinds = [r.choice(["function", "function", "action", "command", "data"]) for _ in range(r.range(1, 5))]
        if target and target not in kinds:
            kinds.insert(r.below(len(kinds) + 1), target)
        targets = [i for i, k in enumerate(kinds) if k == target]
        chosen = r.choice(targets) if targets else -1
        for i, k in enumerate(kinds):
            plant = d if i == chosen else None
            if k == "function":
                self.add_function(plant)
            elif k == "action":
                self.add_action(plant)
            elif k == "command":
                self.add_command(plant)
            else:
                r.choice([self.add_struct, self.add_enum, self.add_global, self.add_effect, self.add_fact])()
        return self

    def text(self, items=None):
        r = self.r
        items = self.items if items is None else items
        # one or several ```policy blocks with prose in between
        chunks, cur = [], []
        for it in items:
            cur.append(it)
            if r.chance(1, 4):
                chunks.append(cur)
                cur = []
        if cur or not chunks:
            chunks.append(cur)
        out = [FRONT, "\n# Generated policy\n"]
        for c in chunks:
            out.append("\nSome prose, with `inline code` and a list:\n\n* item\n\n```policy\n%s\n```\n" % "\n\n".join(c))
        return "".join(out)


COMPILE_BREAKERS = [
    ("wrong_return_type", "function bad0(n int) int {\n    return true\n}"),
    ("undefined_variable", "function bad1(n int) int {\n    return zz9\n}"),
    ("undefined_function", "function bad2(n int) int {\n    return nofn(n)\n}"),
    ("duplicate_function", "function dup(n int) int {\n    return n\n}\n\nfunction dup(n int) int {\n    return 1\n}"),
    ("unknown_command", "action bad4() {\n    publish Nope { a: 1 }\n}"),
    ("redefined_let", "function bad5(n int) int {\n    let x = 1\n    let x = 2\n    return x\n}"),
    ("unknown_struct_type", "function bad6(s struct Nope) int {\n    return 1\n}"),
    ("missing_ffi_module", "function bad7(b bytes) bytes {\n    return crypto::hash(b)\n}"),
    ("infix_arithmetic", "function bad8(n int) int {\n    return n + 1\n}"),
    ("missing_field", "struct P {\n    a int,\n    b int,\n}\n\nfunction bad9() struct P {\n    return P { a: 1 }\n}"),
    ("bool_condition", "function bad10(n int) int {\n    if n {\n        return 1\n    }\n    return 2\n}"),
    ("return_in_action", "action bad11() {\n    return 1\n}"),
]


def break_parse(r, text):
    """a syntactic mutation of a document"""
    k = r.below(10)
    if k == 0:
        return "no_front_matter", text.replace(FRONT, "", 1)
    if k == 1:
        return "bad_version", text.replace("policy-version: 2", "policy-version: %s" % r.choice(["1", "3", "two", "\"\""]), 1)
    if k == 2:
        return "no_code_block", FRONT + "\nOnly prose here.\n"
    toks = [i for i, c in enumerate(text) if c in "{}()" and i > len(FRONT) + 20]
    if k in (3, 4, 5) and toks:
        i = r.choice(toks)
        return "deleted_bracket", text[:i] + text[i + 1:]
    if k == 6:
        for kw in r.shuffle(["function", "return", "publish", "command", "action", "let", "match", "struct"]):
            if kw in text:
                return "misspelt_keyword", text.replace(kw, kw[:-1] + "q" + kw[-1], 1)
    if k == 7:
        i = text.rfind("```")
        return "stray_token", text[:i] + r.choice(["$$\n", "=> =>\n", "function (\n", "}\n", "\"unterminated\n"]) + text[i:]
    if k == 8:
        return "front_matter_not_yaml", text.replace("policy-version: 2", "policy-version: [2", 1)
    i = text.find("```policy") + 10
    return "garbage_item", text[:i] + r.choice(["fnuction f() {}\n", "42\n", "function f( int {\n", "struct {\n}\n"]) + text[i:]


def gen_docs(ctx, n):
    """-> list of (intended_class, detail, text)"""
    r = ctx.rng
    docs = []
    plan = (["valid"] * 6 + ["noreturn"] * 3 + ["nopublish"] * 3 + ["settwice"] * 2 + ["compile"] * 4 + ["parse"] * 4 + ["ffi"] * 1)
    for i in range(n):
        kind = plan[i % len(plan)] if i < 2 * len(plan) else r.choice(plan)
        if kind in ("valid", "noreturn", "nopublish", "settwice"):
            d = Doc(r.fork(), None if kind == "valid" else kind).build()
            docs.append((kind, "planted" if d.planted else "-", d.text()))
        elif kind == "compile":
            d = Doc(r.fork()).build()
            name, item = r.choice(COMPILE_BREAKERS)
            items = list(d.items)
            items.insert(r.below(len(items) + 1), item)
            docs.append(("compile", name, d.text(items)))
        elif kind == "parse":
            d = Doc(r.fork()).build()
            name, t = break_parse(r, d.text())
            docs.append(("parse", name, t))
        else:
            d = Doc(r.fork()).build()
            items = ["use crypto"] + d.items
            if r.chance(1, 2):
                items.append("function ffi_user(b bytes) bytes {\n    return crypto::hash(b)\n}")
            docs.append(("ffi", "use", d.text(items)))
    # fixed corner documents
    docs.append(("valid", "empty_code_block", FRONT + "\n```policy\n```\n"))
    docs.append(("valid", "only_data", FRONT + "\n```policy\nstruct A {\n    a int,\n}\n```\n"))
    docs.append(("parse", "empty_file", ""))
    docs.append(("parse", "non_policy_block_only", FRONT + "\n```rust\nfn main() {}\n```\n"))
    return docs


# ---------------------------------------------------------------- running the tool

def run_cli(binp, work, idx, case):
    """case: dict(doc bytes | None, flags, out: 'explicit'|'default'|'missing_dir'|'devfull'|'is_dir', input: 'ok'|'missing'|'bad_utf8')"""
    d = os.path.join(work, "c%d" % idx)
    if os.path.exists(d):
        shutil.rmtree(d)
    os.makedirs(d)
    inp = os.path.join(d, "policy.md")
    if case["input"] != "missing":
        with open(inp, "wb") as f:
            f.write(case["doc"])
    args = [inp] + list(case["flags"])
    if case["out"] == "default":
        outp = os.path.join(d, "policy.pmod")
    elif case["out"] == "missing_dir":
        outp = os.path.join(d, "no", "such", "dir", "out.pmod")
        args += ["-o", outp]
    elif case["out"] == "is_dir":
        outp = os.path.join(d, "adir")
        os.makedirs(outp)
        args += ["--out", outp]
    elif case["out"] == "devfull":
        outp = "/dev/full"
        args += ["-o", outp]
    else:
        outp = os.path.join(d, "out.pmod")
        args += ["-o", outp]
    try:
        p = subprocess.run([binp] + args, stdout=subprocess.PIPE, stderr=subprocess.PIPE, timeout=60,
                           env={**os.environ, "RUST_BACKTRACE": "0"})
    except subprocess.TimeoutExpired:
        shutil.rmtree(d, ignore_errors=True)
        return None     # the tool did not finish: says nothing about C31; the case is dropped and counted
    if case["out"] == "devfull":
        # the device node always exists; "created" = the tool got as far as writing into it (every write fails with ENOSPC)
        created, size = b"could not write output file" in p.stderr, 0
    elif case["out"] == "is_dir":
        created, size = False, 0                    # a directory is in the way: no output file can appear
    else:
        created = os.path.isfile(outp)
        size = os.path.getsize(outp) if created else 0
    others = [f for f in os.listdir(d) if f not in ("policy.md", os.path.basename(outp), "adir", "no")]
    res = {"exit": p.returncode, "created": created, "written": size > 0, "size": size,
           "stdout": p.stdout.decode("utf-8", "replace")[:600], "stderr": p.stderr.decode("utf-8", "replace")[:300],
           "stray_files": others, "args": args}
    shutil.rmtree(d, ignore_errors=True)
    return res


def lib_results(ctx, binp, reqs):
    """reqs: list of (kind 'D'|'X', stub, doc bytes, mutation|None) -> list of dicts"""
    inp = "".join("%s %d %s%s\n" % (k, 1 if s else 0, doc.hex(), (" " + m) if k == "X" else "") for (k, s, doc, m) in reqs)
    rc, out, err = vlib.run_bin(binp, input=inp)
    lines = [l for l in out.splitlines() if l.startswith("@@ ")]
    if rc != 0 or len(lines) != len(reqs):
        ctx.oblige("harness:run:c31", False, "rc=%s lines=%d/%d %s" % (rc, len(lines), len(reqs), err[-1500:]))
        return None
    res = []
    for l in lines:
        f = l.split()
        tr = [] if f[4] == "-" else f[4].split(",")
        res.append({"parse": f[1], "compile": f[2], "validate": f[3], "traces": tr})
    return res


def coq_trace(t):
    return "TrErr" if t in ("e", "p") else "TrOk %s%%nat" % t


def b(x):
    return "true" if x else "false"


# ---------------------------------------------------------------- the check

def model_fresh(ctx, files):
    """the .vo files the cases files import must have been rebuilt from the current sources (a failed build leaves
    older ones behind, and a comparison against a stale model would be meaningless)"""
    stale = []
    for f in files:
        v, vo = os.path.join(vlib.COQ, f + ".v"), os.path.join(vlib.COQ, f + ".vo")
        if not os.path.exists(vo) or os.path.getmtime(vo) < os.path.getmtime(v):
            stale.append(f)
    if stale:
        ctx.oblige("correspondence:model-eval", False, "the model was not rebuilt from the regenerated sources: %s" % stale)
    return not stale


def regen_own(ctx):
    """Regenerate the coq/gen files of this unit from the tree under test.  Same contract as vlib.regen, but only
    the generators of tools/gen_codec_cli.py are run, so that a problem reported by another unit's generator
    cannot fail (or mask) this property's translator obligation."""
    import sys
    sys.path.insert(0, os.path.join(vlib.ROOT, "tools"))
    import gen as gen_mod
    gen_mod.load_plugins()
    mine = [g for g in gen_mod.GENERATORS if g.__module__ == "gen_codec_cli" and g.__name__ == "gen_cli"]
    problems = [] if mine else ["generator gen_cli not registered"]
    with vlib.Lock("coq"):
        for g in mine:
            try:
                name, text, probs = g(vlib.REPO)
            except Exception as e:
                problems.append("%s: %r" % (g.__name__, e))
                continue
            problems += probs
            path = os.path.join(vlib.COQ, "gen", name)
            os.makedirs(os.path.dirname(path), exist_ok=True)
            if not os.path.exists(path) or open(path).read() != text:
                with open(path, "w") as f:
                    f.write(text)
    ctx.oblige("translator:regen", not problems, "; ".join(problems))
    return not problems


def run(ctx):
    regen_ok = regen_own(ctx)
    proved = vlib.prove(ctx)
    cli = vlib.cargo_build(ctx, "hx-codec-cli", bin="policy-compiler")
    lib = vlib.cargo_build(ctx, "hx-codec-cli", bin="c31")
    if not cli or not lib:
        return
    r = ctx.rng
    work = os.path.join(vlib.BUILD, "cases", "C31", "work-%d" % os.getpid())
    os.makedirs(work, exist_ok=True)

    # ---- cases
    cases = []
    if ctx.replay_in:
        rp = json.load(open(ctx.replay_in))
        for c in rp.get("cases", [rp.get("case")]):
            if c:
                cases.append({"doc": bytes.fromhex(c["doc_hex"]), "flags": c["flags"], "out": c.get("out", "explicit"),
                              "input": c.get("input", "ok"), "intended": c.get("intended", "replay"), "detail": "replay"})
    else:
        docs = gen_docs(ctx, 2400 if ctx.thorough else 140)
        for (kind, detail, text) in docs:
            doc = text.encode()
            combos = [[], ["--no-validate"]]
            extra = r.below(8)
            if kind == "ffi" or extra == 0:
                combos += [["--stub-ffi"], ["--stub-ffi", "-n"]]
            if extra == 1:
                combos.append(["-v"])
            if extra == 2:
                combos.append(["--verbose", "--no-validate"])
            for fl in combos:
                out = "default" if r.chance(1, 6) else "explicit"
                cases.append({"doc": doc, "flags": fl, "out": out, "input": "ok", "intended": kind, "detail": detail})
        # file-system corners: the `expect`s of main
        some = [c for c in cases if c["intended"] in ("valid", "noreturn", "compile")][:60]
        for c in r.shuffle(list(some))[:(24 if ctx.thorough else 8)]:
            cases.append({**c, "out": r.choice(["missing_dir", "is_dir"] + (["devfull"] if os.path.exists("/dev/full") else []))})
        for fl in ([], ["-n"]):
            cases.append({"doc": b"", "flags": fl, "out": "explicit", "input": "missing", "intended": "unreadable", "detail": "missing_input"})
            cases.append({"doc": FRONT.encode() + b"\n```policy\n// \xff\xfe\n```\n", "flags": fl, "out": "explicit", "input": "bad_utf8",
                          "intended": "unreadable", "detail": "input_not_utf8"})

    # ---- implementation: the real binary
    with ThreadPoolExecutor(max_workers=4) as ex:
        impl = list(ex.map(lambda ic: run_cli(cli, work, ic[0], ic[1]), enumerate(cases)))
    shutil.rmtree(work, ignore_errors=True)
    slow = {c["doc"] for c, o in zip(cases, impl) if o is None}
    n_all = len(cases)
    keep = [(c, o) for c, o in zip(cases, impl) if o is not None and c["doc"] not in slow]
    cases, impl = [c for c, _ in keep], [o for _, o in keep]
    ctx.coverage["cases_dropped_because_the_tool_ran_over_60s"] = n_all - len(cases)
    ctx.oblige("machinery:tool-finishes", (n_all - len(cases)) * 50 <= n_all, "%d of %d runs did not finish in 60 s" % (n_all - len(cases), n_all))

    # ---- the library's view of each (stub, doc)
    keys, reqs = {}, []
    for c in cases:
        if c["input"] != "ok":
            continue
        k = ("--stub-ffi" in c["flags"], c["doc"])
        if k not in keys:
            keys[k] = len(reqs)
            reqs.append(("D", k[0], k[1], None))
    # damaged modules, for the validate model only (tracer errors are not reachable from documents)
    xbase = [c["doc"] for c in cases if c["intended"] in ("valid", "noreturn", "nopublish") and c["input"] == "ok"]
    xreqs = []
    for _ in range(min(len(xbase), 400 if ctx.thorough else 60)):
        doc = r.choice(xbase)
        mut = r.choice(["trunc:%d" % r.below(40), "trunc:%d" % r.below(400), "label:%d" % r.choice([0, 1, 5, 10 ** 6, 2 ** 63]),
                        "jump:%d" % r.below(60)])
        xreqs.append(("X", False, doc, mut))
    lres = lib_results(ctx, lib, reqs + xreqs)
    if lres is None:
        return
    dres, xres = lres[:len(reqs)], lres[len(reqs):]

    def world(c):
        """atoms of the model for one case, from the library's results and the way the case was set up"""
        flags = c["flags"]
        w = {"read": c["input"] == "ok", "parse": False, "compile": False, "traces": [],
             "nv": "--no-validate" in flags or "-n" in flags, "stub": "--stub-ffi" in flags,
             "verbose": "-v" in flags or "--verbose" in flags,
             "create": c["out"] in ("explicit", "default", "devfull"), "write": c["out"] != "devfull", "lib": None}
        if c["input"] == "ok":
            l = dres[keys[("--stub-ffi" in flags, c["doc"])]]
            w["lib"] = l
            w["parse"] = l["parse"] == "1"
            w["compile"] = l["compile"] == "1"
            w["traces"] = l["traces"]
        return w

    worlds = [world(c) for c in cases]

    # ---- oracle: the property text on what the binary did
    bad = []
    for i, (c, w, o) in enumerate(zip(cases, worlds, impl)):
        l = w["lib"]
        if l and ("panic" in (l["parse"], l["compile"], l["validate"]) or "p" in l["traces"]):
            bad.append((i, "the library panicked on this document (%s)" % l))
            continue
        passes = all(t == "0" for t in w["traces"])
        good = w["read"] and w["parse"] and w["compile"] and (w["nv"] or passes)
        why = None
        if o["exit"] == 0 and not good:
            why = "exit status 0 although the policy %s" % (
                "could not be read" if not w["read"] else "does not parse" if not w["parse"] else
                "does not compile" if not w["compile"] else "fails validation (traces %s) and --no-validate was not given" % ",".join(w["traces"]))
        elif o["created"] and not good:
            why = "an output file was produced although the policy is not acceptable (exit %d)" % o["exit"]
        elif o["written"] and o["exit"] != 0:
            why = "a module was written but the exit status is %d" % o["exit"]
        elif w["read"] and w["parse"] and w["compile"] and not w["nv"] and not passes and o["exit"] != 1:
            why = "the policy fails validation (traces %s) but the exit status is %d, not failure" % (",".join(w["traces"]), o["exit"])
        elif good and o["exit"] == 1:
            why = "a policy that parses, compiles and %s is refused with exit status 1" % ("needs no validation" if w["nv"] else "passes validation")
        elif good and not w["stub"] and w["create"] and w["write"] and not (o["exit"] == 0 and o["written"]):
            why = "acceptable policy but no module written (exit %d, file %s)" % (o["exit"], o["created"])
        elif w["read"] and not (w["parse"] and w["compile"]) and (o["exit"] != 1 or o["created"]):
            why = "parse/compile error but exit %d, file present: %s" % (o["exit"], o["created"])
        elif o["exit"] not in (0, 1, 101):
            why = "unexpected exit status %d" % o["exit"]
        elif o["stray_files"]:
            why = "unexpected files written: %s" % o["stray_files"]
        if why:
            bad.append((i, why))
    # validate itself: returns true iff some label fails or cannot be traced (independent tracer run)
    vbad = []
    for j, (rq, l) in enumerate(zip(reqs + xreqs, lres)):
        if l["compile"] != "1":
            continue
        exp = "0" if all(t == "0" for t in l["traces"]) else "1"
        if l["validate"] != exp:
            vbad.append((j, "validate returned %s, traces %s" % (l["validate"], ",".join(l["traces"]) or "-")))

    # ---- model = implementation, compared inside Coq
    def render_cli(chunk):
        items = []
        for (w, o) in chunk:
            items.append("((%s, %s, %s, %s, (%s, %s, %s, %s, %s)), (%d, %s, %s))" % (
                b(w["read"]), b(w["parse"]), b(w["compile"]), vlib.coq_list(w["traces"], coq_trace),
                b(w["nv"]), b(w["stub"]), b(w["verbose"]), b(w["create"]), b(w["write"]),
                o["exit"] if 0 <= o["exit"] < 1000 else 999, b(o["created"]), b(o["written"])))
        return ("Definition cases : list ((bool * bool * bool * list trace * (bool * bool * bool * bool * bool)) * (N * bool * bool)) := %s.\n"
                "Definition code (s : status) : N := match s with Exited ExitSuccess => 0 | Exited ExitFailure => 1 | Aborted => 101 | FellOff => 998 end.\n"
                "Definition chk (c : (bool * bool * bool * list trace * (bool * bool * bool * bool * bool)) * (N * bool * bool)) : bool :=\n"
                "  let '((rd, pa, co, ts, (nv, sf, vb, cr, wr)), (ex, fc, fw)) := c in\n"
                "  let o := cli {| w_read_ok := rd; w_parse_ok := pa; w_compile_ok := co; w_traces := ts; w_no_validate := nv;\n"
                "                  w_stub_ffi := sf; w_verbose := vb; w_create_ok := cr; w_write_ok := wr |} in\n"
                "  N.eqb (code (st o)) ex && Bool.eqb (created o) fc && Bool.eqb (written o) fw.\n"
                "Eval vm_compute in (mismatches chk cases).\n" % vlib.coq_list(items))

    def render_val(chunk):
        items = ["(%s, %s)" % (vlib.coq_list(l["traces"], coq_trace), b(l["validate"] == "1")) for l in chunk]
        return ("Definition cases : list (list trace * bool) := %s.\n"
                "Definition chk (c : list trace * bool) : bool := Bool.eqb (validate (fst c)) (snd c).\n"
                "Eval vm_compute in (mismatches chk cases).\n" % vlib.coq_list(items))

    header = "From Aranya Require Import base.Tactics base.Harness model.CliSyntax gen.GenCli model.Cli.\nOpen Scope N_scope.\n"

    def evaluate(name, items, render):
        outs, chunks = vlib.coq_eval_sharded(ctx, name, header, items, render, shard=300)
        mism, base = [], 0
        for (rc, o), ch in zip(outs, chunks):
            v = vlib.parse_coq_value(o) if rc == 0 else None
            if v is None:
                ctx.oblige("correspondence:model-eval:" + name, False, o[-2000:])
                return None
            mism += [base + j for j in v]
            base += len(ch)
        return mism

    fresh = model_fresh(ctx, ["model/CliSyntax", "gen/GenCli", "model/Cli"])
    mism = evaluate("c31cli", list(zip(worlds, impl)), render_cli) if fresh else None
    vitems = [l for l in lres if l["compile"] == "1" and l["validate"] in ("0", "1")]
    vmism = evaluate("c31val", vitems, render_val) if fresh else None

    # ---- coverage (measured)
    def verdict(w):
        if not w["read"]:
            return "unreadable"
        if not w["parse"]:
            return "parse_error"
        if not w["compile"]:
            return "compile_error"
        return "validates" if all(t == "0" for t in w["traces"]) else "fails_validation"
    dist = {}
    for c, w, o in zip(cases, worlds, impl):
        k = "%s|%s%s -> exit %d%s" % (verdict(w), "no-validate" if w["nv"] else "default", "+stub" if w["stub"] else "",
                                       o["exit"], " +file" if o["created"] else "")
        dist[k] = dist.get(k, 0) + 1
    fail_kinds = {}
    for c, w, o in zip(cases, worlds, impl):
        if verdict(w) == "fails_validation" and not w["nv"]:
            for m in ("no return", "no publish", "is set twice", "is not set", "Exit without Finish"):
                if m in o["stdout"]:
                    fail_kinds[m] = fail_kinds.get(m, 0) + 1
    intended = {}
    for c, w in zip(cases, worlds):
        k = "%s/%s -> %s" % (c["intended"], c["detail"], verdict(w))
        intended[k] = intended.get(k, 0) + 1
    compiled_docs = {c["doc"] for c, w in zip(cases, worlds) if w["compile"]}
    ctx.coverage.update({
        "traces_validated_against_impl": len(cases),
        "evaluations": len(cases) + len(vitems),
        "distinct_nontrivial": len(compiled_docs),
        "rule": "case = (policy document, flags, output path kind) run through the real binary; non-trivial = the document "
                "parses and compiles, i.e. the run reaches the validation decision; distinct by document bytes. "
                "validate-model cases = every compiled module plus modules damaged after compilation (truncated program memory, "
                "out-of-range label, unresolved jump) so that tracer errors occur",
        "distribution": {"verdict|flags -> observed": dist, "validation_failure_messages_seen": fail_kinds,
                         "validate_cases": len(vitems),
                         "validate_cases_with_tracer_error": sum(1 for l in vitems if "e" in l["traces"]),
                         "validate_cases_failure_then_error": sum(1 for l in vitems if "e" in l["traces"] and any(t not in ("0", "e") for t in l["traces"][:l["traces"].index("e")])),
                         "labels_per_module_max": max([len(l["traces"]) for l in vitems] or [0]),
                         "generator_intent -> library_verdict": intended},
        "samples": [{"flags": c["flags"], "intended": c["intended"], "lib": w["lib"], "exit": o["exit"], "file": o["created"],
                     "doc_head": c["doc"][:160].decode("utf-8", "replace")} for c, w, o in list(zip(cases, worlds, impl))[:3]],
    })
    ctx.assumptions += [
        "the tracer (TraceAnalyzer and the four analyzers) is taken as the definition of 'passes validation': every label traced to completion with no TraceFailure",
        "parse_policy_document / Compiler::compile are deterministic functions of the document and --stub-ffi (the binary and the library runner are separate processes)",
    ]
    ctx.trusted = vlib.default_trusted() + [
        "tools/gen_codec_cli.py: reader of main.rs / validate.rs (statement shapes it does not know are reported as problems and rendered as ill-typed terms)",
        "harness/hx-codec-cli/src/bin/policy-compiler.rs includes the tree's main.rs through #[path] and is linked with the same crate versions (Cargo.lock copied from the repository)",
    ]

    # ---- verdicts
    # report the most damaging kinds first, one replay per distinct kind
    rank = ["exit status 0 although", "an output file was produced", "a module was written", "fails validation", "refused", "no module written"]
    bad_sorted = sorted(bad, key=lambda x: (min([k for k, p in enumerate(rank) if p in x[1]] or [len(rank)]), x[0]))
    seen_kinds, report = set(), []
    for (i, why) in bad_sorted:
        kind = min([k for k, p in enumerate(rank) if p in why] or [len(rank)])
        if kind not in seen_kinds:
            seen_kinds.add(kind)
            report.append((i, why))
    for (i, why) in report[:3]:
        c, w, o = cases[i], worlds[i], impl[i]
        ctx.violation("policy-compiler: " + why, {
            "case": {"doc_hex": c["doc"].hex(), "flags": c["flags"], "out": c["out"], "input": c["input"], "intended": c["intended"]},
            "document": c["doc"].decode("utf-8", "replace"),
            "impl": {k: o[k] for k in ("exit", "created", "written", "size", "stdout", "stderr")},
            "library": w["lib"],
            "contradicts": "cli_decision / cli_accepts / cli_rejects (coq/props/C31.v)",
            "replay_cmd": "save `document` as p.md; build/target/debug/policy-compiler p.md -o out.pmod %s; echo $?; ls out.pmod" % " ".join(c["flags"])})
    for (j, why) in vbad[:2]:
        rq = (reqs + xreqs)[j]
        ctx.violation("validate: " + why, {
            "case": {"doc_hex": rq[2].hex(), "flags": [], "module_damage": rq[3]},
            "document": rq[2].decode("utf-8", "replace"), "library": lres[j],
            "contradicts": "validate_returns_failed (coq/props/C31.v)",
            "replay_cmd": "echo '%s %d <doc_hex> %s' | build/target/debug/c31" % (rq[0], 1 if rq[1] else 0, rq[3] or "")})
    ctx.oblige("oracle:cli-honours-validation", not bad, str(bad[:3]))
    ctx.oblige("oracle:validate-returns-failed", not vbad, str(vbad[:3]))
    if mism is not None:
        ctx.oblige("correspondence:cli-model=binary", not mism,
                   "model and binary differ on cases %s; first: flags %r intended %s lib %r -> exit %s file %s" % (
                       mism[:5], cases[mism[0]]["flags"] if mism else None, cases[mism[0]]["intended"] if mism else None,
                       worlds[mism[0]]["lib"] if mism else None, impl[mism[0]]["exit"] if mism else None,
                       impl[mism[0]]["created"] if mism else None))
    if vmism is not None:
        ctx.oblige("correspondence:validate-model=validate", not vmism,
                   "Cli.validate and validate() differ on %s; first: %r" % (vmism[:5], vitems[vmism[0]] if vmism else None))
    if not ctx.replay_in:
        # the generator must really reach every class it is meant to reach (measured, not assumed)
        verdicts = {verdict(w) for w in worlds}
        need = {"unreadable", "parse_error", "compile_error", "validates", "fails_validation"}
        ctx.oblige("coverage:all-verdict-classes-reached", need <= verdicts, "missing: %s" % sorted(need - verdicts))
        ctx.oblige("coverage:failure-kinds", len(fail_kinds) >= 3, "validation failure messages seen: %s" % fail_kinds)
        ctx.oblige("coverage:tracer-error-reached", any("e" in l["traces"] for l in vitems), "no damaged module produced a tracer error")
