"""C28 — compiled modules are deterministic and survive serialization.

Part 1 (unit vm; coq/props/C28.v, proofs/VmModuleProofs.v): loading (Machine::from_module) is
characterised for every module on the full VM model, is the identity on what it produces, and any
module that round-trips through an encoder/decoder pair loads into the identical machine, hence gives
identical runs.  Correspondence (harness/hx-vm, bin c28): real Modules - compiled by the real compiler
from generated policies, and hand-built hostile ones with duplicated / unsorted definition vectors -
are encoded and decoded through ciborium (the policy-compiler's output format) and rkyv, reloaded and
run, in two separate processes (different hash seeds); the reloaded machine's behaviour is compared
with the model of from_module + run inside Coq.
Part 2 (unit frontend; checks/frontend_c28.py): determinism of compilation (hash-collection ledger)
and faithfulness of loading, run at the end of this check.
"""
import importlib.util
import os
import sys

import vlib

_spec = importlib.util.spec_from_file_location("check_C25_lib", os.path.join(vlib.ROOT, "checks", "C25.py"))
c25 = importlib.util.module_from_spec(_spec)
_spec.loader.exec_module(c25)


def narrow_usize(case):
    """rkyv archives usize as u32 (its default pointer width): operands of hand-built modules are kept below
    2^32, as every compiled module's are (they are instruction addresses, FFI indexes and field counts)."""
    def fix(n):
        return str(int(n) % 1000 + 1) if int(n) >= (1 << 32) else n
    prog = case[1]
    for k, i in enumerate(prog[1:], 1):
        if isinstance(i, list):
            if i[0] in ("Jump", "Branch", "Call", "Recall") and i[1][0] == "r":
                prog[k] = [i[0], ["r", fix(i[1][1])]]
            elif i[0] == "ExtCall":
                prog[k] = [i[0], fix(i[1]), fix(i[2])]
            elif i[0] in ("MStructSet", "MStructGet"):
                prog[k] = [i[0], fix(i[1])]
    return case


def run(ctx):
    regen_ok = c25.regen_vm(ctx)
    vlib.regen(ctx)      # the other unit's generated files (gen/GenDeterminism.v) are in the cone of props/C28.v
    proved = vlib.prove(ctx, extra_targets=["model/VmHarness.vo"])
    run_vm_part(ctx, regen_ok, proved)
    try:
        sys.path.insert(0, os.path.dirname(os.path.abspath(__file__)))
        import frontend_c28
    except Exception as e:  # the other unit's part is missing: say so, do not hide it
        ctx.oblige("frontend-part:present", False, repr(e))
        return
    frontend_c28.run_extra(ctx)


def run_vm_part(ctx, regen_ok, proved):
    binp = vlib.cargo_build(ctx, "hx-vm", profile="dev", bin="c28")
    if not binp:
        return
    scale = 1 if (proved and regen_ok) else 4
    g = c25.Gen(ctx.rng)
    kinds = [k for k in c25.instruction_kinds() if k in (c25.Gen.NULLARY | c25.Gen.OPERAND)]
    n_policy = (600 if ctx.thorough else 80) * scale
    n_hand = (3000 if ctx.thorough else 300) * scale
    cases = [g.policy_case() for _ in range(n_policy)]
    for i in range(n_hand):
        c = g.hostile_case(kinds, kinds[i % len(kinds)])
        if not any(p[0] == "viamodule" for p in c[1:]):
            c.insert(8, ["viamodule"])      # c28 always loads through Machine::from_module
            # duplicated / unsorted definition vectors
            if ctx.rng.chance(1, 2):
                c[2] = ["structdefs"] + ctx.rng.shuffle(c[2][1:] + [["S", ["q", "int"]], ["Cmd", ["a", "bool"]]])
        cases.append(narrow_usize(c))
    lines = [c25.sx_str(c) for c in cases]
    inp = "\n".join(lines) + "\n"
    outs = []
    for rnd in range(2):        # two processes: std's RandomState differs between them
        rc, out, err = vlib.run_bin(binp, input=inp, timeout=1800)
        ol = out.splitlines()
        if rc != 0 or len(ol) != len(cases):
            ctx.oblige("harness:run", False, "rc=%s after %d of %d cases; %s" % (rc, len(ol), len(cases), err[-1500:]))
            return
        outs.append(ol)
    parsed = []
    bad = []
    for i, l in enumerate(outs[0]):
        r = c25.sx_parse(l)
        if r[0] != "c28":
            bad.append((i, l[:300]))
        parsed.append(r)
    ctx.oblige("harness:cases-well-formed", not bad, str(bad[:3]))
    if bad:
        return

    # ---- oracle: the property on the implementation's output
    fails = []
    for i, r in enumerate(parsed):
        f = {x[0]: x[1] for x in r[1:5]}
        for k in ("cbor", "rkyv", "machines", "runs"):
            if f[k] != "ok":
                fails.append((i, k, f[k][:200]))
    for (i, k, why) in fails[:3]:
        ctx.violation("a module does not survive serialization: %s is %s" % (k, why),
                      {"case": lines[i], "impl_output": outs[0][i][:1500],
                       "contradicts": "roundtrip_same_machine_same_runs (coq/props/C28.v): the decoded module differs, or loads/runs differently",
                       "replay_cmd": "echo '<case>' | %s" % binp})
    ctx.oblige("oracle:roundtrip-identical-module-machine-runs", not fails, str(fails[:3]))
    nondet = [i for i in range(len(cases)) if outs[0][i] != outs[1][i]]
    for i in nondet[:3]:
        ctx.violation("two processes produced different output for the same policy/module (compilation or serialization is not deterministic)",
                      {"case": lines[i], "process_1": outs[0][i][:1200], "process_2": outs[1][i][:1200],
                       "replay_cmd": "echo '<case>' | %s   (run twice)" % binp})
    ctx.oblige("oracle:two-processes-identical-bytes", not nondet, "cases %s" % nondet[:5])

    # ---- the reloaded machine behaves as the model of from_module + run
    header = ("From Aranya Require Import base.Harness model.VmBase gen.GenVm model.Vm model.VmHarness.\n"
              "Open Scope N_scope.\nOpen Scope string_scope.\n")
    results = [r[6] for r in parsed]
    pairs = [(c, r) for (c, r) in zip(cases, results) if r[0] == "res" and r[1][0] != "panic"]
    # the compiled machines are dumped (and compared with the model) by property C25's runner; here the
    # hand-built modules, whose definition vectors go through from_module on both sides
    pairs = [(c, r) for (c, r) in pairs if c[1][0] != "policy"]

    def render(chunk):
        defs, items = c25.with_hoisting(lambda: [c25.cq_case(c, r) for (c, r) in chunk])
        return (defs + "Definition cases : list (vcase * observation) := %s.\n"
                "Eval vm_compute in (mismatches (chk_case true 5000) cases).\n" % c25.cq_list(items))
    cdir = os.path.join(vlib.BUILD, "cases", ctx.pid)
    if os.path.isdir(cdir):
        for fn in os.listdir(cdir):
            if fn.startswith(("c28_", ".c28_")):
                try:
                    os.remove(os.path.join(cdir, fn))
                except OSError:
                    pass
    mism = []
    couts, chunks = vlib.coq_eval_sharded(ctx, "c28", header, pairs, render, shard=100)
    base = 0
    for (rc, o), ch in zip(couts, chunks):
        v = vlib.parse_coq_value(o) if rc == 0 else None
        if v is None:
            ctx.oblige("correspondence:model-eval", False, o[-2500:])
            break
        mism += [base + j for j in v]
        base += len(ch)
    ctx.oblige("correspondence:reloaded-machine=model", not mism,
               "model of from_module+run and the reloaded real machine differ on cases %s: %s" % (mism[:5], c25.sx_str(pairs[mism[0]][0])[:1500] if mism else ""))

    dup = sum(1 for c in cases if c[1][0] != "policy" and len({d[0] for d in c[2][1:]}) < len(c[2][1:]))
    dist = {}
    for r in results:
        k = c25.status_class(r)
        dist[k] = dist.get(k, 0) + 1
    ctx.coverage.update({
        "traces_validated_against_impl": len(pairs),
        "evaluations": 2 * len(cases),
        "distinct_nontrivial": len({l for l in lines}),
        "rule": "case = a module (compiled from a generated policy, or hand-built over every instruction kind with shuffled and "
                "duplicated definition vectors) + entry + I/O script; each is serialized with ciborium and rkyv, decoded, "
                "loaded and run, in two separate processes; non-trivial = every case (distinct by text)",
        "compiled_modules": n_policy,
        "handbuilt_modules": n_hand,
        "handbuilt_with_duplicate_definition_names": dup,
        "serialized_forms": ["serde/ciborium (CBOR, as written by the policy-compiler binary)", "rkyv 0.8 archive (bytecheck-validated)"],
        "cbor_bytes_total": sum(int(r[5][3]) for r in parsed),
        "distribution": dist,
        "samples": [{"case": lines[i][:500], "impl": outs[0][i][:400]} for i in (0, len(cases) - 1)],
    })
    ctx.assumptions += [
        "decode(encode(module)) = module for the serde and rkyv derives is a hypothesis of roundtrip_same_machine_same_runs; it is tested on every case, not proved",
        "rkyv archives usize as u32: hand-built modules are generated with usize operands below 2^32 (true of every compiled module)",
    ]
