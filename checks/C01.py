"""C01 — replicas holding the same commands converge."""
import os
import sys
import vlib
sys.path.insert(0, os.path.dirname(os.path.abspath(__file__)))
import _txn_common as T  # noqa: E402


def delivery(r, d, k):
    """One delivery history for the DAG d: random causal order with duplicates, batch cuts, flushes, commit
    points, 1-3 transactions; then everything is offered once more one by one and committed, so that all
    replicas end up holding the same accepted commands."""
    ops = T.gen_history(r, d, ntx=r.choice([1, 2, 3]), p_dup=10, p_bad=4, p_flush=12, p_commit=r.choice([4, 10, 18]),
                        p_action=0, p_probe=0, allow_actions=False)
    t = 7
    ops.append(("open", t))
    order = list(d.order)
    if k % 2:
        # a different (still causal) order: sort by (max cut, reversed id)
        memo = {}
        order.sort(key=lambda i: (T.max_cut(d, i, memo), -i))
    for x in order:
        ops.append(("add", t, [x]))
        if r.below(100) < 10:
            ops.append(("flush", t))
    ops.append(("commit", t))
    return ops


def run(ctx):
    vlib.prove(ctx)
    r = ctx.rng
    cases = T.make_cases(ctx, 0, 0, 0)
    groups = []
    n = 90 if ctx.thorough else 14
    for i in range(n):
        d = T.gen_dag(r, r.range(8, 60 if ctx.thorough else 22), reject_w=6, merge_w=r.choice([10, 22]), deep_w=30, fin_w=2)
        k = r.choice([2, 3])
        idx = []
        for q in range(k):
            idx.append(len(cases))
            cases.append(("g%d_%d" % (i, q), "libc" if (i + q) % 3 == 0 else "mem", T.gid_of(d), d, delivery(r, d, q)))
        groups.append(idx)
    # DAGs built around merge commands over transaction-local tips: the generating history (with its duplicates
    # delivered while the merge is still in flight) against a plain causal re-delivery
    for i in range(40 if ctx.thorough else 8):
        d, ops = T.gen_merge_history(r, r.range(12, 34), ntx=1, reject_w=4)
        ops = [o for o in ops if o[0] != "action"]
        tail = [("open", 7)] + [("add", 7, [x]) for x in d.order] + [("commit", 7)]
        idx = [len(cases), len(cases) + 1]
        cases.append(("mg%d_a" % i, "mem", T.gid_of(d), d, ops + tail))
        cases.append(("mg%d_b" % i, "libc" if i % 2 else "mem", T.gid_of(d), d, delivery(r, d, i)))
        groups.append(idx)
    if ctx.thorough:
        # exhaustive small scope: all 120 delivery orders of a 5-command DAG (with and without flushes) must converge
        for fl in (False, True):
            ex = T.exhaustive_small_cases(fl)
            groups.append(list(range(len(cases), len(cases) + len(ex))))
            cases += ex
    byname = {c[0]: i for i, c in enumerate(cases)}
    for be in ("mem", "libc"):
        groups.append([byname["quiet-mid-a-" + be], byname["quiet-mid-b-" + be]])
    groups.append([byname["quiet-mid-a-mem"], byname["quiet-mid-b-libc"]])
    res, mm = T.run_cases(ctx, cases, "c01")
    if res is None:
        return
    viol = []
    compared = skipped = 0
    widths = {}
    for idx in groups:
        finals = [res[i][-1] for i in idx]
        for a in range(len(idx) if len(idx) <= 4 else 1):
            for b in range(a + 1, len(idx)):
                fa, fb = finals[a], finals[b]
                if fa["graph"] is None or fb["graph"] is None or fa["graph"] != fb["graph"]:
                    skipped += 1       # different committed sets (e.g. a commit failed on one replica): hypothesis not met
                    continue
                compared += 1
                widths[len(fa["heads"])] = widths.get(len(fa["heads"]), 0) + 1
                for key, what in (("h", "head set"), ("f", "fact cache / query answers"), ("hh", "hello head")):
                    if fa.get(key) != fb.get(key):
                        viol.append((idx[a], idx[b], "replicas with the same committed commands differ in %s: %s vs %s" % (what, fa.get(key), fb.get(key))))
    ctx.coverage.update({
        "traces_validated_against_impl": len(cases),
        "evaluations": sum(len(c[4]) for c in cases),
        "distinct_nontrivial": compared,
        "rule": "non-trivial = a pair of different delivery histories (ingest permutation, batching, flush and commit points, 1-3 transactions, both backends) of one DAG that end with the same committed command set; their heads, fact cache and hello head are compared (pairs whose committed sets differ are counted as skipped)",
        "distribution": dict(T.basic_stats(cases, res), pairs_compared=compared, pairs_skipped=skipped, final_head_counts=widths),
        "samples": [{"case": T.case_text(*cases[i])[:1200], "final": dict(h=res[i][-1]["h"], f=res[i][-1]["f"], hh=res[i][-1]["hh"])} for i in groups[0]],
    })
    ctx.assumptions += ["the policy is a function of (command, facts) (determinism of eval / braid)", "ids identify commands on both replicas (compatible, rclash = false)",
                        "sync topologies enter through the quantification over arbitrary Add arguments (what a responder sends is C17's subject)"]
    for (ia, ib, why) in viol[:3]:
        ctx.violation(why, {"history_a": T.replay_obj(cases[ia], res[ia], why), "history_b": T.replay_obj(cases[ib], res[ib], why),
                            "contradicts": "convergence (coq/props/C01.v)"})
    T.report_mismatches(ctx, cases, res, mm)
    ctx.oblige("oracle:replica-vs-replica", not viol, str(viol[:3]))
    ctx.oblige("coverage:pairs-compared", compared > 0 and any(w >= 2 for w in widths), "compared=%d widths=%s" % (compared, widths))
