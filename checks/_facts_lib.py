"""Shared machinery of the fact-storage checks (C12, C13): op language, case
generators, the flat-map oracle (the specification evaluated in Python on the
implementation's outputs), text encodings for the Rust runner and Coq renderers."""
import copy

import vlib

NAMES = [b"x", b"y"]
KEYS = [(), (b"",), (b"", b"a"), (b"a",), (b"a", b""), (b"a", b"b"), (b"a", b"b", b""),
        (b"a", b"b", b"a"), (b"ab",), (b"b",), (b"b", b"", b"a")]
EXTRA_PREFIXES = [(b"c",), (b"a", b"c"), (b"a", b"b", b"a", b"")]
VALUES = [b"\x01", b"\x02", b"\x03", b"\x07\x07", b"", b"\xff", b"\x10\x20\x30"]


class Universe:
    def __init__(self, names, keys):
        self.names = list(names)
        self.keys = list(keys)
        ps = set()
        for k in keys:
            for i in range(len(k) + 1):
                ps.add(k[:i])
        for p in EXTRA_PREFIXES:
            ps.add(p)
        self.prefixes = sorted(ps)


def pick_universe(r):
    keys = list(KEYS)
    r.shuffle(keys)
    keys = sorted(keys[:r.range(6, len(KEYS))])
    return Universe(NAMES, keys)


# ---------------------------------------------------------------- text encodings (runner)

def enc_val(b):
    return b.hex() if b else "_"


def enc_key(k):
    if not k:
        return "~"
    return ".".join(c.hex() if c else "-" for c in k)


def dec_key(s):
    if s == "~":
        return ()
    return tuple(b"" if c == "-" else bytes.fromhex(c) for c in s.split("."))


def dec_val(s):
    return b"" if s == "_" else bytes.fromhex(s)


def enc_op(o):
    t = o[0]
    if t in ("I", "i"):
        return "%s:%d:%s:%s:%s" % (t, o[1], enc_val(o[2]), enc_key(o[3]), enc_val(o[4]))
    if t in ("D", "d"):
        return "%s:%d:%s:%s" % (t, o[1], enc_val(o[2]), enc_key(o[3]))
    if t == "F":
        body = "+".join("%s/%s/%s" % (enc_val(n), enc_key(k), "!" if v is None else enc_val(v)) for (n, k, v) in o[2])
        return "F:%d:%s" % (o[1], body)
    return ":".join([t] + [str(x) for x in o[1:]])


def enc_case(backend, U, ops):
    return "%s %s %s %s %s" % (backend, ",".join(enc_val(n) for n in U.names), ",".join(enc_key(k) for k in U.keys),
                               ",".join(enc_key(k) for k in U.prefixes), ";".join(enc_op(o) for o in ops))


TAGS = {"P": 0, "F": 1, "S": 2, "X": 3}


def parse_step(s):
    """-> None (skip/err) | 'panic' | (tag, extra, exact list, prefix list)"""
    if s in ("skip", "err"):
        return None
    if s == "panic" or ";" not in s:
        return "panic"
    head, ex, pf = s.split(";")
    tag, extra = head.split(",", 1)
    if tag == "P":
        if extra == "n":
            e = [0]
        elif extra == "p":
            e = [1]
        elif extra == "m":
            e = [2]
        elif extra.startswith("s"):
            a, b = extra[1:].split(".")
            e = [3, int(a), int(b)]
        else:
            e = [99]
    elif tag == "S":
        e = [] if extra in ("-", "") else [int(extra)]
    else:
        e = []
    exact = [None if x == "-" else ("E" if x == "E" else dec_val(x)) for x in ex.split(",")]
    prefix = []
    for x in pf.split("/"):
        if x == "-":
            prefix.append([])
        elif x == "E":
            prefix.append("E")
        else:
            items = []
            for it in x.split("+"):
                k, v = it.split("=")
                items.append((dec_key(k), dec_val(v)))
            prefix.append(items)
    return (TAGS[tag], e, exact, prefix)


# ---------------------------------------------------------------- the oracle: flat maps

class Oracle:
    """The specification: every object is a flat dict (name, key) -> value; inserts and
    deletes update it; a segment remembers the dict after each of its commands; a
    checkpoint is a snapshot, reverting restores it."""

    def __init__(self, U):
        self.U = U
        self.persps = []
        self.fps = []
        self.segs = []
        self.idxs = []
        self.created = False

    def answers(self, flat):
        U = self.U
        exact = [flat.get((n, k)) for n in U.names for k in U.keys]
        prefix = []
        for n in U.names:
            for p in U.prefixes:
                prefix.append(sorted((k, v) for ((nn, k), v) in flat.items() if nn == n and k[:len(p)] == p))
        return exact, prefix

    def obs_persp(self, h):
        P = self.persps[h]
        if P["ids"]:
            extra = [3, P["ids"][-1], len(P["ids"]) - 1]
        else:
            extra = [{"n": 0, "p": 1, "m": 2}[P["kind"]]]
        e, p = self.answers(P["flat"])
        return (0, extra, e, p)

    def new_persp(self, flat, kind):
        self.persps.append({"flat": dict(flat), "snaps": [], "ids": [], "pending": 0, "kind": kind, "cps": []})
        return self.obs_persp(len(self.persps) - 1)

    def live(self, h):
        return 0 <= h < len(self.persps) and self.persps[h] is not None

    def step(self, o):
        """Apply op; return expected observation (None for skip/err)."""
        t = o[0]
        if t == "N":
            return self.new_persp({}, "n")
        if t in ("I", "D", "A", "F", "K", "R"):
            h = o[1]
            if not self.live(h):
                return None
            P = self.persps[h]
            if t == "I":
                P["flat"][(o[2], o[3])] = o[4]
                P["pending"] += 1
            elif t == "D":
                P["flat"].pop((o[2], o[3]), None)
                P["pending"] += 1
            elif t == "A":
                P["ids"].append(o[2])
                P["snaps"].append(dict(P["flat"]))
                P["pending"] = 0
            elif t == "F":
                pass
            elif t == "K":
                P["cps"].append(copy.deepcopy({k: P[k] for k in ("flat", "snaps", "ids", "pending")}))
            else:
                j = o[2]
                if not (0 <= j < len(P["cps"])):
                    return None
                snap = copy.deepcopy(P["cps"][j])
                P.update(snap)
                del P["cps"][j + 1:]
            return self.obs_persp(h)
        if t in ("C", "W"):
            h = o[1]
            if not self.live(h):
                return None
            if t == "C" and self.created:
                return None
            if t == "W" and not self.created:
                return None
            P = self.persps[h]
            self.persps[h] = None
            if not P["ids"]:
                return None
            if t == "C":
                self.created = True
            self.segs.append({"snaps": P["snaps"], "head": dict(P["flat"]), "pending": P["pending"]})
            e, p = self.answers(P["flat"])
            return (2, None, e, p)
        if t in ("O", "T"):
            s, i = o[1], o[2]
            if not self.created or not (0 <= s < len(self.segs)):
                return None
            sg = self.segs[s]
            if not (0 <= i < len(sg["snaps"])):
                return None
            flat = sg["head"] if i == len(sg["snaps"]) - 1 else sg["snaps"][i]
            if t == "O":
                return self.new_persp(flat, "p")
            self.fps.append(dict(flat))
            e, p = self.answers(flat)
            return (1, [], e, p)
        if t == "X":
            j, s = o[1], o[2]
            if not self.created or not (0 <= s < len(self.segs)) or not (0 <= j < len(self.idxs)):
                return None
            return self.new_persp(self.idxs[j], "m")
        if t in ("i", "d"):
            f = o[1]
            if not (0 <= f < len(self.fps)) or self.fps[f] is None:
                return None
            if t == "i":
                self.fps[f][(o[2], o[3])] = o[4]
            else:
                self.fps[f].pop((o[2], o[3]), None)
            e, p = self.answers(self.fps[f])
            return (1, [], e, p)
        if t == "w":
            f = o[1]
            if not self.created or not (0 <= f < len(self.fps)) or self.fps[f] is None:
                return None
            flat = self.fps[f]
            self.fps[f] = None
            self.idxs.append(flat)
            e, p = self.answers(flat)
            return (3, [], e, p)
        return None


def obs_matches(expected, got):
    """oracle expectation vs implementation observation; the segment offset is not the oracle's business"""
    if expected is None or got is None or got == "panic":
        return expected == got
    (t1, e1, x1, p1), (t2, e2, x2, p2) = expected, got
    return t1 == t2 and (e1 is None or e1 == e2) and x1 == x2 and p1 == p2


# ---------------------------------------------------------------- generators

class Gen:
    def __init__(self, r, U, revert_heavy=False):
        self.r = r
        self.U = U
        self.o = Oracle(U)
        self.ops = []
        self.next_id = 1
        self.revert_heavy = revert_heavy
        self.plain = False          # no failed rules / checkpoints (runners that lack those ops)
        self.stats = {"tombstone_deletes": 0, "mid_opens": 0, "head_opens": 0, "failed_rules": 0, "reverts": 0,
                      "write_facts": 0, "idx_opens": 0, "checkpoints": 0}

    def emit(self, op):
        self.ops.append(op)
        return self.o.step(op)

    def rand_write(self, flat):
        r = self.r
        present = [nk for nk in flat.keys()]
        if present and r.chance(55, 100):
            n, k = r.choice(sorted(present))
        else:
            n, k = r.choice(self.U.names), r.choice(self.U.keys)
        if r.chance(38, 100):
            return (n, k, None)
        return (n, k, r.choice(VALUES))

    def persp_write(self, h):
        P = self.o.persps[h]
        n, k, v = self.rand_write(P["flat"])
        if v is None:
            if (n, k) in P["flat"]:
                self.stats["tombstone_deletes"] += 1
            self.emit(("D", h, n, k))
        else:
            self.emit(("I", h, n, k, v))

    def failed_rule(self, h):
        P = self.o.persps[h]
        body = [self.rand_write(P["flat"]) for _ in range(self.r.range(0, 3))]
        self.stats["failed_rules"] += 1
        self.emit(("F", h, body))

    def command(self, h):
        r = self.r
        for _ in range(r.choice([0, 1, 1, 2, 2, 3, 4])):
            self.persp_write(h)
            if not self.plain and r.chance(1, 8):
                self.failed_rule(h)
        self.emit(("A", h, self.next_id))
        self.next_id += 1

    def revert_play(self, h, depth=0):
        """checkpoint; arbitrary writes / commands / nested checkpoints; revert"""
        r = self.r
        P = self.o.persps[h]
        self.emit(("K", h))
        self.stats["checkpoints"] += 1
        j = len(P["cps"]) - 1
        for _ in range(r.range(0, 5)):
            c = r.below(10)
            if c < 5:
                self.persp_write(h)
            elif c < 7:
                self.command(h)
            elif c < 8 and depth < 2:
                self.revert_play(h, depth + 1)
            elif c < 9:
                self.failed_rule(h)
            else:
                self.emit(("K", h))
                self.stats["checkpoints"] += 1
        if r.chance(9, 10):
            # revert to this checkpoint, or (sometimes) to an older live one
            tgt = j if r.chance(4, 5) else r.below(j + 1)
            self.emit(("R", h, tgt))
            self.stats["reverts"] += 1

    def fill_and_finish(self, h, ncmds, create=False, allow_pending=False):
        r = self.r
        for _ in range(ncmds):
            if not self.plain and (self.revert_heavy and r.chance(1, 2) or r.chance(1, 12)):
                if self.revert_heavy and r.chance(1, 2):
                    self.persp_write(h)          # a write still pending when the checkpoint is taken
                self.revert_play(h)
            self.command(h)
        if not self.plain and self.revert_heavy and r.chance(1, 2):
            self.revert_play(h)
        P = self.o.persps[h]
        if P["pending"] and not allow_pending:
            # stay inside the API's side condition: write at a command boundary
            self.emit(("A", h, self.next_id))
            self.next_id += 1
        if not P["ids"]:
            self.emit(("A", h, self.next_id))
            self.next_id += 1
        self.emit(("C" if create else "W", h))

    def last_persp(self):
        return len(self.o.persps) - 1


def gen_world_case(r, nseg, max_cmds, deep=False, revert_heavy=False):
    """A whole storage history: init segment, then nseg further segments opened at heads,
    mid-segment, or over written fact indexes."""
    U = pick_universe(r)
    g = Gen(r, U, revert_heavy)
    g.emit(("N",))
    g.fill_and_finish(0, 1 if deep else r.range(1, 3), create=True)
    cmds_left = max_cmds
    for _ in range(nseg):
        o = g.o
        c = r.below(100)
        if deep or c < 55:
            s = len(o.segs) - 1
            g.emit(("O", s, len(o.segs[s]["snaps"]) - 1))
            g.stats["head_opens"] += 1
        elif c < 75:
            multi = [x for x in range(len(o.segs)) if len(o.segs[x]["snaps"]) > 1]
            if multi and r.chance(3, 4):
                s = r.choice(multi)
                i = r.below(len(o.segs[s]["snaps"]) - 1)       # strictly inside the segment
            else:
                s = r.below(len(o.segs))
                i = r.below(len(o.segs[s]["snaps"]))
            g.emit(("O", s, i))
            g.stats["mid_opens" if i < len(o.segs[s]["snaps"]) - 1 else "head_opens"] += 1
        elif c < 88:
            s = r.below(len(o.segs))
            i = r.below(len(o.segs[s]["snaps"]))
            g.emit(("T", s, i))
            f = len(o.fps) - 1
            for _ in range(r.range(0, 4)):
                n, k, v = g.rand_write(o.fps[f])
                g.emit(("d", f, n, k) if v is None else ("i", f, n, k, v))
            g.emit(("w", f))
            g.stats["write_facts"] += 1
            if r.chance(2, 3):
                g.emit(("X", len(o.idxs) - 1, r.below(len(o.segs))))
                g.stats["idx_opens"] += 1
            else:
                continue
        else:
            s = r.below(len(o.segs))
            g.emit(("O", s, len(o.segs[s]["snaps"]) - 1))
            g.stats["head_opens"] += 1
        h = g.last_persp()
        n = 1 if deep else min(max(cmds_left, 1), r.choice([1, 1, 2, 2, 3, 4]))
        cmds_left -= n
        if deep:
            g.persp_write(h)
            g.emit(("A", h, g.next_id))
            g.next_id += 1
            g.emit(("W", h))
        else:
            g.fill_and_finish(h, n)
    return U, g.ops, g.stats


def gen_ladder_case(r, nseg):
    """Deterministic depth ladder: one segment at a time from depth 1 past the compaction limit
    (twice).  Segment j writes a (name, key) pair that is never touched again, so at every depth
    every position of the chain -- in particular the ROOT index -- holds a key that lives only
    there; other pairs are churned (overwritten / deleted).  After every segment the new index
    (segment facts) and a perspective opened on it are dumped with every exact and prefix query;
    every third segment has two commands and is also opened / fact-queried mid-segment."""
    U = Universe([b"x", b"y", b"z"], KEYS)
    g = Gen(r, U)
    g.plain = True
    pairs = [(n, k) for n in U.names for k in U.keys]
    churn, unique = pairs[:8], pairs[8:]
    ui = 0

    def fresh(h):
        nonlocal ui
        if ui < len(unique):
            n, k = unique[ui]
            g.emit(("I", h, n, k, bytes([1 + ui % 250])))
            ui += 1

    def churn_write(h, j):
        n, k = churn[(j * 3) % len(churn)]
        if j % 3 == 2 and (n, k) in g.o.persps[h]["flat"]:
            g.emit(("D", h, n, k))
            g.stats["tombstone_deletes"] += 1
        else:
            g.emit(("I", h, n, k, bytes([200 + j % 50])))
        n2, k2 = churn[(j * 5 + 1) % len(churn)]
        if j % 4 == 1 and (n2, k2) in g.o.persps[h]["flat"]:
            g.emit(("D", h, n2, k2))
            g.stats["tombstone_deletes"] += 1

    g.emit(("N",))
    for _ in range(3):
        fresh(0)                       # the root index: keys never touched again
    g.emit(("A", 0, g.next_id)); g.next_id += 1
    g.emit(("C", 0))
    for j in range(1, nseg + 1):
        s = len(g.o.segs) - 1
        g.emit(("O", s, len(g.o.segs[s]["snaps"]) - 1))      # perspective on the newest index: full dump
        g.stats["head_opens"] += 1
        h = g.last_persp()
        fresh(h)
        if j % 3 == 0:
            g.emit(("A", h, g.next_id)); g.next_id += 1
        churn_write(h, j)
        g.emit(("A", h, g.next_id)); g.next_id += 1
        g.emit(("W", h))                                      # the new index: full dump
        if j % 3 == 0:
            s2 = len(g.o.segs) - 1
            g.emit(("O", s2, 0))                              # mid-segment perspective
            g.emit(("T", s2, 0))                              # mid-segment fact perspective
            g.stats["mid_opens"] += 1
    return U, g.ops, g.stats


def gen_malformed_case(r):
    """API misuse / error paths: dead handles, empty perspectives, out-of-range locations,
    unknown indexes.  Model and implementation must still agree step by step."""
    U = pick_universe(r)
    g = Gen(r, U)
    g.emit(("N",))
    g.emit(("N",))
    g.fill_and_finish(1, 2, create=True)
    g.emit(("I", 1, b"x", (), b"\x01"))     # consumed handle
    g.emit(("A", 7, 99))                    # unknown handle
    g.emit(("O", 0, 5))                     # location beyond the segment: CommandOutOfBounds
    g.emit(("O", 3, 0))                     # unknown segment
    g.emit(("O", 0, 0))
    h = g.last_persp()
    g.emit(("W", h))                        # EmptyPerspective (facts may already be written)
    g.emit(("D", h, b"x", ()))
    g.emit(("O", 0, 1))
    h = g.last_persp()
    g.persp_write(h)
    g.emit(("W", h))                        # writes but no command: EmptyPerspective, index appended
    g.emit(("X", 4, 0))                     # unknown index
    g.emit(("w", 2))                        # unknown fact perspective
    g.emit(("T", 0, 0))
    g.emit(("w", 0))
    g.emit(("w", 0))                        # consumed
    g.emit(("R", 0, 0))                     # consumed perspective
    g.emit(("O", 0, 1))
    h = g.last_persp()
    g.emit(("R", h, 3))                     # no such checkpoint
    g.fill_and_finish(h, 2)
    return U, g.ops, g.stats


# ---------------------------------------------------------------- Coq rendering

def cb(b):
    return vlib.coq_bytes(b)


def ck(k):
    return vlib.coq_list(k, cb)


def coq_op(o):
    t = o[0]
    if t == "N":
        return "XO ONew"
    if t == "I":
        return "XO (OInsert %d %s %s %s)" % (o[1], cb(o[2]), ck(o[3]), cb(o[4]))
    if t == "D":
        return "XO (ODelete %d %s %s)" % (o[1], cb(o[2]), ck(o[3]))
    if t == "A":
        return "XO (OAddCmd %d %d)" % (o[1], o[2])
    if t == "F":
        body = vlib.coq_list(o[2], lambda u: "(%s, %s, %s)" % (cb(u[0]), ck(u[1]), "None" if u[2] is None else "Some " + cb(u[2])))
        return "XO (OFailedRule %d %s)" % (o[1], body)
    if t == "K":
        return "XCheckpoint %d" % o[1]
    if t == "R":
        return "XRevert %d %d" % (o[1], o[2])
    if t == "C":
        return "XO (OCreate %d)" % o[1]
    if t == "W":
        return "XO (OWrite %d)" % o[1]
    if t == "O":
        return "XO (OOpen %d %d)" % (o[1], o[2])
    if t == "X":
        return "XO (OOpenIdx %d)" % o[1]
    if t == "T":
        return "XO (OFactAt %d %d)" % (o[1], o[2])
    if t == "i":
        return "XO (OFInsert %d %s %s %s)" % (o[1], cb(o[2]), ck(o[3]), cb(o[4]))
    if t == "d":
        return "XO (OFDelete %d %s %s)" % (o[1], cb(o[2]), ck(o[3]))
    if t == "w":
        return "XO (OWriteFacts %d)" % o[1]
    raise ValueError(o)


def coq_obs(ob):
    """sparse rendering: only the non-empty answers, with their position"""
    if ob is None:
        return "None"
    tag, extra, exact, prefix = ob
    ex = vlib.coq_list([(i, v) for i, v in enumerate(exact) if v is not None], lambda iv: "(%d, %s)" % (iv[0], cb(iv[1])))
    pf = vlib.coq_list([(i, l) for i, l in enumerate(prefix) if l],
                       lambda il: "(%d, %s)" % (il[0], vlib.coq_list(il[1], lambda kv: "(%s, %s)" % (ck(kv[0]), cb(kv[1])))))
    return "sob %d %s %s %s" % (tag, vlib.coq_list(extra or []), ex, pf)


def coq_universe(U):
    return "{| u_names := %s; u_keys := %s; u_prefixes := %s |}" % (
        vlib.coq_list(U.names, cb), vlib.coq_list(U.keys, ck), vlib.coq_list(U.prefixes, ck))


COQ_HEADER = """From Aranya Require Import base.Tactics base.Harness base.ListLex model.Facts model.FactsWorld model.FactsHarness gen.GenFacts.
Open Scope N_scope.
Definition sob (t : N) (e : list N) (x : list (N * bytes)) (p : list (N * list (keys * bytes))) : option sobs :=
  Some (t, e, x, p).
"""


def render_cases(chunk):
    """chunk: list of (mem?, U, ops, impl observations)"""
    items = []
    for (mem, U, ops, obs) in chunk:
        items.append("(%s, %s,\n  %s,\n  %s)" % ("true" if mem else "false", coq_universe(U),
                                                vlib.coq_list(ops, coq_op), vlib.coq_list(obs, coq_obs)))
    return ("Definition cases : list scase := %s.\n"
            "Eval vm_compute in (map (scase_first_diff max_fact_index_depth) cases).\n"
            "Eval vm_compute in (map (scase_depths max_fact_index_depth) cases).\n" % vlib.coq_list(items))


# ================================================================ sessions (C14, C13)

def enc_script(items):
    out = []
    for it in items:
        t = it[0]
        if t == "I":
            out.append("I/%s/%s/%s" % (enc_val(it[1]), enc_key(it[2]), enc_val(it[3])))
        elif t == "D":
            out.append("D/%s/%s" % (enc_val(it[1]), enc_key(it[2])))
        elif t in ("Q", "P"):
            out.append("%s/%s/%s" % (t, enc_val(it[1]), enc_key(it[2])))
        else:
            out.append("U/%d" % it[1])
    return "+".join(out)


def enc_sop(o):
    if o[0] in ("a", "r"):
        return "%s:%d:%d:%s" % (o[0], o[1], 1 if o[2] else 0, enc_script(o[3]))
    if o[0] == "S":
        return "S"
    if o[0] in ("G", "g"):
        return ":".join([o[0]] + [str(x) for x in o[1:]])
    return enc_op(o)


def enc_scase(backend, U, ops):
    return "%s %s %s %s %s" % (backend, ",".join(enc_val(n) for n in U.names), ",".join(enc_key(k) for k in U.keys),
                               ",".join(enc_key(k) for k in U.prefixes), ";".join(enc_sop(o) for o in ops))


def parse_sstep(s):
    """-> None for '-', 'skip', 'err' | 'panic' | (ok, frame, seen, exact, prefix)"""
    if s in ("-", "skip", "err"):
        return None
    if s == "panic" or s.count(";") != 3:
        return "panic"
    head, seen_s, ex, pf = s.split(";")
    okt, frame = head.split(",", 1)
    seen = []
    for it in ([] if seen_s == "" else seen_s.split("&")):
        if it[0] == "Q":
            body = it[1:]
            seen.append(("Q", None if body == "-" else ("E" if body == "E" else dec_val(body))))
        else:
            body = it[1:]
            if body == "-":
                seen.append(("P", []))
            elif body == "E":
                seen.append(("P", "E"))
            else:
                seen.append(("P", [(dec_key(x.split("=")[0]), dec_val(x.split("=")[1])) for x in body.split("+")]))
    exact = [None if x == "-" else ("E" if x == "E" else dec_val(x)) for x in ex.split(",")]
    prefix = []
    for x in pf.split("/"):
        if x == "-":
            prefix.append([])
        elif x == "E":
            prefix.append("E")
        else:
            prefix.append([(dec_key(it.split("=")[0]), dec_val(it.split("=")[1])) for it in x.split("+")])
    return (okt == "ok", frame, seen, exact, prefix)


class SessionOracle:
    """Committed state = the flat map of whatever index was committed; a session is that map
    (copied when the session is opened) plus the writes of its successful calls."""

    def __init__(self, U):
        self.U = U
        self.st = Oracle(U)
        self.cache = None
        self.sessions = []

    def step(self, o):
        t = o[0]
        if t == "G":
            if not self.st.created or not (0 <= o[1] < len(self.st.segs)):
                return None
            self.cache = dict(self.st.segs[o[1]]["head"])
            return None
        if t == "g":
            if not self.st.created or not (0 <= o[1] < len(self.st.segs)) or not (0 <= o[2] < len(self.st.idxs)):
                return None
            self.cache = dict(self.st.idxs[o[2]])
            return None
        if t == "S":
            if self.cache is not None:
                self.sessions.append(dict(self.cache))
            return None
        if t in ("a", "r"):
            q, ok, script = o[1], o[2], o[3]
            if not (0 <= q < len(self.sessions)):
                return None
            flat = dict(self.sessions[q])
            seen = []
            for it in script:
                if it[0] == "I":
                    flat[(it[1], it[2])] = it[3]
                elif it[0] == "D":
                    flat.pop((it[1], it[2]), None)
                elif it[0] == "Q":
                    seen.append(("Q", flat.get((it[1], it[2]))))
                elif it[0] == "P":
                    seen.append(("P", sorted((k, v) for ((n, k), v) in flat.items() if n == it[1] and k[:len(it[2])] == it[2])))
            if ok:
                self.sessions[q] = flat
            e, p = self.st.answers(self.sessions[q])
            return (ok, "=", seen, e, p)
        self.st.step(o)
        return None


def gen_session_case(r, nseg, fail_heavy=False, deep=False):
    U = pick_universe(r)
    g = Gen(r, U)
    g.plain = True
    so = SessionOracle(U)
    so.st = g.o
    ops = g.ops          # storage ops are appended by g.emit; session ops by us
    stats = {"calls": 0, "failed_calls": 0, "receives": 0, "deletes_of_committed": 0, "script_items": 0,
             "overlay_beyond_base": 0, "sessions": 0}
    g.emit(("N",))
    g.fill_and_finish(0, r.range(1, 3), create=True)
    for _ in range(nseg):
        o = g.o
        if deep or r.chance(3, 4):
            s = len(o.segs) - 1
            g.emit(("O", s, len(o.segs[s]["snaps"]) - 1))
        else:
            s = r.below(len(o.segs))
            g.emit(("O", s, r.below(len(o.segs[s]["snaps"]))))
        g.fill_and_finish(g.last_persp(), 1 if deep else r.range(1, 3))

    def commit():
        o = g.o
        if r.chance(1, 4):
            s = r.below(len(o.segs))
            ops.append(("T", s, r.below(len(o.segs[s]["snaps"]))))
            so.step(ops[-1])
            f = len(o.fps) - 1
            for _ in range(r.range(0, 3)):
                n, k, v = g.rand_write(o.fps[f])
                ops.append(("d", f, n, k) if v is None else ("i", f, n, k, v))
                so.step(ops[-1])
            ops.append(("w", f))
            so.step(ops[-1])
            ops.append(("g", len(o.segs) - 1, len(o.idxs) - 1))
        else:
            ops.append(("G", len(o.segs) - 1 if r.chance(3, 4) else r.below(len(o.segs))))
        so.step(ops[-1])

    def script(flat):
        items = []
        cur = dict(flat)
        for _ in range(r.choice([0, 1, 2, 3, 4, 6])):
            c = r.below(10)
            if c < 3:
                n, k, v = g.rand_write(cur)
                if v is None:
                    if (n, k) in so.cache:
                        stats["deletes_of_committed"] += 1
                    items.append(("D", n, k))
                    cur.pop((n, k), None)
                else:
                    items.append(("I", n, k, v))
                    cur[(n, k)] = v
            elif c < 5:
                n, k, v = g.rand_write(cur)
                v = v if v is not None else r.choice(VALUES)
                items.append(("I", n, k, v))
                cur[(n, k)] = v
            elif c < 7:
                items.append(("Q", r.choice(U.names), r.choice(U.keys)))
            elif c < 9:
                items.append(("P", r.choice(U.names), r.choice(U.prefixes)))
            else:
                items.append(("U", r.range(1000, 2000)))
        return items

    commit()
    ops.append(("S",))
    so.step(ops[-1])
    stats["sessions"] += 1
    for _ in range(r.range(3, 12)):
        c = r.below(100)
        if c < 8:
            # the graph moves on; sessions keep the base they were opened on
            s = len(g.o.segs) - 1
            g.emit(("O", s, len(g.o.segs[s]["snaps"]) - 1))
            g.fill_and_finish(g.last_persp(), 1)
            commit()
        elif c < 16:
            ops.append(("S",))
            so.step(ops[-1])
            stats["sessions"] += 1
        else:
            q = r.below(len(so.sessions))
            ok = not r.chance(6 if fail_heavy else 3, 10)
            items = script(so.sessions[q])
            kind = "r" if r.chance(1, 3) else "a"
            if kind == "r":
                items = [it for it in items if it[0] != "U"]
                stats["receives"] += 1
            ops.append((kind, q, ok, items))
            so.step(ops[-1])
            stats["calls"] += 1
            stats["failed_calls"] += 0 if ok else 1
            stats["script_items"] += len(items)
            base_keys = set(so.cache.keys())
            stats["overlay_beyond_base"] += sum(1 for it in items if it[0] == "I" and (it[1], it[2]) not in base_keys)
    if r.chance(1, 3):
        # misuse: calls on sessions that do not exist, a commit naming an unknown segment / index
        for bad in (("a", len(so.sessions) + 2, True, [("I", U.names[0], U.keys[0], b"\x01")]),
                    ("G", len(g.o.segs) + 3), ("g", 0, len(g.o.idxs) + 2),
                    ("r", len(so.sessions) + 1, False, [])):
            ops.append(bad)
            so.step(bad)
        q = r.below(len(so.sessions))
        ops.append(("a", q, True, [("P", U.names[0], ())]))
        so.step(ops[-1])
        stats["calls"] += 1
    return U, list(ops), stats


def coq_store_op(o):
    s = coq_op(o)
    assert s.startswith("XO ")
    return s[3:]


def coq_sop_item(it):
    t = it[0]
    if t == "I":
        return "SInsert %s %s %s" % (cb(it[1]), ck(it[2]), cb(it[3]))
    if t == "D":
        return "SDelete %s %s" % (cb(it[1]), ck(it[2]))
    if t == "Q":
        return "SQuery %s %s" % (cb(it[1]), ck(it[2]))
    if t == "P":
        return "SPrefix %s %s" % (cb(it[1]), ck(it[2]))
    return "SPublish %d" % it[1]


def coq_sxop(o):
    t = o[0]
    if t == "G":
        return "SXCommitSeg %d" % o[1]
    if t == "g":
        return "SXCommitIdx %d %d" % (o[1], o[2])
    if t == "S":
        return "SXOpen"
    if t in ("a", "r"):
        return "SXCall %d %s %s" % (o[1], vlib.coq_list(o[3], coq_sop_item), "true" if o[2] else "false")
    return "SXStore %s" % coq_store_op(o)


def coq_sxobs(ob):
    if ob is None:
        return "None"
    ok, _frame, seen, exact, prefix = ob
    sn = vlib.coq_list(seen, lambda s: ("SeenQ %s" % ("None" if s[1] is None else "(Some %s)" % cb(s[1]))) if s[0] == "Q"
                       else "SeenP %s" % vlib.coq_list(s[1], lambda kv: "(%s, %s)" % (ck(kv[0]), cb(kv[1]))))
    ex = vlib.coq_list([(i, v) for i, v in enumerate(exact) if v is not None], lambda iv: "(%d, %s)" % (iv[0], cb(iv[1])))
    pf = vlib.coq_list([(i, l) for i, l in enumerate(prefix) if l],
                       lambda il: "(%d, %s)" % (il[0], vlib.coq_list(il[1], lambda kv: "(%s, %s)" % (ck(kv[0]), cb(kv[1])))))
    return "Some (%s, %s, %s, %s)" % ("true" if ok else "false", sn, ex, pf)


SCOQ_HEADER = """From Aranya Require Import base.Tactics base.Harness base.ListLex model.Facts model.FactsWorld model.FactsHarness model.Session model.SessionWorld gen.GenFacts.
Open Scope N_scope.
"""


def render_scases(chunk):
    items = []
    for (U, ops, obs) in chunk:
        items.append("(%s,\n  %s,\n  %s)" % (coq_universe(U), vlib.coq_list(ops, coq_sxop), vlib.coq_list(obs, coq_sxobs)))
    return ("Definition cases : list sxcase := %s.\n"
            "Eval vm_compute in (map (sxcase_first_diff max_fact_index_depth) cases).\n" % vlib.coq_list(items))


def sobs_matches(expected, got):
    if expected is None or got is None or got == "panic":
        return expected == got
    return tuple(expected) == tuple(got)
