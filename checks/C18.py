"""C18 — sync message handling never panics."""
import importlib.util
import os

import vlib

_spec = importlib.util.spec_from_file_location("_sync_lib", os.path.join(os.path.dirname(os.path.abspath(__file__)), "_sync_lib.py"))
S = importlib.util.module_from_spec(_spec)
_spec.loader.exec_module(S)


# ------------------------------------------------------------------ case generation

def rid(r):
    return bytes(r.below(256) for _ in range(32))


def rnd_u(r, bits):
    c = r.below(6)
    if c == 0:
        return 0
    if c == 1:
        return r.below(128)
    if c == 2:
        return (1 << bits) - 1
    if c == 3:
        return r.below(1 << bits)
    return r.below(1 << r.range(1, bits))


def rnd_meta(r, plen=None, ln=None):
    return {"id": rid(r), "prio": r.choice([("M",), ("B", rnd_u(r, 32)), ("F",), ("I",)]),
            "parents": [(rid(r), rnd_u(r, 64)) for _ in range(r.choice([0, 1, 1, 2]))],
            "plen": r.choice([0, 0, 0, 3, 17]) if plen is None else plen, "len": r.choice([0, 1, 5, 40]) if ln is None else ln}


def mutate(r, b):
    """structure-unaware byte mutations of a valid encoding"""
    b = bytearray(b)
    c = r.below(8)
    if c == 0 and b:
        return bytes(b[:r.below(len(b))])                       # truncate
    if c == 1:
        return bytes(b) + bytes(r.below(256) for _ in range(r.range(1, 6)))   # extend
    if c == 2 and b:
        i = r.below(len(b))
        b[i] ^= 1 << r.below(8)                                 # flip a bit
        return bytes(b)
    if c == 3 and b:
        i = r.below(len(b))
        b[i] = r.choice([0x80, 0xff, 0x7f, 0x00, 0x65])         # plant a varint continuation / boundary value
        return bytes(b)
    if c == 4 and b:
        i = r.below(len(b))
        return bytes(b[:i]) + b"\xff\xff\xff\xff\xff\xff\xff\xff\xff\x01" + bytes(b[i + 1:])  # u64::MAX varint in place of a byte
    if c == 5 and b:
        i = r.below(len(b))
        return bytes(b[:i]) + b"\x80" * r.range(1, 20) + bytes(b[i:])        # over-long varint
    if c == 6 and len(b) > 2:
        i = r.below(len(b) - 1)
        b[i], b[i + 1] = b[i + 1], b[i]
        return bytes(b)
    return bytes(b)


def gen_sync_types(r, n, world_gid):
    out = []
    for _ in range(n):
        k = r.below(7)
        gid = world_gid if r.chance(1, 2) else rid(r)
        if k == 0:
            m = {"kind": "poll", "req": gen_req(r, gid, [])}
        elif k == 1:
            cm = [(rid(r), rnd_u(r, 64)) for _ in range(r.choice([0, 1, 3, 2, 5, 1, 100, 101] if r.chance(1, 6) else [0, 1, 3]))]
            m = {"kind": "subscribe", "remain_open": rnd_u(r, 64), "max_bytes": rnd_u(r, 64), "cmds": cm, "gid": gid}
            if r.chance(1, 6):
                m["count"] = r.choice([101, 1 << 40, (1 << 64) - 1, len(cm) + 1])
        elif k == 2:
            m = {"kind": "unsubscribe", "gid": gid}
        elif k == 3:
            m = {"kind": "push", "msg": gen_resp(r, rnd_u(r, 128), 0)[0], "gid": gid}
        elif k == 4:
            m = {"kind": "hello", "hello": {"kind": "subscribe", "gid": gid, "d1": (rnd_u(r, 64), rnd_u(r, 32)), "d2": (rnd_u(r, 64), r.below(10 ** 9)), "d3": (0, 0)}}
        elif k == 5:
            m = {"kind": "hello", "hello": {"kind": "unsubscribe", "gid": gid}}
        else:
            m = {"kind": "hello", "hello": {"kind": "hello", "gid": gid, "head": (rid(r), rnd_u(r, 64))}}
        b = S.enc_sync_type(m)
        if k == 3:
            b += bytes(r.below(256) for _ in range(r.choice([0, 3, 50])))
        out.append(b)
    return out


def gen_req(r, gid, known):
    k = r.below(8)
    sid = rnd_u(r, 128)
    if k <= 4:
        n = r.choice([100, 101]) if r.chance(1, 14) else r.choice([0, 1, 2, 5])
        cm = []
        for _ in range(n):
            cm.append(r.choice(known) if known and r.chance(2, 3) else (rid(r), rnd_u(r, 64)))
        m = {"kind": "request", "sid": sid, "gid": gid, "max_bytes": rnd_u(r, 64), "cmds": cm}
        if r.chance(1, 8):
            m["count"] = r.choice([101, 1 << 33, (1 << 64) - 1, n + 1])
        return m
    if k == 5:
        return {"kind": "missing", "sid": sid, "idxs": [rnd_u(r, 64) for _ in range(r.choice([100, 101]) if r.chance(1, 5) else r.choice([0, 2]))]}
    if k == 6:
        return {"kind": "resume", "sid": sid, "idx": rnd_u(r, 64), "max_bytes": rnd_u(r, 64)}
    return {"kind": "end", "sid": sid}


def gen_resp(r, sid, idx):
    """(message dict, trailing data length that makes it consistent)"""
    k = r.below(10)
    if k <= 5:
        n = r.choice([100, 101]) if r.chance(1, 25) else r.choice([0, 1, 2, 3, 7])
        cm = [rnd_meta(r) for _ in range(n)]
        m = {"kind": "resp", "sid": sid, "idx": idx, "cmds": cm}
        if r.chance(1, 8):
            m["count"] = r.choice([101, 1 << 40, (1 << 64) - 1, n + 1])
        return m, sum(c["plen"] + c["len"] for c in cm)
    if k == 6:
        return {"kind": "end", "sid": sid, "max": idx, "remaining": r.choice([0, 0, 1, 2])}, 0
    if k == 7:
        return {"kind": "offer", "sid": sid, "head": rid(r)}, 0
    return {"kind": "endsession", "sid": sid}, 0


def gen_reqrecv(r, n):
    out = []
    for _ in range(n):
        sid = rnd_u(r, 128)
        k = r.choice([0, 0, 0, 1, 2])
        mode = r.choice(["start", "waiting"])
        msid = sid if r.chance(4, 5) else rnd_u(r, 128)
        midx = k if r.chance(4, 5) else r.choice([k + 1, 0, max(k - 1, 0), (1 << 64) - 1])
        m, need = gen_resp(r, msid, midx)
        c = r.below(8)
        if m["kind"] == "resp" and m["cmds"] and c == 0:
            m["cmds"][r.below(len(m["cmds"]))]["len"] = r.choice([(1 << 32) - 1, need + 1, 4096])
        if m["kind"] == "resp" and m["cmds"] and c == 1:
            m["cmds"][r.below(len(m["cmds"]))]["plen"] = r.choice([(1 << 32) - 1, need + 1, 4096])
        b = S.enc_resp(m)
        extra = need if c != 2 else r.below(need + 3)
        if c == 3:
            extra = need + r.range(1, 9)
        data = bytes(r.below(256) for _ in range(extra))
        full = b + data
        if c >= 6:
            full = mutate(r, full)
        out.append((sid, mode, k, full))
    return out


def gen_push(r, n, world_gid):
    out = []
    for _ in range(n):
        sid = rnd_u(r, 128)
        msid = sid if r.chance(4, 5) else rnd_u(r, 128)
        m, need = gen_resp(r, msid, r.choice([0, 0, 1]))
        b = S.enc_sync_type({"kind": "push", "msg": m, "gid": world_gid if r.chance(1, 2) else rid(r)})
        extra = r.choice([need, need, max(need - 1, 0), need + 4])
        full = b + bytes(r.below(256) for _ in range(extra))
        if r.chance(1, 4):
            full = mutate(r, full)
        out.append((sid, full))
    return out


def gen_resp_seqs(r, n, gid, known):
    out = []
    for _ in range(n):
        msgs = []
        sid = rnd_u(r, 128)
        for j in range(r.choice([1, 1, 2, 3, 4])):
            m = gen_req(r, gid if r.chance(5, 6) else rid(r), known)
            if r.chance(3, 4):
                m["sid"] = sid
            b = S.enc_sync_type({"kind": "poll", "req": m})
            if r.chance(1, 6):
                b = mutate(r, b)
            if r.chance(1, 25):
                b = gen_sync_types(r, 1, gid)[0]
            msgs.append(b)
        tlen = r.choice([0, 3, 20, 60, 500, 4000, 400000, 400000, 400000])
        out.append((tlen, msgs))
    return out


def random_bytes(r, n):
    out = []
    for _ in range(n):
        ln = r.choice([0, 1, 2, 3, 5, 8, 20, 40, 70])
        b = bytearray(r.below(256) for _ in range(ln))
        if b and r.chance(2, 3):
            b[0] = r.below(6)          # plausible outer variant
        if len(b) > 1 and r.chance(1, 2):
            b[1] = r.below(5)
        out.append(bytes(b))
    return out


# ------------------------------------------------------------------ a tiny Python postcard reader (oracle side)

def rd_varint(b, pos, maxb):
    v = 0
    for i in range(maxb):
        if pos + i >= len(b):
            return None
        x = b[pos + i]
        v |= (x & 0x7F) << (7 * i)
        if x < 0x80:
            return v, pos + i + 1
    return None


def resp_header(b):
    """(variant, sid, idx) of a SyncResponseMessage if its header can be read"""
    a = rd_varint(b, 0, 5)
    if not a:
        return None
    s = rd_varint(b, a[1], 19)
    if not s:
        return None
    if a[0] in (0, 1):
        i = rd_varint(b, s[1], 10)
        if not i:
            return None
        return a[0], s[0], i[0]
    return a[0], s[0], None


# ------------------------------------------------------------------ parsing the runner's lines

def parse_decode(l):
    t = l.split()
    if t[0] == "panic":
        return "panic"
    if t[0] == "err":
        return "DcErr"
    kv = dict(x.split("=") for x in t[2:] if "=" in x)
    if t[1] == "poll":
        return "DcPoll %s" % kv["sid"]
    if t[1] == "subscribe":
        return "DcSub %s %s %s" % (kv["n"], kv["max_bytes"], kv["remain"])
    if t[1] == "unsubscribe":
        return "DcUnsub"
    if t[1] == "push":
        return "DcPush %s" % kv["sid"]
    if t[1] == "hello":
        if t[2] == "subscribe":
            return "DcHelloSub"
        if t[2] == "unsubscribe":
            return "DcHelloUnsub"
        return "DcHello %s" % kv["mc"]
    return "DcErr"


def parse_rcv(l):
    """-> (class, slices [(policy|None, data)], ready) or 'panic'"""
    t = l.split()
    if t[0] == "panic":
        return "panic"
    if t[0] == "notpush":
        return (400, [], 0)
    if t[0] == "err" and t[1] == "decode":
        return (401, [], 0)
    ready = int(t[-1].split("=")[1])
    if t[0] == "err":
        return (100 + S.err_code(t[1]), [], ready)
    if t[1] == "none":
        return (1, [], ready)
    sl = []
    if t[3] != "-":
        for c in t[3].split(","):
            p, d = c.split("/")
            pol = None if p == "-" else tuple(int(x) for x in p.split("+"))
            sl.append((pol, tuple(int(x) for x in d.split("+"))))
    return (0, sl, ready)


def coq_rcv(x):
    cls, sl, ready = x
    items = ["(%s, (%d, %d))" % ("None" if p is None else "Some (%d, %d)" % p, d[0], d[1]) for (p, d) in sl]
    return "(%d, %s, %s)" % (cls, vlib.coq_list(items), "true" if ready else "false")


def parse_resp_line(l, idnum):
    """-> [(recv class, expect term, ready)] or 'panic'"""
    if l.strip() == "panic":
        return "panic"
    out = []
    for step in l.split(" | "):
        t = step.split()
        rc = t[0].split(":")
        if rc[1] == "ok":
            rcc = 0
        elif rc[1] == "err":
            rcc = 100 + S.err_code(rc[2])
        elif rc[1] == "notpoll":
            rcc = 50
        else:
            rcc = 51
        pl = t[1].split(":", 3)
        if pl[1] == "err":
            ex = "XErr %d" % S.err_code(pl[2])
        else:
            summ = pl[3].split("_")
            kv = {}
            for x in summ:
                if "=" in x:
                    a, b = x.split("=", 1)
                    kv[a] = b
            if summ[1] == "resp":
                ids = [] if kv["cmds"] == "-" else [idnum(c.split(":")[0]) for c in kv["cmds"].split(",")]
                ex = "XResp %s %s %s %s %s" % (kv["sid"], kv["idx"], vlib.coq_list(ids), kv["hdr"], kv["data"])
            elif summ[1] == "end":
                ex = "XEnd %s %s" % (kv["sid"], kv["max"])
            elif summ[1] == "endsession":
                ex = "XEndSession %s" % kv["sid"]
            else:
                ex = "XErr 97"
        out.append((rcc, ex, int(t[2].split("=")[1])))
    return out


class RealIds:
    """ids as their 256-bit big-endian values (the model decodes real bytes here)"""

    def get(self, h):
        return int(h, 16)


def run_profile(ctx, profile, dbg, cases, world_n):
    """Runs all cases on one build profile; returns (results per category, panics, world dump, gid)."""
    binp = vlib.cargo_build(ctx, "hx-sync", bin="c18", profile=profile)
    if not binp:
        return None
    lines = ["setup %d" % world_n]
    for b in cases["decode"]:
        lines.append("decode %s" % b.hex())
    for b in cases["subres"]:
        lines.append("subres %s" % b.hex())
    for (sid, mode, k, b) in cases["reqrecv"]:
        lines.append("reqrecv %d %s %d %s" % (sid, mode, k, b.hex()))
    for (sid, b) in cases["push"]:
        lines.append("push %d %s" % (sid, b.hex()))
    for (tlen, msgs) in cases["resp"]:
        lines.append("resp %d %s" % (tlen, " ".join((m.hex() or "00") for m in msgs)))
    rc, out, err = vlib.run_bin(binp, input="\n".join(lines) + "\n", timeout=1200)
    ol = out.splitlines()
    if rc != 0 or len(ol) != len(lines):
        ctx.oblige("harness:run:" + profile, False, "rc=%d lines %d/%d %s" % (rc, len(ol), len(lines), err[-800:]))
        return None
    return ol


def run(ctx):
    vlib.regen(ctx)
    vlib.prove(ctx, extra_targets=["model/SyncCases.vo"])
    r = ctx.rng
    world_n = 37
    # the world's graph id and commands are needed to build mostly-valid requests: run setup once
    binp = vlib.cargo_build(ctx, "hx-sync", bin="c18")
    if not binp:
        return
    rc, out, err = vlib.run_bin(binp, input="setup %d\n" % world_n)
    first = out.splitlines()[0] if out else ""
    if not first.startswith("setup graph="):
        ctx.oblige("harness:setup", False, first[:300] + err[-500:])
        return
    gid = bytes.fromhex(first.split()[1].split("=")[1])
    dump = S.parse_dump(first.split(" ", 2)[2])
    known = [(bytes.fromhex(c["id"]), s["first"] + k) for s in dump["segs"] for k, c in enumerate(s["cmds"])]
    mult = 8 if ctx.thorough else 1
    valid = gen_sync_types(r, 70 * mult, gid)
    cases = {
        "decode": valid + [mutate(r, b) for b in valid for _ in range(2)] + random_bytes(r, 120 * mult),
        "subres": [b"", b"\x00", b"\x01", b"\x02", b"\x80\x00", b"\x81\x00", b"\x80\x80\x80\x80\x80\x00", b"\xff\xff\xff\xff\x0f", b"\xff\xff\xff\xff\x1f", b"\x00\x55"] + random_bytes(r, 20 * mult),
        "reqrecv": gen_reqrecv(r, 200 * mult) + [(5, "start", 0, b) for b in random_bytes(r, 40 * mult)],
        "push": gen_push(r, 60 * mult, gid),
        "resp": gen_resp_seqs(r, 70 * mult, gid, known) + [(400000, [b]) for b in random_bytes(r, 20 * mult)],
    }
    if getattr(ctx, "replay_in", None):
        try:
            import json
            rc_ = json.load(open(ctx.replay_in)).get("case", "")
            t_ = rc_.split()
            one = {"decode": [], "subres": [], "reqrecv": [], "push": [], "resp": []}
            if t_ and t_[0] in ("decode", "subres"):
                one[t_[0]] = [bytes.fromhex(t_[1]) if len(t_) > 1 else b""]
            elif t_ and t_[0] == "reqrecv":
                one["reqrecv"] = [(int(t_[1]), t_[2], int(t_[3]), bytes.fromhex(t_[4]) if len(t_) > 4 else b"")]
            elif t_ and t_[0] == "push":
                one["push"] = [(int(t_[1]), bytes.fromhex(t_[2]) if len(t_) > 2 else b"")]
            elif t_ and t_[0] == "resp":
                one["resp"] = [(int(t_[1]), [bytes.fromhex(x) for x in t_[2:]])]
            if any(one.values()):
                cases = one
        except Exception:
            pass
    total = sum(len(v) for v in cases.values())
    results = {}
    for (profile, dbg) in (("dev", True), ("nodebug", False)):
        ol = run_profile(ctx, profile, dbg, cases, world_n)
        if ol is None:
            return
        results[profile] = ol
    # ---- oracle: no panic anywhere, slices inside the input, only own-session in-order responses accepted
    panics = []
    oob = []
    wrong_accept = []
    classes = {"decode_ok": 0, "decode_err": 0, "rcv_some": 0, "rcv_none": 0, "rcv_err": {}, "resp_steps": 0, "resp_poll_ok": 0, "resp_err": {}}
    for profile, ol in results.items():
        pos = 1
        for b in cases["decode"]:
            l = ol[pos]
            pos += 1
            if l == "panic":
                panics.append((profile, "decode " + b.hex()))
            if profile == "dev":
                classes["decode_ok" if l.startswith("ok") else "decode_err"] += 1
        for b in cases["subres"]:
            if ol[pos] == "panic":
                panics.append((profile, "subres " + b.hex()))
            pos += 1
        for (sid, mode, k, b) in cases["reqrecv"]:
            l = ol[pos]
            pos += 1
            x = parse_rcv(l)
            if x == "panic":
                panics.append((profile, "reqrecv %d %s %d %s" % (sid, mode, k, b.hex())))
                continue
            if profile == "dev":
                if x[0] == 0:
                    classes["rcv_some"] += 1
                elif x[0] == 1:
                    classes["rcv_none"] += 1
                else:
                    classes["rcv_err"][l.split()[1]] = classes["rcv_err"].get(l.split()[1], 0) + 1
            if x[0] == 0:
                for (p, d) in x[1]:
                    for sl in ([p] if p else []) + [d]:
                        if sl[0] + sl[1] > len(b):
                            oob.append((profile, b.hex()))
                h = resp_header(b)
                if not h or h[0] != 0 or h[1] != sid or h[2] != k:
                    wrong_accept.append((profile, "reqrecv %d %s %d %s" % (sid, mode, k, b.hex())))
        for (sid, b) in cases["push"]:
            l = ol[pos]
            pos += 1
            x = parse_rcv(l)
            if x == "panic":
                panics.append((profile, "push %d %s" % (sid, b.hex())))
            elif x[0] == 0:
                for (p, d) in x[1]:
                    for sl in ([p] if p else []) + [d]:
                        if sl[0] + sl[1] > len(b):
                            oob.append((profile, b.hex()))
        for (tlen, msgs) in cases["resp"]:
            l = ol[pos]
            pos += 1
            if l.strip() == "panic":
                panics.append((profile, "resp %d %s" % (tlen, " ".join(m.hex() for m in msgs))))
            elif profile == "dev":
                for st in l.split(" | "):
                    classes["resp_steps"] += 1
                    pl = st.split()[1].split(":")
                    if pl[1] == "ok":
                        classes["resp_poll_ok"] += 1
                    else:
                        classes["resp_err"][pl[2]] = classes["resp_err"].get(pl[2], 0) + 1
    # ---- model side: same bytes through Wire.v / SyncReq.v / SyncResp.v, compared inside Coq
    store_term = S.coq_store(RealIds(), dump)
    gidn = int(gid.hex(), 16)
    mism_total = []
    for profile, dbg in (("dev", "true"), ("nodebug", "false")):
        ol = results[profile]
        items = []
        pos = 1
        for b in cases["decode"]:
            items.append(("decode", b, ol[pos]))
            pos += 1
        for b in cases["subres"]:
            items.append(("subres", b, ol[pos]))
            pos += 1
        for c in cases["reqrecv"]:
            items.append(("reqrecv", c, ol[pos]))
            pos += 1
        for c in cases["push"]:
            items.append(("push", c, ol[pos]))
            pos += 1
        for c in cases["resp"]:
            items.append(("resp", c, ol[pos]))
            pos += 1
        if profile == "nodebug" and not ctx.thorough:
            # the quick tier evaluates the model for the second profile on a third of the cases
            items = items[::3]

        def render(chunk, dbg=dbg):
            terms = []
            for (kind, c, l) in chunk:
                if l.strip() == "panic":
                    terms.append("false")
                    continue
                if kind == "decode":
                    terms.append("dclass_eqb (classify_decode %s) (%s)" % (S.coq_byte_list(c), parse_decode(l)))
                elif kind == "subres":
                    code = {"ok success": 0, "ok toomany": 1}.get(l.strip(), 2)
                    terms.append("(classify_subres %s =? %d)" % (S.coq_byte_list(c), code))
                elif kind == "reqrecv":
                    sid, mode, k, b = c
                    terms.append("reqrecv_eqb (reqrecv_out %s %s %d %d%%nat %s) %s" % (dbg, "true" if mode == "start" else "false", sid, k, S.coq_byte_list(b), coq_rcv(parse_rcv(l))))
                elif kind == "push":
                    sid, b = c
                    terms.append("reqrecv_eqb (push_out %s %d %s) %s" % (dbg, sid, S.coq_byte_list(b), coq_rcv(parse_rcv(l))))
                else:
                    tlen, msgs = c
                    steps = parse_resp_line(l, lambda h: int(h, 16))
                    exp = vlib.coq_list(["(%d, %s, %s)" % (a, e, "true" if rd else "false") for (a, e, rd) in steps])
                    terms.append("all2 resp_step_ok (resp_steps %s prov %d %s) %s" % (dbg, tlen, vlib.coq_list([S.coq_byte_list(m or b"\x00") for m in msgs]), exp))
            return ("Definition prov : provider := [(%d, %s)].\n" % (gidn, store_term)
                    + "Eval vm_compute in (mismatches (fun b : bool => b) %s).\n" % vlib.coq_list(terms))
        outs, chunks = vlib.coq_eval_sharded(ctx, "c18_" + profile, S.COQ_HEADER_STR, items, render, shard=max(20, len(items) // 14 + 1), timeout=1500)
        base = 0
        for (rc, o), ch in zip(outs, chunks):
            v = vlib.parse_coq_value(o) if rc == 0 else None
            if v is None:
                ctx.oblige("correspondence:model-eval", False, o[-3000:])
                return
            mism_total += [(profile, items[base + j][0], str(items[base + j][1])[:300], items[base + j][2][:200]) for j in v]
            base += len(ch)
    ctx.coverage.update({
        "traces_validated_against_impl": total * 2,
        "evaluations": total * 2,
        "distinct_nontrivial": len({b for b in cases["decode"]} | {c[3] for c in cases["reqrecv"]} | {c[1] for c in cases["push"]} | {tuple(c[1]) for c in cases["resp"]}),
        "rule": "case = byte string (or a sequence of them) fed to SyncIncoming::decode / SubscribeResponse::decode / SyncRequester::receive "
                "(after k accepted responses, both initial states) / receive_push / SyncResponder::receive+poll against a real 38-command store; "
                "valid encodings of every variant, structure-aware mutations (lengths, counts beyond capacity, session ids, indexes, truncation, "
                "extension, over-long varints) and random bytes; both build profiles (dev; debug-assertions off + overflow-checks on); "
                "model and implementation must agree on the exact outcome (variant, error class, slice offsets, responder output)",
        "distribution": {"cases_per_category": {k: len(v) for k, v in cases.items()}, "outcomes_dev_profile": classes,
                         "profiles": ["dev", "nodebug (debug-assertions=off, overflow-checks=on)"]},
        "samples": [{"decode": cases["decode"][i].hex()[:80], "impl": results["dev"][1 + i][:80]} for i in range(min(3, len(cases["decode"])))],
    })
    ctx.assumptions += ["postcard / serde / heapless are modelled from their documented format (Wire.v), not verified; a panic inside those crates would be found only by the fuzz side",
                        "responder side: the local store is well-formed (wf_store); the peer's bytes are arbitrary"]
    for (profile, what) in panics[:3]:
        ctx.violation("sync message handling panicked (%s profile)" % profile,
                      {"profile": profile, "case": what, "contradicts": "sync_decode_total (coq/props/C18.v)",
                       "replay_cmd": "printf 'setup %d\\n%s\\n' | build/target/%s/c18" % (world_n, what[:2000], "debug" if profile == "dev" else "nodebug")})
    for (profile, what) in (oob + wrong_accept)[:3 - min(3, len(panics))]:
        ctx.violation("requester accepted command data outside the received bytes / for another session or index",
                      {"profile": profile, "case": what, "contradicts": "slices_in_bounds / accepts_only_own_session_in_order (coq/props/C18.v)"})
    ctx.oblige("oracle:no-panic-both-profiles", not panics, str(panics[:3])[:1500])
    ctx.oblige("oracle:slices-in-bounds", not oob, str(oob[:3])[:800])
    ctx.oblige("oracle:only-own-session-in-order", not wrong_accept, str(wrong_accept[:3])[:800])
    ctx.oblige("correspondence:model=impl", not mism_total, str(mism_total[:4])[:3000])
