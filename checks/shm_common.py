"""Shared machinery of the C42 / C41 / C40 checks (unit `shm`).

A *case* is a dict
  {backend: "shm"|"mem", suite: "def"|"lim", cap, nreaders,
   prefix: [op], wprog: [op], rprogs: [[op]], sched: [tid], suffix: [op]}
with operations as tuples (see harness/hx-shm/src/lib.rs for the text form):
  ("a", dir, key, label, peer, seq0) ("r", id) ("ra",) ("rf", pred) ("we", id)
  ("ss", rd, id) ("so", rd, id) ("s", rd, ctx, mode) ("o", rd, ctx, key, label, valid, seq)
  ("e", rd, id) ("dc", rd, ctx)

This module renders cases for the Rust runner and for Coq, parses the
runner's output, and holds the property oracle: a linearizability-window
checker that evaluates C42/C41/C40 directly on the implementation's results.
"""
import vlib

SEQMAX = {"def": (1 << 64) - 1, "lim": 255}
NKEYS, NLABELS, NPEERS = 8, 4, 4
WRITER_OPS = ("a", "r", "ra", "rf", "we")


def is_w(op):
    return op[0] in WRITER_OPS


def reader_of(op):
    return None if is_w(op) else op[1]


# ---------------------------------------------------------------- text form for the runner

def op_text(op):
    k = op[0]
    if k == "a":
        return "a %s %d %d %d %d" % (op[1], op[2], op[3], op[4], op[5])
    if k == "s":
        return "s %d %d %s" % (op[1], op[2], op[3])
    if k == "o":
        return "o %d %d %d %d %d %d" % (op[1], op[2], op[3], op[4], 1 if op[5] else 0, op[6])
    return " ".join(str(x) for x in op)


def case_line(c, sched):
    return "%s %s %d %d | %s | %s | %s | %s | %s" % (
        c["backend"], c["suite"], c["cap"], c["nreaders"],
        "; ".join(map(op_text, c["prefix"])),
        "; ".join(map(op_text, c["wprog"])),
        " / ".join("; ".join(map(op_text, p)) for p in c["rprogs"]),
        " ".join(map(str, sched)),
        "; ".join(map(op_text, c["suffix"])))


# ---------------------------------------------------------------- Coq form

def pred_coq(p):
    k, a = p[0], p[1:]
    if k == "T":
        return "(fun _ _ _ _ => true)"
    if k == "F":
        return "(fun _ _ _ _ => false)"
    if k == "L":
        return "(fun _ l _ _ => N.eqb l %s)" % a
    if k == "P":
        return "(fun _ _ p _ => N.eqb p %s)" % a
    if k == "D":
        return "(fun _ _ _ d => dir_eqb d %s)" % ("DSeal" if a == "s" else "DOpen")
    if k == "I":
        return "(fun i _ _ _ => N.ltb i %s)" % a
    if k == "E":
        return "(fun i _ _ _ => N.eqb (N.modulo i 2) %s)" % a
    raise ValueError(p)


def pred_eval(p, cid, ch):
    k, a = p[0], p[1:]
    d, key, label, peer = ch[0], ch[1], ch[2], ch[3]
    return {"T": lambda: True, "F": lambda: False,
            "L": lambda: label == int(a), "P": lambda: peer == int(a),
            "D": lambda: d == a, "I": lambda: cid < int(a),
            "E": lambda: cid % 2 == int(a)}[k]()


def dcoq(d):
    return "DSeal" if d == "s" else "DOpen"


def wop_coq(op, mem=False):
    k = op[0]
    if k == "a":
        if mem:
            return "(MAdd %s %d %d %d %d)" % (dcoq(op[1]), op[2], op[3], op[4], op[5])
        return "(WAdd %s %d %d %d)" % (dcoq(op[1]), op[2], op[3], op[4])
    pre = "M" if mem else "W"
    if k == "r":
        return "(%sRemove %d)" % (pre, op[1])
    if k == "ra":
        return "%sRemoveAll" % pre
    if k == "rf":
        return "(%sRemoveIf %s)" % (pre, pred_coq(op[1]))
    if k == "we":
        return "(%sExists %d)" % (pre, op[1])
    raise ValueError(op)


def rop_coq(op, mem=False):
    k = op[0]
    pre = "C" if mem else "R"
    if k in ("ss", "so"):
        return "(%sSetup %s %d)" % (pre, "DSeal" if k == "ss" else "DOpen", op[2])
    if k == "s":
        return "(%sSeal %d%%nat %s)" % (pre, op[2], "MClient" if op[3] == "c" else "MFailF")
    if k == "o":
        return "(%sOpen %d%%nat %d %d %s)" % (pre, op[2], op[3], op[4], "true" if op[5] else "false")
    if k == "e":
        return "(%sExists %d)" % (pre, op[2])
    if k == "dc":
        return "(CDrop %d%%nat)" % op[2]
    raise ValueError(op)


def programs(c):
    """Per-thread programs of the whole case (prefix ++ middle ++ suffix)."""
    w = [o for o in c["prefix"] if is_w(o)] + list(c["wprog"]) + [o for o in c["suffix"] if is_w(o)]
    rs = []
    for i in range(c["nreaders"]):
        mid = c["rprogs"][i] if i < len(c["rprogs"]) else []
        rs.append([o for o in c["prefix"] if reader_of(o) == i] + list(mid) +
                  [o for o in c["suffix"] if reader_of(o) == i])
    return w, rs


def order_of(ops):
    return [0 if is_w(o) else o[1] + 1 for o in ops]


def nat_list(xs):
    return "[" + "; ".join("%d%%nat" % x for x in xs) + "]"


def n_list(xs):
    return "[" + "; ".join(str(x) for x in xs) + "]"


def pack(xs):
    """little-endian base-256 digits, value+1 each (decoded by Shm.unpack)"""
    n = 0
    for i, x in enumerate(xs):
        assert 0 <= x < 255
        n |= (x + 1) << (8 * i)
    return n


def classes_of(results):
    """Group the runs of one scenario by identical results; returns
    [((ew, er), [index into results ...])] in first-seen order."""
    order, groups = [], {}
    for i, res in enumerate(results):
        key = (tuple(map(tuple, res["w"])), tuple(tuple(map(tuple, p)) for p in res["r"]))
        if key not in groups:
            groups[key] = []
            order.append(key)
        groups[key].append(i)
    return [(k, groups[k]) for k in order]


def group_coq(c, results):
    """((cap, seqmax, wprog, rprogs, pre, suf), [(ew, er, [(packed sched, packed sites); ...]); ...]);
    also returns the order in which the runs are enumerated."""
    mem = c["backend"] == "mem"
    w, rs = programs(c)
    cls, order = [], []
    for (key, idxs) in classes_of(results):
        ew, er = key
        cls.append("(%s, %s, %s)" % (
            vlib.coq_list([n_list(x) for x in ew]),
            vlib.coq_list([vlib.coq_list([n_list(x) for x in p]) for p in er]),
            vlib.coq_list(["(%d, %d)" % (pack(results[i]["sched"]), pack(results[i]["sites"])) for i in idxs])))
        order += idxs
    return "((%d, %d, %s, %s, %s, %s), %s)" % (
        c["cap"], SEQMAX[c["suite"]],
        vlib.coq_list([wop_coq(o, mem) for o in w]),
        vlib.coq_list([vlib.coq_list([rop_coq(o, mem) for o in p]) for p in rs]),
        nat_list(order_of(c["prefix"])), nat_list(order_of(c["suffix"])),
        vlib.coq_list(cls)), order


COQ_HEADER = ("From Aranya Require Import base.Tactics base.Harness model.Shm model.MemAfc.\nOpen Scope N_scope.\n"
              "Definition llN_eqb := list_eqb lN_eqb.\nDefinition lllN_eqb := list_eqb llN_eqb.\n"
              "Definition runcls := (list (list N) * list (list (list N)) * list (N * N))%type.\n")


def render_chunk(chunk, mem):
    """chunk: list of (case, [result per schedule]); all of one backend.
    Returns (vernacular, order) where order[i] = (position in chunk, run index) of the i-th checked run."""
    ty_w = "mop" if mem else "wop"
    ty_r = "cop" if mem else "rop"
    fn = "mem_run_case" if mem else "run_case"
    items, order = [], []
    for pos, (c, rs) in enumerate(chunk):
        txt, o = group_coq(c, rs)
        items.append(txt)
        order += [(pos, i) for i in o]
    T = "((N * N * list %s * list (list %s) * list nat * list nat) * list runcls)" % (ty_w, ty_r)
    return ("Definition cases : list %s := %s.\n"
            "Definition chk (c : %s) : list bool :=\n"
            "  let '((cap, smax, wp, rps, pre, suf), classes) := c in\n"
            "  concat (map (fun cl : runcls => let '(ew, er, runs) := cl in\n"
            "    map (fun r : N * N =>\n"
            "      let '(mw, mr, mtr) := %s cap smax wp rps pre (map N.to_nat (unpack (fst r))) suf in\n"
            "      llN_eqb mw ew && lllN_eqb mr er && lN_eqb mtr (unpack (snd r))) runs) classes).\n"
            "Eval vm_compute in (mismatches (fun b : bool => b) (concat (map chk cases))).\n" % (T, vlib.coq_list(items), T, fn)), order


# ---------------------------------------------------------------- runner output

def parse_output(out, cases):
    """Split the runner's stdout into one result dict per case."""
    blocks, cur, hooks = [], [], None
    for l in out.splitlines():
        if l.startswith("H "):
            hooks = l.strip().endswith("1")
            continue
        if l == ".":
            blocks.append(cur)
            cur = []
        else:
            cur.append(l)
    results = []
    for c, b in zip(cases, blocks):
        res = {"w": [], "r": [[] for _ in range(c["nreaders"])], "sched": [], "sites": [], "bad": [], "raw": b,
               "seqlines": []}
        for l in b:
            tag, _, rest = l.partition(" ")
            if tag == "T":
                for ent in rest.split():
                    t, s = ent.split(":")
                    res["sched"].append(int(t))
                    res["sites"].append(int(s))
                continue
            if tag == "X":
                res["bad"].append(l)
                continue
            toks = rest.split()
            code = []
            for t in toks:
                if t.isdigit():
                    code.append(int(t))
                else:
                    break
            if not code or code[0] in (7, 9):
                res["bad"].append(l)
                code = code[:1] or [9]
            if tag == "W":
                res["w"].append(code)
            else:
                res["r"][int(tag[1:])].append(code)
        results.append(res)
    return results, hooks, len(blocks)


# ---------------------------------------------------------------- oracle

class Verdict:
    def __init__(self):
        self.fails = []      # (property, message)

    def fail(self, prop, msg):
        self.fails.append((prop, msg))


def table_apply(backend, cap, table, nadds, op):
    """Writer-sequential specification: the abstract table after one writer operation.
    table: dict id -> (dir, key, label, peer, seq0); returns (table', nadds', result_code)."""
    k = op[0]
    t = dict(table)
    if k == "a":
        cid = nadds
        if backend == "shm":
            if len(t) >= cap:
                return t, nadds + 1, [3]
            t[cid] = (op[1], op[2], op[3], op[4], 0)
        else:
            t[cid] = (op[1], op[2], op[3], op[4], op[5])
        return t, nadds + 1, [1, cid]
    if k == "r":
        t.pop(op[1], None)
        return t, nadds, [0]
    if k == "ra":
        return {}, nadds, [0]
    if k == "rf":
        return {i: ch for i, ch in t.items() if not pred_eval(op[1], i, ch)}, nadds, [0]
    if k == "we":
        return t, nadds, [2, 1 if op[1] in t else 0]
    raise ValueError(op)


def timeline(c, res):
    """Assign [start, end] times to every operation.  Sequential operations are points;
    scheduled operations span the grants of their steps (site 1 = the call starts)."""
    w, rs = programs(c)
    nthreads = 1 + c["nreaders"]
    spans = [[] for _ in range(nthreads)]      # per thread: list of (start, end)
    t = 0
    for o in c["prefix"]:
        th = 0 if is_w(o) else o[1] + 1
        spans[th].append((t, t))
        t += 1
    base = t
    cur = [None] * nthreads
    for g, (th, site) in enumerate(zip(res["sched"], res["sites"])):
        if site == 1:
            if cur[th] is not None:
                spans[th].append(tuple(cur[th]))
            cur[th] = [base + g, base + g]
        elif cur[th] is not None:
            cur[th][1] = base + g
    for th in range(nthreads):
        if cur[th] is not None:
            spans[th].append(tuple(cur[th]))
    t = base + len(res["sched"])
    for o in c["suffix"]:
        th = 0 if is_w(o) else o[1] + 1
        spans[th].append((t, t))
        t += 1
    return spans


def oracle(c, res):
    """Evaluate C42 / C41 / C40 on the implementation's results.  Returns a Verdict."""
    v = Verdict()
    backend, cap, smax = c["backend"], c["cap"], SEQMAX[c["suite"]]
    w, rs = programs(c)
    spans = timeline(c, res)
    if len(res["w"]) != len(w) or any(len(a) != len(b) for a, b in zip(res["r"], rs)) or \
            len(spans[0]) != len(w) or any(len(spans[i + 1]) != len(rs[i]) for i in range(len(rs))):
        v.fail("machinery", "result/operation count mismatch")
        return v
    # --- writer: its operations are totally ordered; tables[j] = table after j operations
    tables, nadds, seen_ids = [{}], 0, set()
    for j, op in enumerate(w):
        t2, nadds2, want = table_apply(backend, cap, tables[-1], nadds, op)
        got = res["w"][j]
        if op[0] == "a":
            full = backend == "shm" and len(tables[-1]) >= cap
            if got == [3] and not full:
                v.fail("C42", "add #%d reported out-of-space with %d/%d channels" % (j, len(tables[-1]), cap))
            elif got[:1] == [1] and full:
                v.fail("C42", "add #%d succeeded on a full table (%d/%d)" % (j, len(tables[-1]), cap))
            elif got[:1] == [1] and len(got) == 2:
                # the property: ids are never reused (the exact numbering is the model's business)
                if got[1] in seen_ids or (seen_ids and got[1] <= max(seen_ids)):
                    v.fail("C42", "add #%d returned id %d, already used or below an earlier id (seen %s)" % (j, got[1], sorted(seen_ids)[-4:]))
                seen_ids.add(got[1])
                if got != want:
                    # keep following the implementation's numbering
                    t2 = dict(tables[-1])
                    t2[got[1]] = (op[1], op[2], op[3], op[4], 0 if backend == "shm" else op[5])
            elif got[:1] not in ([1], [3]):
                v.fail("C42", "add #%d unexpected result %s" % (j, got))
        elif got != want:
            prop = "C42" if op[0] == "we" else "C41"
            v.fail(prop, "writer op #%d %s returned %s, specification %s" % (j, op, got, want))
        tables.append(t2)
        nadds = nadds2
    wspans = spans[0]

    def window(span):
        """indices j of the tables a reader operation spanning `span` may observe"""
        lo = sum(1 for (s, e) in wspans if e < span[0])
        hi = sum(1 for (s, e) in wspans if s <= span[1])
        return range(lo, hi + 1)

    # --- readers
    live_seal = {}        # mem: channel id -> (reader, ctx index) of the live seal loan
    mem_seq = {}          # mem: channel id -> next sequence number of the channel's seal key
    # interleave reader operations of all readers by start time for the memory loan bookkeeping
    events = []
    for i, prog in enumerate(rs):
        for n, op in enumerate(prog):
            events.append((spans[i + 1][n][0], i, n, op))
    events.sort()
    ctxs = [[] for _ in rs]   # per reader: list of dicts {kind, id, live, seq, dropped}
    for (_, i, n, op) in events:
        span = spans[i + 1][n]
        got = res["r"][i][n]
        win = [tables[j] for j in window(span)]
        k = op[0]
        where = "reader %d op #%d %s" % (i, n, op)
        if k == "e":
            allowed = {1 if op[2] in t else 0 for t in win}
            if got[:1] != [5] or got[1] not in allowed:
                v.fail("C41" if allowed == {0} else "C42", "%s returned %s, table says %s" % (where, got, sorted(allowed)))
        elif k in ("ss", "so"):
            d = "s" if k == "ss" else "o"
            present = {(op[2] in t and t[op[2]][0] == d) for t in win}
            if got[:1] == [0]:
                if present == {False}:
                    v.fail("C41", "%s handed out a context for an absent channel" % where)
                if got[1] != len(ctxs[i]):
                    v.fail("machinery", "%s ctx index %s, expected %d" % (where, got, len(ctxs[i])))
                if backend == "mem" and d == "s":
                    if op[2] in live_seal:
                        v.fail("C40", "%s: second live seal context for channel %d (first held by reader %d ctx %d)" % (
                            where, op[2], live_seal[op[2]][0], live_seal[op[2]][1]))
                    live_seal[op[2]] = (i, len(ctxs[i]))
                if backend == "mem" and d == "o":
                    pass
                ctxs[i].append({"kind": d, "id": op[2], "live": True, "seq": 0, "dropped": False})
            elif got == [1]:
                lent = backend == "mem" and any(x["id"] == op[2] and not x["dropped"] for r in ctxs for x in r)
                if present == {True} and not lent:
                    v.fail("C41", "%s NotFound for a channel that is present" % where)
            else:
                v.fail("machinery", "%s unexpected result %s" % (where, got))
        elif k == "dc":
            x = ctxs[i][op[2]] if op[2] < len(ctxs[i]) else None
            if x is not None:
                x["dropped"] = True
                if live_seal.get(x["id"]) == (i, op[2]):
                    del live_seal[x["id"]]
        elif k == "s":
            x = ctxs[i][op[2]] if op[2] < len(ctxs[i]) else None
            if x is None or x["kind"] != "s" or x["dropped"]:
                continue
            cid = x["id"]
            present = {cid in t for t in win}
            if backend == "shm" and not x["live"]:
                if got != [2]:
                    v.fail("C41", "%s on an emptied context returned %s (KeyExpired expected)" % (where, got))
                continue
            if got == [1]:
                if present == {True}:
                    v.fail("C41", "%s NotFound although channel %d was never removed" % (where, cid))
                if backend == "shm":
                    x["live"] = False
                continue
            if present == {False}:
                v.fail("C41", "%s returned %s although channel %d had been removed before the call" % (where, got, cid))
                continue
            ch = next(t[cid] for t in reversed(win) if cid in t)
            seqnow = mem_seq.setdefault(cid, ch[4]) if backend == "mem" else x["seq"]
            if op[3] == "f":
                if got != [3, op[2], 2, ch[2]]:
                    v.fail("C40", "%s (failing f) returned %s" % (where, got))
                continue
            if got == [2]:
                if seqnow < smax:
                    v.fail("C40", "%s KeyExpired at sequence number %d < limit %d" % (where, seqnow, smax))
                continue
            if got[:3] != [3, op[2], 0] or len(got) != 6:
                v.fail("machinery", "%s unexpected result %s" % (where, got))
                continue
            if got[3] != seqnow:
                v.fail("C40", "%s carried sequence number %d, expected %d" % (where, got[3], seqnow))
            if seqnow >= smax:
                v.fail("C40", "%s sealed at the sequence limit" % where)
            if (got[4], got[5]) != (ch[1], ch[2]):
                v.fail("C41", "%s used key/label %s, channel %d has %s" % (where, got[4:], cid, (ch[1], ch[2])))
            if backend == "mem":
                mem_seq[cid] = got[3] + 1
            else:
                x["seq"] = got[3] + 1
        elif k == "o":
            x = ctxs[i][op[2]] if op[2] < len(ctxs[i]) else None
            if x is None or x["kind"] != "o" or x["dropped"]:
                continue
            cid = x["id"]
            present = {cid in t for t in win}
            if got == [1]:
                if present == {True}:
                    v.fail("C41", "%s NotFound although channel %d was never removed" % (where, cid))
                continue
            if present == {False}:
                v.fail("C41", "%s returned %s although channel %d had been removed before the call" % (where, got, cid))
                continue
            ch = next(t[cid] for t in reversed(win) if cid in t)
            ok = ch[1] == op[3] and ch[2] == op[4] and op[5]
            want = [4, op[2], 1, ch[2]] if ok else [4, op[2], 0]
            if got != want:
                v.fail("C41", "%s returned %s, expected %s" % (where, got, want))
    for l in res["bad"]:
        v.fail("machinery", "runner reported: " + l[:200])
    return v


# ---------------------------------------------------------------- generators

def interleavings(counts):
    """All sequences over thread ids with counts[t] occurrences of t."""
    out = []

    def rec(prefix, rem):
        if not any(rem):
            out.append(list(prefix))
            return
        for t in range(len(rem)):
            if rem[t]:
                rem[t] -= 1
                prefix.append(t)
                rec(prefix, rem)
                prefix.pop()
                rem[t] += 1
    rec([], list(counts))
    return out


def steps_of(op):
    """upper bound on the number of steps (yield-point segments) of an operation"""
    return {"a": 7, "r": 6, "ra": 6, "rf": 6, "we": 3, "s": 4, "o": 4, "ss": 3, "so": 3, "e": 3, "dc": 1}[op[0]]


class Sim:
    """Generator-side bookkeeping (the sequential specification) used only to draw
    mostly-valid operations; the verdicts come from `oracle`, not from here."""

    def __init__(self, backend, cap, nreaders):
        self.backend, self.cap = backend, cap
        self.table, self.nadds = {}, 0
        self.ctxs = [[] for _ in range(nreaders)]

    def apply(self, op):
        if is_w(op):
            self.table, self.nadds, _ = table_apply(self.backend, self.cap, self.table, self.nadds, op)
        elif op[0] in ("ss", "so"):
            d = "s" if op[0] == "ss" else "o"
            ch = self.table.get(op[2])
            lent = self.backend == "mem" and any(x["id"] == op[2] and not x["dropped"] for r in self.ctxs for x in r)
            if ch is not None and ch[0] == d and not lent:
                self.ctxs[op[1]].append({"kind": d, "id": op[2], "dropped": False})
        elif op[0] == "dc":
            if op[2] < len(self.ctxs[op[1]]):
                self.ctxs[op[1]][op[2]]["dropped"] = True


def draw_add(r, mem=False, seq0=0):
    return ("a", r.choice(["s", "s", "o"]), r.below(NKEYS), r.below(NLABELS), r.below(NPEERS), seq0 if mem else 0)


def draw_pred(r, sim):
    k = r.choice(["L", "L", "P", "D", "I", "E", "T", "F"])
    if k == "L":
        return "L%d" % r.below(NLABELS)
    if k == "P":
        return "P%d" % r.below(NPEERS)
    if k == "D":
        return "D" + r.choice(["s", "o"])
    if k == "I":
        return "I%d" % r.below(sim.nadds + 2)
    if k == "E":
        return "E%d" % r.below(2)
    return k


def some_id(r, sim, bias_live=3):
    live = sorted(sim.table)
    if live and r.below(bias_live + 1):
        return r.choice(live)
    return r.below(sim.nadds + 2)       # removed, live or never allocated


def draw_op(r, sim, weights, suite):
    """weights: dict kind -> weight over a, r, ra, rf, we, ss, so, s, sf, o, e, dc"""
    kinds = [k for k, wgt in weights.items() for _ in range(wgt)]
    mem = sim.backend == "mem"
    nread = len(sim.ctxs)
    for _ in range(20):
        k = r.choice(kinds)
        rd = r.below(nread)
        if k == "a":
            seq0 = 0
            if mem and r.chance(1, 6):
                seq0 = SEQMAX[suite] - r.below(3)
            return draw_add(r, mem, seq0)
        if k == "r":
            return ("r", some_id(r, sim))
        if k == "ra":
            return ("ra",)
        if k == "rf":
            return ("rf", draw_pred(r, sim))
        if k == "we":
            return ("we", some_id(r, sim, 1))
        if k == "e":
            return ("e", rd, some_id(r, sim, 1))
        if k in ("ss", "so"):
            want = "s" if k == "ss" else "o"
            good = [i for i, ch in sorted(sim.table.items()) if ch[0] == want]
            if good and r.below(5):
                return (k, rd, r.choice(good))
            return (k, rd, some_id(r, sim))        # possibly wrong direction / absent
        if k in ("s", "sf"):
            cs = [i for i, x in enumerate(sim.ctxs[rd]) if x["kind"] == "s" and not x["dropped"]]
            if cs:
                return ("s", rd, r.choice(cs), "f" if k == "sf" else "c")
        if k == "o":
            cs = [i for i, x in enumerate(sim.ctxs[rd]) if x["kind"] == "o" and not x["dropped"]]
            if cs:
                c = r.choice(cs)
                ch = sim.table.get(sim.ctxs[rd][c]["id"])
                key, lab = (ch[1], ch[2]) if ch else (r.below(NKEYS), r.below(NLABELS))
                mode = r.below(6)
                if mode == 0:
                    key = (key + 1 + r.below(NKEYS - 1)) % NKEYS
                elif mode == 1:
                    lab = (lab + 1 + r.below(NLABELS - 1)) % NLABELS
                return ("o", rd, c, key, lab, mode != 2, r.below(200))
        if k == "dc" and mem:
            cs = [i for i, x in enumerate(sim.ctxs[rd]) if not x["dropped"]]
            if cs:
                return ("dc", rd, r.choice(cs))
    return ("we", some_id(r, sim, 1))


PROFILES = {
    # C42: table contents, ids, capacity
    "table": {"a": 10, "r": 4, "ra": 1, "rf": 3, "we": 5, "e": 5, "ss": 2, "so": 1, "s": 2, "o": 1},
    # C41: removals against contexts with cached keys
    "remove": {"a": 5, "r": 5, "ra": 1, "rf": 3, "we": 1, "e": 3, "ss": 4, "so": 3, "s": 8, "sf": 1, "o": 5, "dc": 1},
    # C40: long seal runs across table changes and failures
    "seq": {"a": 3, "r": 2, "rf": 1, "ss": 3, "so": 1, "s": 16, "sf": 3, "o": 1, "e": 1, "dc": 2},
    # malformed stream: mostly operations on things that do not exist
    "malformed": {"r": 4, "rf": 2, "ra": 1, "we": 3, "e": 3, "ss": 5, "so": 5, "a": 2, "s": 3, "o": 2},
}


def gen_seq_case(r, backend, suite, profile, nops=None):
    cap = r.choice([1, 2, 3, 4, 6]) if backend == "shm" else 8
    nreaders = r.choice([1, 2])
    sim = Sim(backend, cap, nreaders)
    ops = []
    n = nops or r.range(8, 40)
    for _ in range(n):
        op = draw_op(r, sim, PROFILES[profile], suite)
        ops.append(op)
        sim.apply(op)
    # final observation of every id from both sides
    for i in range(sim.nadds + 1):
        ops.append(("we", i))
        ops.append(("e", r.below(nreaders), i))
    return {"backend": backend, "suite": suite, "cap": cap, "nreaders": nreaders, "prefix": ops,
            "wprog": [], "rprogs": [], "scheds": [[]], "suffix": [], "kind": "seq:" + profile}


def gen_limit_case(r, backend):
    """Run a seal context to its sequence limit (1-byte nonce: 255 messages) with table changes in between."""
    nreaders = 1
    ops = [("a", "s", 1, 0, 0, 0), ("a", "o", 2, 1, 1, 0), ("ss", 0, 0)]
    sim = Sim(backend, 4, nreaders)
    for o in ops:
        sim.apply(o)
    for i in range(258):
        ops.append(("s", 0, 0, "f" if r.chance(1, 40) else "c"))
        if r.chance(1, 25):
            o = r.choice([("a", "o", 3, 2, 2, 0), ("r", sim.nadds - 1), ("rf", "L2"), ("we", 0)])
            ops.append(o)
            sim.apply(o)
    return {"backend": backend, "suite": "lim", "cap": 4, "nreaders": nreaders, "prefix": ops,
            "wprog": [], "rprogs": [], "scheds": [[]], "suffix": [], "kind": "seq:limit"}


def conc_scenarios(which):
    """Hand-picked 1 writer op || 1 reader op scenarios on the shared-memory state.
    Prefix: channels 0 (seal, key 1, label 0), 1 (open, key 2, label 1), 2 (seal, key 3, label 2);
    reader 0 holds a warm seal ctx 0 on channel 0, a warm open ctx 1 on channel 1, a seal ctx 2 on channel 2."""
    base = [("a", "s", 1, 0, 0, 0), ("a", "o", 2, 1, 1, 0), ("a", "s", 3, 2, 2, 0),
            ("ss", 0, 0), ("so", 0, 1), ("ss", 0, 2),
            ("s", 0, 0, "c"), ("o", 0, 1, 2, 1, True, 7), ("s", 0, 2, "c")]
    stale = base + [("a", "o", 4, 3, 3, 0), ("r", 3)]        # bump the generation: caches are stale
    suffix = [("s", 0, 0, "c"), ("s", 0, 0, "c"), ("o", 0, 1, 2, 1, True, 9), ("s", 0, 2, "c"),
              ("we", 0), ("we", 1), ("we", 2), ("we", 3), ("we", 4), ("we", 5),
              ("e", 0, 0), ("e", 0, 1), ("e", 0, 2), ("e", 0, 3), ("e", 0, 4), ("e", 0, 5),
              ("ss", 0, 0), ("so", 0, 1)]
    wops = {
        "removal": [("r", 0), ("r", 1), ("ra",), ("rf", "L0"), ("rf", "Do"), ("r", 2)],
        "table": [("a", "s", 5, 3, 3, 0), ("a", "o", 6, 1, 1, 0), ("rf", "F"), ("we", 0), ("r", 9), ("ra",), ("r", 1)],
        "seq": [("a", "o", 5, 3, 3, 0), ("r", 1), ("rf", "L1"), ("r", 2), ("rf", "F")],
    }[which]
    rops = {
        "removal": [("s", 0, 0, "c"), ("o", 0, 1, 2, 1, True, 8), ("e", 0, 0), ("e", 0, 1), ("ss", 0, 0), ("so", 0, 1)],
        "table": [("e", 0, 0), ("e", 0, 3), ("e", 0, 1), ("ss", 0, 3), ("s", 0, 0, "c")],
        "seq": [("s", 0, 0, "c"), ("s", 0, 0, "f"), ("s", 0, 2, "c")],
    }[which]
    out = []
    for pre, pname in ((base, "warm"), (stale, "stale")):
        for wop in wops:
            for rop in rops:
                out.append((pre, [wop], [[rop]], suffix, "%s:%s||%s" % (pname, op_text(wop), op_text(rop))))
    return out


def gen_conc_cases(which, cap=4, full_table=False):
    """Exhaustive interleavings of 1 writer operation || 1 reader operation."""
    cases = []
    for (pre, wprog, rprogs, suffix, name) in conc_scenarios(which):
        counts = [sum(steps_of(o) for o in wprog)] + [sum(steps_of(o) for o in p) for p in rprogs]
        cases.append({"backend": "shm", "suite": "def", "cap": cap, "nreaders": 1, "prefix": pre,
                      "wprog": wprog, "rprogs": rprogs, "scheds": interleavings(counts), "suffix": suffix,
                      "kind": "conc1:" + name})
    return cases


def gen_conc_two(which, r, per_scenario):
    """1 writer operation || 2 reader operations on one reader thread: exhaustive when
    `per_scenario` is None, else that many PCT-style random schedules."""
    cases = []
    scen = conc_scenarios(which)
    for (pre, wprog, rprogs, suffix, name) in scen:
        for (_, _, rprogs2, _, name2) in scen:
            if r.below(len(scen)) >= 2 and per_scenario is not None:
                continue
            rp = [rprogs[0] + rprogs2[0]]
            counts = [sum(steps_of(o) for o in wprog), sum(steps_of(o) for o in rp[0])]
            if per_scenario is None:
                scheds = interleavings(counts)
            else:
                scheds = [pct_schedule(r, counts) for _ in range(per_scenario)]
            cases.append({"backend": "shm", "suite": "def", "cap": 4, "nreaders": 1, "prefix": pre,
                          "wprog": wprog, "rprogs": rp, "scheds": scheds, "suffix": suffix,
                          "kind": "conc2:" + name + "+" + name2.split("||")[1]})
    return cases


def pct_schedule(r, counts, depth=2):
    """PCT-style: random thread priorities, `depth` random priority change points."""
    n = sum(counts)
    prio = list(range(len(counts)))
    r.shuffle(prio)
    change = sorted(r.below(n) for _ in range(depth))
    rem = list(counts)
    out = []
    for i in range(n):
        while change and change[0] == i:
            change.pop(0)
            j = r.below(len(prio))
            prio.append(prio.pop(j))          # demote a random thread to the lowest priority
        for t in prio:
            if rem[t]:
                rem[t] -= 1
                out.append(t)
                break
    return out


def gen_conc_random(r, profile, n_w, n_r, nreaders, nsched):
    """Random writer program || random reader programs, PCT-style schedules."""
    backend, suite, cap = "shm", "def", r.choice([2, 3, 4])
    sim = Sim(backend, cap, nreaders)
    pre = []
    for _ in range(r.range(3, 8)):
        op = draw_op(r, sim, {"a": 6, "ss": 4, "so": 2, "s": 3, "o": 1, "r": 1}, suite)
        pre.append(op)
        sim.apply(op)
    wprog = []
    wsim_weights = {k: v for k, v in PROFILES[profile].items() if k in WRITER_OPS}
    for _ in range(n_w):
        op = draw_op(r, sim, wsim_weights, suite)
        wprog.append(op)
        sim.apply(op)
    rprogs = [[] for _ in range(nreaders)]
    rw = {k: v for k, v in PROFILES[profile].items() if k not in WRITER_OPS and k != "dc"}
    for i in range(nreaders):
        for _ in range(n_r):
            for _ in range(10):
                op = draw_op(r, sim, rw, suite)
                if not is_w(op) and op[1] == i:
                    break
            else:
                op = ("e", i, some_id(r, sim))
            rprogs[i].append(op)
            sim.apply(op)
    suffix = []
    for i in range(sim.nadds + 1):
        suffix.append(("we", i))
        suffix.append(("e", r.below(nreaders), i))
    for i in range(nreaders):
        for c, x in enumerate(sim.ctxs[i]):
            if x["kind"] == "s":
                suffix.append(("s", i, c, "c"))
    counts = [sum(steps_of(o) for o in wprog)] + [sum(steps_of(o) for o in p) for p in rprogs]
    scheds = [pct_schedule(r, counts, depth=r.range(1, 4)) for _ in range(nsched)]
    return {"backend": backend, "suite": suite, "cap": cap, "nreaders": nreaders, "prefix": pre,
            "wprog": wprog, "rprogs": rprogs, "scheds": scheds, "suffix": suffix, "kind": "concR:" + profile}


# ---------------------------------------------------------------- the whole correspondence run

def run_suite(ctx, binp, cases, name, prop):
    """Run implementation and model on `cases`; returns a stats dict.
    Obligations: harness ran, model=impl, oracle.  Violations are reported for
    oracle failures of property `prop` (other properties' failures are logged)."""
    import time
    flat = [(ci, si) for ci, c in enumerate(cases) for si in range(len(c["scheds"]))]
    t0 = time.time()
    inp = "".join(case_line(cases[ci], cases[ci]["scheds"][si]) + "\n" for (ci, si) in flat)
    rc, out, err = vlib.run_bin(binp, input=inp, timeout=2400)
    results, hooks, nblocks = parse_output(out, [cases[ci] for (ci, _) in flat])
    if rc != 0 or nblocks != len(flat):
        # the runner died (abort / signal): the case after the last complete block is the failing input
        detail = "rc=%d blocks=%d/%d %s" % (rc, nblocks, len(flat), (out[-500:] + err[-1500:]))
        if nblocks < len(flat):
            ci, si = flat[nblocks]
            line = case_line(cases[ci], cases[ci]["scheds"][si])
            rc1, out1, err1 = vlib.run_bin(binp, input=line + "\n", timeout=600)
            if rc1 != 0 and len(ctx.violations) < 3:
                ctx.violation("%s: the runner crashed (exit status %d: memory corruption / abort inside the implementation) on this case" % (prop, rc1),
                              {"case": {k: cases[ci][k] for k in ("backend", "suite", "cap", "nreaders", "prefix", "wprog", "rprogs", "suffix", "kind")},
                               "schedule": cases[ci]["scheds"][si], "impl_output": out1.splitlines()[-20:], "stderr": err1[-1500:],
                               "replay_cmd": "echo '%s' | build/target/debug/%s" % (line, prop.lower())})
        ctx.oblige("harness:run:" + name, False, detail)
        return None
    t_impl = time.time() - t0
    needs_hooks = any(c["wprog"] or any(c["rprogs"]) for c in cases)
    if needs_hooks:
        ctx.oblige("harness:hooks-active:" + name, bool(hooks), "runner was built without --cfg aranya_core_verif")
    # oracle on the implementation's results
    fails = []
    for fi, ((ci, si), res) in enumerate(zip(flat, results)):
        v = oracle(cases[ci], res)
        for (p, msg) in v.fails:
            fails.append((fi, p, msg))
    # model side
    groups = {}
    for fi, ((ci, si), res) in enumerate(zip(flat, results)):
        groups.setdefault(ci, []).append((fi, res))
    mism = []
    model_failed = None
    for mem in (False, True):
        items = [(cases[ci], rs) for ci, rs in sorted(groups.items()) if (cases[ci]["backend"] == "mem") == mem]
        if not items:
            continue
        # shard by number of runs (about 400 per file)
        shards, cur, cnt = [], [], 0
        for it in items:
            cur.append(it)
            cnt += len(it[1])
            if cnt >= 1500:
                shards.append(cur)
                cur, cnt = [], 0
        if cur:
            shards.append(cur)
        from concurrent.futures import ThreadPoolExecutor

        def one(ish):
            i, sh = ish
            txt, order = render_chunk([(c, [r for (_, r) in rs]) for (c, rs) in sh], mem)
            rc_o = vlib.coq_eval(ctx, "%s_%s_%d" % (name, "mem" if mem else "shm", i), COQ_HEADER + txt, 1800)
            return rc_o, order
        with ThreadPoolExecutor(max_workers=4) as ex:
            outs = list(ex.map(one, enumerate(shards)))
        for ((rc2, o), order), sh in zip(outs, shards):
            val = vlib.parse_coq_value(o) if rc2 == 0 else None
            if val is None:
                model_failed = o[-2000:]
                continue
            mism += [sh[order[j][0]][1][order[j][1]][0] for j in val]
    t_all = time.time() - t0
    ctx.log("%s: %d runs of %d cases; impl %.1fs, total %.1fs; mismatches %d; oracle failures %d" % (
        name, len(flat), len(cases), t_impl, t_all, len(mism), len(fails)))
    # report
    mine = [f for f in fails if f[1] == prop]
    others = [f for f in fails if f[1] != prop]
    for (fi, p, msg) in mine[:max(0, 3 - len(ctx.violations))]:
        ci, si = flat[fi]
        c = cases[ci]
        ctx.violation("%s violated: %s" % (p, msg),
                      {"case": {k: c[k] for k in ("backend", "suite", "cap", "nreaders", "prefix", "wprog", "rprogs", "suffix", "kind")},
                       "schedule": results[fi]["sched"], "sites": results[fi]["sites"],
                       "impl_output": results[fi]["raw"],
                       "replay_cmd": "echo '%s' | build/target/debug/%s" % (case_line(c, c["scheds"][si]), prop.lower())})
    ctx.oblige("oracle:%s:%s" % (prop, name), not mine, "; ".join("%d: %s" % (f[0], f[2]) for f in mine[:3]))
    ctx.oblige("oracle:other-properties:" + name, not others, "; ".join("%s %d: %s" % (f[1], f[0], f[2]) for f in others[:3]))
    first = ""
    if mism:
        ci, si = flat[mism[0]]
        first = "first: %s -> impl %r" % (case_line(cases[ci], cases[ci]["scheds"][si]), results[mism[0]]["raw"])
    if model_failed is not None:
        ctx.oblige("correspondence:model-eval:" + name, False, model_failed)
    ctx.oblige("correspondence:model=impl:" + name, not mism, "model and implementation differ on runs %s; %s" % (mism[:5], first[:3000]))
    return {"runs": len(flat), "cases": len(cases), "results": results, "flat": flat, "mismatches": mism,
            "oracle_failures": fails, "t_impl": t_impl, "t_all": t_all}


def distribution(cases, stats_list):
    """Measured distribution over everything that ran."""
    d = {"ops": {}, "results": {}, "kinds": {}, "backends": {}}
    nontrivial = set()
    for cases_, st in zip(cases, stats_list):
        if st is None:
            continue
        for (ci, si), res in zip(st["flat"], st["results"]):
            c = cases_[ci]
            kind = c["kind"].split(":")[0]
            d["kinds"][kind] = d["kinds"].get(kind, 0) + 1
            d["backends"][c["backend"] + "/" + c["suite"]] = d["backends"].get(c["backend"] + "/" + c["suite"], 0) + 1
            w, rs = programs(c)
            for o in w + [o for p in rs for o in p]:
                d["ops"][o[0]] = d["ops"].get(o[0], 0) + 1
            cls = set()
            for code in res["w"]:
                key = "w:" + {0: "ok", 1: "added", 2: "exists", 3: "out-of-space"}.get(code[0], "other")
                if code[0] == 2:
                    key += "=%d" % code[1]
                d["results"][key] = d["results"].get(key, 0) + 1
                cls.add(key)
            for p in res["r"]:
                for code in p:
                    key = "r:" + {0: "ctx", 1: "not-found", 2: "key-expired", 3: "sealed", 4: "opened", 5: "exists", 8: "dropped"}.get(code[0], "other")
                    if code[0] == 3:
                        key += ":ok" if code[2] == 0 else ":f-failed"
                    if code[0] == 4:
                        key += ":ok" if code[2] == 1 else ":auth-failed"
                    d["results"][key] = d["results"].get(key, 0) + 1
                    cls.add(key)
            if len(cls) >= 4:
                nontrivial.add((case_line(c, []), tuple(res["sched"])))
    return d, len(nontrivial)


# ---------------------------------------------------------------- the check proper (shared by C42 / C41 / C40)

def standard_check(ctx, prop, cfg):
    """cfg: {seq: [(backend, suite, profile, quick_n, thorough_n)], limit: (quick_n, thorough_n) or None,
             conc: scenario family, conc_quick: number of scenarios sampled in the quick tier,
             conc2_quick / conc2_thorough: (scenario pairs, schedules per pair or None for exhaustive),
             rand: (profile, quick_cases, thorough_cases)}"""
    vlib.regen(ctx)
    # the models are rebuilt even when a pinned lemma of the proof cone no longer compiles
    vlib.prove(ctx, extra_targets=["model/Shm.vo", "model/MemAfc.vo"])
    binp = vlib.cargo_build(ctx, "hx-shm", bin=prop.lower())
    if not binp:
        return
    r = ctx.rng
    th = ctx.thorough
    suites, stats = [], []
    # (i) sequential operation sequences on both states
    seq_cases = []
    for (backend, suite, profile, qn, tn) in cfg["seq"]:
        for _ in range(tn if th else qn):
            seq_cases.append(gen_seq_case(r, backend, suite, profile))
    if cfg.get("limit"):
        for i in range(cfg["limit"][1] if th else cfg["limit"][0]):
            seq_cases.append(gen_limit_case(r, ["shm", "mem"][i % 2]))
    suites.append(("seq", seq_cases))
    # (ii) schedule replay: exhaustive 1 writer op || 1 reader op
    conc = gen_conc_cases(cfg["conc"])
    if not th:
        r.shuffle(conc)
        conc = conc[:cfg["conc_quick"]]
    suites.append(("conc1", conc))
    # 1 writer op || 2 reader ops
    pairs, per = cfg["conc2_thorough"] if th else cfg["conc2_quick"]
    conc2 = gen_conc_two(cfg["conc"], r, per)
    r.shuffle(conc2)
    suites.append(("conc2", conc2[:pairs]))
    # random programs, PCT-style schedules
    profile, qn, tn = cfg["rand"]
    rnd = []
    for i in range(tn if th else qn):
        rnd.append(gen_conc_random(r, profile, r.range(1, 3), r.range(1, 3), r.choice([1, 2, 2]), 40 if th else 12))
    suites.append(("pct", rnd))
    for (name, cases) in suites:
        stats.append(run_suite(ctx, binp, cases, name, prop) if cases else None)
    dist, nontrivial = distribution([c for (_, c) in suites], stats)
    good = [s for s in stats if s]
    total_runs = sum(s["runs"] for s in good)
    ctx.coverage.update({
        "traces_validated_against_impl": total_runs,
        "evaluations": total_runs,
        "distinct_nontrivial": nontrivial,
        "rule": "a run = one case line (sequential operation list, or prefix + scheduled writer||reader part + suffix) executed on the "
                "real shm/memory state and on the Coq model, results and yield-site trace compared inside Coq; non-trivial = at least "
                "four different result classes occur in the run; distinct by (case text, effective schedule)",
        "distribution": dist,
        "suites": {name: {"cases": len(cases), "runs": (st or {}).get("runs"), "impl_s": round((st or {}).get("t_impl", 0), 1),
                          "total_s": round((st or {}).get("t_all", 0), 1)}
                   for (name, cases), st in zip(suites, stats)},
        "schedules_exhaustive_1w_1r": sum(len(c["scheds"]) for c in suites[1][1]),
        "samples": [{"case": case_line(c, c["scheds"][0]), "impl": stats[i]["results"][0]["raw"][:12]}
                    for i, (_, cs) in enumerate(suites) for c in cs[:1] if stats[i]],
    })
    ctx.assumptions += [
        "sequentially consistent interleavings of the model's steps (one atomic access or one mutex-protected section each)",
        "generation counters below 2^32 where a statement says so; single writer; the writer does not die inside an operation",
        "remove_if's callback is a pure predicate of (id, label, peer, direction)",
        "AEAD modelled symbolically in the correspondence (open succeeds iff same key, label, untampered)",
    ]
