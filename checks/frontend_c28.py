"""C28, part of unit `frontend`: determinism of compilation (two-process byte comparison, the regenerated
hash-collection ledger) and faithfulness of module loading, on top of harness/hx-frontend bin c28.

`run_extra(ctx)` adds these obligations to a C28 run that has already called vlib.regen / vlib.prove
(coq/props/C28.v contains the theorems of both units); `run(ctx)` is the stand-alone form."""
import os
import re
import sys

import vlib

sys.path.insert(0, os.path.dirname(os.path.abspath(__file__)))
sys.path.insert(0, os.path.join(vlib.ROOT, "tools"))
import frontend_cases as fc  # noqa: E402

TABLES = ["actions", "commands", "facts", "structs", "enums"]
RT_MEANING = {
    "twice": "compiling the same AST twice in one process gives different modules",
    "cb_eq": "a module decoded from its CBOR encoding differs from the original",
    "cb_re": "re-encoding the CBOR-decoded module gives different bytes",
    "rk_eq": "a module read back from its rkyv archive differs from the original",
    "rk_re": "re-archiving the rkyv-decoded module gives different bytes",
    "mach_cb": "the machine loaded from the CBOR-decoded module differs from the machine of the original module",
    "mach_rk": "the machine loaded from the rkyv-decoded module differs from the machine of the original module",
    "exec_cb": "an entry point gives a different result on the machine reloaded through CBOR",
    "exec_rk": "an entry point gives a different result on the machine reloaded through rkyv",
}


def hexs(t):
    return t.encode("utf-8", "surrogatepass").hex()


def parse_out(out):
    main, names, detail = {}, {}, {}
    for l in out.splitlines():
        if l.startswith("@@ "):
            p = l.split()
            main[int(p[1])] = dict(x.split("=", 1) for x in p[2:])
        elif l.startswith("@@N "):
            p = l.split(" ", 2)
            tabs = {}
            for part in p[2].split(";"):
                k, v = part.split("=", 1)
                a, b = v.split("|")
                tabs[k] = ([x for x in a.split(",") if x], [x for x in b.split(",") if x])
            names[int(p[1])] = tabs
        elif l.startswith("@@D "):
            p = l.split(" ", 2)
            detail[int(p[1])] = p[2]
    return main, names, detail


def key_lit(s):
    return "[" + "; ".join("%d" % b for b in s.encode()) + "]"


def run(ctx):
    vlib.regen(ctx)
    vlib.prove(ctx)
    run_extra(ctx, merge=False)


def run_extra(ctx, merge=True):
    """merge=True: keep the caller's coverage fields, put this part under coverage['frontend_determinism']"""
    saved = dict(ctx.coverage) if merge else None
    _run(ctx)
    if merge:
        mine = {k: v for k, v in ctx.coverage.items() if k not in saved or saved[k] != v}
        ctx.coverage.clear()
        ctx.coverage.update(saved)
        ctx.coverage["frontend_determinism"] = mine


def _run(ctx):
    binp = vlib.cargo_build(ctx, "hx-frontend", bin="c28")
    if not binp:
        return
    cases = fc.generate_policies(vlib.REPO, ctx.rng, 6000 if ctx.thorough else 700)
    inp = "".join("%s %s\n" % (m, hexs(t)) for (m, t, o) in cases)
    runs = []
    for k in range(2):          # two separate processes: two RandomState seeds
        rc, out, err = vlib.run_bin(binp, input=inp, timeout=3000)
        ok = rc == 0 and "@@END" in out
        ctx.oblige("frontend:harness:run-%d" % k, ok, (out[-500:] + err[-1500:]))
        if not ok:
            return
        runs.append(parse_out(out))
    (A, namesA, detA), (B, namesB, detB) = runs
    ctx.oblige("frontend:harness:all-cases-ran", len(A) == len(cases) and len(B) == len(cases), "%d / %d / %d" % (len(A), len(B), len(cases)))

    # ---- oracle: the property, on the implementation's outputs
    bad = []     # (index, what)
    for i in range(len(cases)):
        a, b = A.get(i, {}), B.get(i, {})
        if a.get("C") == "panic" or b.get("C") == "panic":
            continue    # a front-end panic is property C27's business
        if a.get("C") != b.get("C"):
            bad.append((i, "the two processes disagree on whether the policy compiles: %s vs %s" % (a.get("C"), b.get("C"))))
            continue
        if a.get("C") != "ok":
            continue
        for k, what in (("cb", "CBOR encoding"), ("rk", "rkyv archive")):
            if a.get(k) != b.get(k):
                bad.append((i, "compiling the same text in two processes gives different modules (%s %s vs %s)" % (what, a.get(k), b.get(k))))
        if a.get("EX") != b.get("EX"):
            bad.append((i, "entry points give different results in the two processes (%s vs %s)" % (a.get("EX"), b.get("EX"))))
        for side, d, det in (("A", a, detA), ("B", b, detB)):
            for kv in d.get("RT", "").split(","):
                k, _, v = kv.partition("=")
                if v != "1":
                    bad.append((i, "%s [%s]" % (RT_MEANING.get(k, k), det.get(i, "")[:200])))
        # unique names / nothing lost (the hypothesis and the conclusion of module_load_faithful, observed)
        for t in TABLES:
            mod, mach = namesA.get(i, {}).get(t, ([], []))
            if len(set(mod)) != len(mod):
                bad.append((i, "compiled module has duplicate %s names: %s" % (t, mod)))
            elif sorted(mod, key=lambda s: s.encode()) != mach:
                bad.append((i, "loading loses or reorders %s definitions: module %s, machine %s" % (t, mod, mach)))
    seen = set()
    for (i, what) in bad:
        if what[:60] in seen or len(seen) >= 3:
            continue
        seen.add(what[:60])
        m, t, o = cases[i]
        ctx.violation("C28 violated: " + what, {
            "mode": m, "text": t, "text_hex": hexs(t), "origin": o, "process_A": A.get(i), "process_B": B.get(i),
            "names": namesA.get(i), "contradicts": "determinism_sites_discharged / module_load_faithful (coq/props/C28.v)",
            "replay_cmd": "for k in 1 2; do echo '%s %s' | build/target/debug/c28; done" % (m, hexs(t))})
    ctx.oblige("frontend:oracle:deterministic-and-round-trips", not bad, "%d findings; first: %s" % (len(bad), bad[:2]))

    # ---- model side: from_vec on the module's name vectors = the machine's key order (vm_compute)
    items = []
    for i in sorted(namesA):
        for t in TABLES:
            mod, mach = namesA[i][t]
            if mod or mach:
                items.append((i, t, mod, mach))

    def render(chunk):
        rows = ["(%s, %s)" % (vlib.coq_list(mod, key_lit), vlib.coq_list(mach, key_lit)) for (_i, _t, mod, mach) in chunk]
        return ("Definition cases : list (list key * list key) := %s.\n"
                "Definition chk (c : list key * list key) : bool :=\n"
                "  list_eqb (list_eqb N.eqb) (to_vec key (from_vec key (fun k => k) (fst c))) (snd c).\n"
                "Eval vm_compute in (mismatches chk cases).\n" % vlib.coq_list(rows))
    header = "From Aranya Require Import base.Tactics base.Harness model.ModuleMap.\nOpen Scope N_scope.\n"
    outs, chunks = vlib.coq_eval_sharded(ctx, "fe_c28", header, items, render, shard=600)
    mism, base, bad_eval = [], 0, None
    for (rc, o), ch in zip(outs, chunks):
        v = vlib.parse_coq_value(o) if rc == 0 else None
        if v is None:
            bad_eval = o[-1500:]
            break
        mism += [base + j for j in v]
        base += len(ch)
    ctx.oblige("frontend:correspondence:model-eval", bad_eval is None, bad_eval or "")
    ctx.oblige("frontend:correspondence:from_module-model=impl", not mism and items,
               "model and Machine::from_module differ on %s" % [items[j] for j in mism[:3]])

    # ---- class counts of the determinism ledger
    rc, o = vlib.coq_eval(ctx, "fe_c28_classes",
                          "From Coq Require Import String List.\nFrom Aranya Require Import proofs.Determinism gen.GenDeterminism.\nOpen Scope string_scope.\n"
                          'Eval vm_compute in (length hash_uses, det_class_count "membership", det_class_count "ordered", '
                          'det_class_count "element", det_class_count "passed").\n')
    m = re.search(r"=\s*\((\d+), (\d+), (\d+), (\d+), (\d+)\)", o) if rc == 0 else None
    counts = [int(x) for x in m.groups()] if m else None
    ctx.oblige("frontend:ledger:class-counts", counts is not None and counts[0] == sum(counts[1:]), o[-600:])

    compiled = [i for i in range(len(cases)) if A.get(i, {}).get("C") == "ok"]
    by_origin = {}
    for i, (m_, t, o_) in enumerate(cases):
        k = o_.split(":")[0] + ":" + o_.split(":")[1].split("/")[0] if o_.startswith("generated") else o_.split(":")[0]
        b = by_origin.setdefault(k, {"cases": 0, "compiled": 0})
        b["cases"] += 1
        b["compiled"] += A.get(i, {}).get("C") == "ok"
    entries = sum(int(A[i]["EX"].split(":")[0]) for i in compiled)
    steps = sum(int(A[i].get("ST", "0")) for i in compiled)
    ctx.coverage.update({
        "traces_validated_against_impl": len(items),
        "evaluations": 2 * len(cases),
        "distinct_nontrivial": len({cases[i][1] for i in compiled}),
        "rule": "case = policy text; every case is compiled in two separate processes; non-trivial = distinct texts that compile "
                "(their modules are serialized by ciborium and rkyv, decoded, re-encoded, loaded, and every action / function / command "
                "policy / seal / open / recall block is executed on the original and on both reloaded machines); traces_validated = "
                "(module, definition table) pairs whose name vector was run through the Coq model of from_module and compared with the real Machine",
        "distribution": {"by_origin": by_origin, "entry_points_executed_per_process": entries, "vm_steps_per_process": steps,
                         "serialized_forms": ["CBOR (serde, ciborium — the form policy-compiler writes)", "rkyv archive (to_bytes / from_bytes with bytecheck)"],
                         "tables_with_definitions": {t: sum(1 for it in items if it[1] == t) for t in TABLES}},
        "determinism_ledger": dict(zip(["uses", "membership", "ordered", "element", "passed_to"], counts)) if counts else None,
        "samples": [{"origin": cases[i][2], "A": A[i], "names": namesA.get(i)} for i in compiled[:3]],
    })
    ctx.assumptions += [
        "serde (ciborium) and rkyv derives are trusted to round-trip plain data; the run checks it on every compiled module, it is not proved",
        "a hash collection is modelled as an association list in arbitrary order; rows classified ordered / element / passed-to are audited statements about declared types",
        "determinism of compilation as a whole is observed (two processes, byte equality), the proof covers the hash-collection uses only; "
        "petgraph's DiGraphMap / TarjanScc and indexmap are taken to iterate in insertion order as documented",
    ]
