"""C16 — repeated sync delivers everything."""
import importlib.util
import os

import vlib

_spec = importlib.util.spec_from_file_location("_sync_lib", os.path.join(os.path.dirname(os.path.abspath(__file__)), "_sync_lib.py"))
S = importlib.util.module_from_spec(_spec)
_spec.loader.exec_module(S)

SAMPLE_MAX = 100
F11_CLASS = "requester ahead of the common history by more than the sample size, empty peer cache"


def f11_world(g, r):
    """B builds the common chain one command per segment, A catches up, then A runs > COMMAND_SAMPLE_MAX actions ahead."""
    lines = ["world 2", "init 1 %d 8" % g.nn()]
    g.acts(lines, 1, r.choice([110, 120, 150]), prio=0)
    lines.append("conv 0 1 8 sid=%d" % r.range(1, 500))
    g.acts(lines, 0, r.choice([101, 120, 150]), prio=0)
    g.acts(lines, 1, r.choice([1, 2, 3]), prio=1)
    lines.append("forget 0 1")
    lines.append("conv 0 1 14 sid=%d" % r.range(1000, 5000))
    return {"kind": "f11", "lines": lines}


def conv_world(g, r, base):
    """a generated history, then convergence loops between random pairs"""
    lines = list(base["lines"])
    k = int(lines[0].split()[1])
    sid = 100000
    for _ in range(r.choice([1, 2])):
        a = r.below(k)
        b = r.choice([x for x in range(k) if x != a])
        if r.chance(1, 3):
            lines.append("forget %d %d" % (a, b))
        sid += 1000
        # a third of the loops run every session with receive buffers that are too small first (retries with larger ones)
        bufs = (" bufs=" + r.choice(SMALL_BUFS)) if r.chance(1, 3) else ""
        lines.append("conv %d %d 16 sid=%d%s%s" % (a, b, sid, " maxpolls=8" if base["kind"] == "bigseg" else "", bufs))
    return {"kind": "conv:" + base["kind"], "lines": lines}


SMALL_BUFS = ["3,40/0,41/3/60,200", "0/3,40/3,40/2", "40/40/3,40/40/3", "3,40,300/3/0,5000/3"]


def midfork_world(g, r):
    """The requester advertises a command strictly INSIDE a responder segment that has further commands after it.
    Per stage: the author (client 0) extends its chain; requester Q_s copies the prefix up to a middle command and adds
    its own child of it; the author finishes the stage; the responder (client 1) receives the stage's commands in ONE
    transaction (one segment).  Optionally the responder also holds the fork branch (the fork's prior is mid-segment)."""
    stages = r.choice([1, 2, 2, 3])
    k = 2 + 2 * stages
    lines = ["world %d" % k, "init 0 %d 8" % g.nn()]
    g.acts(lines, 0, r.choice([1, 2]), prio=0)
    if r.chance(1, 2):
        lines.append("feed 1 0")
    learn = []
    reqs = []
    for s_ in range(stages):
        n = r.choice([3, 4, 4, 6, 9, 12, 40, 130] if s_ else [4, 4, 5, 8, 12, 40, 130, 250])
        m = r.choice([1, 2, n // 2, n - 1, r.range(1, n - 1)])
        m = max(1, min(m, n - 1))
        q, q2 = 2 + 2 * s_, 3 + 2 * s_
        g.acts(lines, 0, m, prio=0)
        lines.append("feed %d 0" % q)
        g.acts(lines, q, r.choice([1, 1, 2, 5]), prio=r.choice([0, 1]))
        g.acts(lines, 0, n - m, prio=0)
        lines.append("feed 1 0")
        if r.chance(1, 2):
            # the requester is a copy that received prefix + fork branch in ONE transaction: it advertises the branch tip
            # but NOT the fork point; the responder holds the branch, whose prior lies mid-segment
            lines.append("feed %d %d" % (q2, q))
            learn.append(q)
            reqs.append(q2)
        else:
            if r.chance(1, 2):
                learn.append(q)
            reqs.append(q)
    sid = 50000
    for q in learn:
        sid += 1
        lines.append("sess 1 %d sid=%d" % (q, sid))                # the responder holds the fork branch too
    r.shuffle(reqs)
    for q in reqs:
        sid += 1000
        bufs = (" bufs=" + r.choice(SMALL_BUFS)) if r.chance(1, 3) else ""
        lines.append("conv %d 1 10 sid=%d maxpolls=12 cache=%s%s" % (q, sid, r.choice(["keep", "fresh"]), bufs))
    return {"kind": "midfork", "lines": lines}


def gen_cases(ctx):
    rp = S.replay_script(ctx)
    if rp:
        return [{"kind": "replay", "lines": rp}]
    g = S.WorldGen(ctx.rng)
    r = ctx.rng
    n_f11, n_small, n_long, n_str = (6, 150, 12, 12) if ctx.thorough else (1, 16, 2, 2)
    cases = [f11_world(g, r) for _ in range(n_f11)]
    cases += [conv_world(g, r, g.small()) for _ in range(n_small)]
    cases += [conv_world(g, r, g.long_chain()) for _ in range(n_long)]
    cases += [conv_world(g, r, g.straddle()) for _ in range(n_str)]
    cases += [conv_world(g, r, g.partial()) for _ in range(max(2, n_str // 2))]
    cases += [conv_world(g, r, g.bigseg()) for _ in range(4 if ctx.thorough else 1)]
    cases += [midfork_world(g, r) for _ in range(50 if ctx.thorough else 8)]
    return cases


def flatten(events):
    """[(op, kind, payload)] with conv chunks expanded; kind in dump/sess/other"""
    out = []
    for (op, chunk) in events:
        k = op.split()[0]
        if k == "dump" and chunk:
            out.append((op, "dump", S.parse_dump(chunk[0])))
        elif k == "sess":
            out.append((op, "sess", S.parse_session(chunk)))
        elif k == "conv":
            t = op.split()
            pair = [int(t[1]), int(t[2])]
            n = 0
            for (kk, pl) in S.sub_events(chunk):
                if kk == "sess":
                    a, b = (pair[0], pair[1]) if n % 2 == 0 else (pair[1], pair[0])
                    n += 1
                    out.append(("sess %d %d (in %s)" % (a, b, op), "sess", pl))
                else:
                    out.append((op, "dump", pl))
            out.append((op, "convdone", chunk[-1] if chunk else ""))
        else:
            out.append((op, "other", chunk))
    return out


def sessions_with_dumps(flat):
    """[(op, requester id, responder id, requester dump, responder dump, session)]"""
    last = {}
    out = []
    for (op, kind, pl) in flat:
        if kind == "dump":
            last[pl["client"]] = pl
        elif kind == "sess":
            t = op.split()
            a, b = int(t[1]), int(t[2])
            out.append((op, a, b, last.get(a), last.get(b), pl))
    return out


def stream_ids(sess):
    return [c["id"] for a in sess["attempts"] if a["ok"] and a.get("msg") and a["msg"]["kind"] == "resp" for c in a["msg"]["cmds"]]


def run(ctx):
    vlib.regen(ctx)
    vlib.prove(ctx, extra_targets=["model/SyncCases.vo", "model/SyncAnc.vo", "proofs/SyncWfCheck.vo"])
    binp = vlib.cargo_build(ctx, "hx-sync", bin="c17")
    if not binp:
        return
    cases = gen_cases(ctx)
    findings = ctx.known_findings()
    f11 = next((f for f in findings if f.get("id") == "F11"), None)
    items = []          # sessions for the model comparison
    viol = []
    known_hits = 0
    stats = {"worlds": 0, "sessions": 0, "sessions_with_missing": 0, "sessions_delivering_new": 0, "quiescent_sessions": 0,
             "f11_sessions": 0, "conv_loops": 0, "conv_rounds_max": 0, "new_commands_total": 0, "redundant_commands_total": 0,
             "sample_full": 0, "sessions_responder_over_100_segments": 0, "have_inside_segment": 0, "sessions_with_frontier_progress": 0, "nonempty_sessions": 0,
             "sessions_with_failing_polls": 0, "failed_polls": 0, "complete_sessions_checked": 0, "complete_sessions_after_failing_polls": 0,
             "fork_inside_responder_segment": 0, "kinds": {}}
    wf_bad = []
    for ci, case in enumerate(cases):
        ev, err = S.run_world(binp, case)
        if err:
            ctx.oblige("harness:run", False, err)
            return
        flat = flatten(ev)
        stats["worlds"] += 1
        stats["kinds"][case["kind"].split(":")[0]] = stats["kinds"].get(case["kind"].split(":")[0], 0) + 1
        dag = S.Dag()
        for (op, kind, pl) in flat:
            if kind == "dump" and "error" not in pl:
                dag.add_dump(pl)
        for si, (op, a, b, da, db, sess) in enumerate(sessions_with_dumps(flat)):
            if db is None or "error" in db or sess["req"] != "ok":
                continue
            com_b = S.committed(db)
            com_a = S.committed(da) if da and "error" not in da else set()
            missing = com_b - com_a
            stream = stream_ids(sess)
            new = [x for x in stream if x not in com_a]
            msgs = [at["msg"] for at in sess["attempts"] if at["ok"] and at.get("msg")]
            ended = bool(msgs) and msgs[-1]["kind"] == "end"
            stats["sessions"] += 1
            stats["sessions_with_missing"] += 1 if missing else 0
            stats["sessions_delivering_new"] += 1 if new else 0
            stats["new_commands_total"] += len(set(new))
            stats["redundant_commands_total"] += len(stream) - len(new)
            stats["sample_full"] += 1 if len(sess["sample"]) >= SAMPLE_MAX else 0
            stats["sessions_responder_over_100_segments"] += 1 if len(db["segs"]) > 100 else 0
            tips_b = {s_["cmds"][-1]["id"] for s_ in db["segs"]}
            stats["have_inside_segment"] += 1 if any(x[0] in com_b and x[0] not in tips_b for x in sess["sample"]) else 0
            # a have-location strictly inside a responder segment, with further commands after it that the requester lacks
            pos_b = {c["id"]: (s_["idx"], k_, len(s_["cmds"])) for s_ in db["segs"] for k_, c in enumerate(s_["cmds"])}
            stats["fork_inside_responder_segment"] += 1 if any(
                x[0] in pos_b and pos_b[x[0]][1] + 1 < pos_b[x[0]][2] and
                any(c["id"] not in com_a for s_ in db["segs"] if s_["idx"] == pos_b[x[0]][0] for c in s_["cmds"][pos_b[x[0]][1] + 1:])
                for x in sess["sample"]) else 0
            w = S.dump_wf(db)
            if w:
                wf_bad.append((ci, si, w[:2]))
            why = None
            if any(x not in com_b for x in stream):
                why = "session delivered a command the responder has not committed"
            elif any(s_.startswith("err") for s_ in sess["adds"]):
                why = "requester could not ingest the delivered commands: " + [s_ for s_ in sess["adds"] if s_.startswith("err")][0][:60]
            elif ended and not stream:
                stats["quiescent_sessions"] += 1
                if missing:
                    why = "session delivered nothing although the responder holds %d commands the requester lacks" % len(missing)
            elif ended and missing and not new:
                # no missing command delivered: only tolerated for the recorded class F11
                cache = (sess.get("cache_before") or {}).get("req", [])
                a_only = sum(1 for s_ in (da["segs"] if da else []) if s_["cmds"][-1]["id"] not in com_b)
                in_class = len(sess["sample"]) >= SAMPLE_MAX and a_only + len(cache) >= SAMPLE_MAX
                if in_class and f11 is not None:
                    stats["f11_sessions"] += 1
                    known_hits += 1
                    ctx.report_known(f11, "a session delivers only commands the requester already holds although commands are missing "
                                          "(class: %s) [F11]" % F11_CLASS)
                else:
                    why = "session delivered %d commands, none of the %d missing ones (not the recorded F11 class: sample %d, requester-only segments %d, cache %d)" % (
                        len(stream), len(missing), len(sess["sample"]), a_only, len(cache))
            fails = [at for at in sess["attempts"] if not at["ok"] and at["err"] in ("BufferTooSmall", "Serialize")]
            stats["sessions_with_failing_polls"] += 1 if fails else 0
            stats["failed_polls"] += len(fails)
            hh = max([dag.mc[x[0]] for x in sess["sample"] if x[0] in com_b] or [0])
            no_jump = all(h[2] <= hh + SAMPLE_MAX for h in db["heads"])      # skip_jump target = highest have + SEGMENT_BUFFER_MAX
            if ended and not why and len(db["segs"]) <= 100 and no_jump:
                # an untruncated session (at most SEGMENT_BUFFER_MAX segments, no skip-jump below the heads) that finished with
                # SyncEnd delivers every command of the responder that is not an ancestor-or-equal of an advertised command
                # (the model's ideal message sequence) — also after failing polls
                adv0 = dag.ancestors([x[0] for x in sess["sample"] if x[0] in com_b])
                owed = com_b - adv0
                stats["complete_sessions_checked"] += 1
                stats["complete_sessions_after_failing_polls"] += 1 if fails else 0
                if not owed <= set(stream):
                    why = "session ended with SyncEnd but skipped %d of the %d commands it had to send%s" % (
                        len(owed - set(stream)), len(owed), " (after %d polls that failed for lack of buffer space)" % len(fails) if fails else "")
            if stream:
                # frontier progress (hypothesis of the measure theorem; measured, not a violation by itself: a session
                # that delivers no missing command while some are missing is judged above)
                adv = dag.ancestors([x[0] for x in sess["sample"] if x[0] in com_b])
                stats["sessions_with_frontier_progress"] += 0 if all(x in adv for x in stream) else 1
                stats["nonempty_sessions"] += 1
            if why:
                viol.append((ci, si, why, case, op))
            items.append((ci, si, da, db, sess, op))
        # convergence loops: quiescent in both directions => equal committed sets
        last = {}
        for (op, kind, pl) in flat:
            if kind == "dump":
                last[pl["client"]] = pl
            elif kind == "convdone":
                t = op.split()
                a, b, maxr = int(t[1]), int(t[2]), int(t[3])
                rounds = int(pl.split("=")[1]) if "=" in pl else maxr
                stats["conv_loops"] += 1
                stats["conv_rounds_max"] = max(stats["conv_rounds_max"], rounds)
                da, db = last.get(a), last.get(b)
                if da and db and "error" not in da and "error" not in db:
                    if rounds >= maxr:
                        viol.append((ci, -1, "syncing in both directions did not become quiescent within %d rounds" % maxr, case, op))
                    elif S.committed(da) != S.committed(db):
                        viol.append((ci, -1, "both directions quiescent but the committed sets differ (%d vs %d commands)" % (len(S.committed(da)), len(S.committed(db))), case, op))
    # ---- model side: requester sample and responder plan on the dumped layouts
    def render(chunk):
        defs = []
        names = []
        for k, (ci, si, da, db, sess, op) in enumerate(chunk):
            ids = S.Ids(S.dump_ids(db) + (S.dump_ids(da) if da and "error" not in da else []) + [x[0] for x in sess["sample"]])
            xs, tl = [], []
            for at in sess["attempts"]:
                tl.append(str(at["buf"]))
                if not at["ok"]:
                    xs.append("XErr %d" % S.err_code(at["err"]))
                else:
                    m = at.get("msg") or {"kind": "?"}
                    if m["kind"] == "resp":
                        xs.append("XResp %d %d %s %d %d" % (m["sid"], m["idx"], vlib.coq_list([ids.get(c["id"]) for c in m["cmds"]]), m["hdr"], m["data"]))
                    elif m["kind"] == "end":
                        xs.append("XEnd %d %d" % (m["sid"], m["max"]))
                    elif m["kind"] == "endsession":
                        xs.append("XEndSession %d" % m["sid"])
                    else:
                        xs.append("XErr 98")
            sample = vlib.coq_list([S.coq_addr(ids, x) for x in sess["sample"]])
            defs.append("Definition sb%d := %s.\n" % (k, S.coq_store(ids, db)))
            term = "check_session true sb%d 1 %d 0 %s %s %s && wf_storeb sb%d" % (k, sess["sid"], sample, vlib.coq_list(tl), vlib.coq_list(xs), k)
            if da and "error" not in da:
                cache = (sess.get("cache_before") or {}).get("req", [])
                cl = vlib.coq_list(["(%d, L %d %d)" % (ids.get(h[0]), h[2], h[1]) for h in cache])
                defs.append("Definition sa%d := %s.\n" % (k, S.coq_store(ids, da)))
                term += " && sample_is sa%d %s %s && wf_storeb sa%d" % (k, cl, sample, k)
            defs.append("Definition c%d := %s.\n" % (k, term))
            names.append("c%d" % k)
        return "".join(defs) + "Eval vm_compute in (mismatches (fun b : bool => b) %s).\n" % vlib.coq_list(names)
    header = S.COQ_HEADER_STR.replace("model.SyncCases.", "model.SyncCases model.SyncAnc proofs.SyncWfCheck.") + (
        "Definition sample_is (st : store) (cache : list (N * loc)) (expect : list addr) : bool :=\n"
        "  match sample is_ancestor st [] cache with ROk l => list_eqb addr_eqb l expect | _ => false end.\n")
    outs, chunks = vlib.coq_eval_sharded(ctx, "c16", header, items, render, shard=max(4, len(items) // 12 + 1), timeout=1500)
    mism = []
    base = 0
    for (rc, o), ch in zip(outs, chunks):
        v = vlib.parse_coq_value(o) if rc == 0 else None
        if v is None:
            ctx.oblige("correspondence:model-eval", False, o[-3000:])
            return
        mism += [base + j for j in v]
        base += len(ch)
    ctx.coverage.update({
        "traces_validated_against_impl": len(items),
        "evaluations": stats["sessions"],
        "distinct_nontrivial": stats["sessions_with_missing"],
        "rule": "trace = one complete session between two real ClientStates inside convergence loops (alternating directions until both deliver "
                "nothing, update_heads fed the received addresses); compared with the Coq model on the dumped layouts of BOTH replicas: the "
                "requester's sample (SyncReq.sample with the peer cache printed by the runner), the responder's messages (SyncResp), and "
                "wf_storeb of both stores; non-trivial = the responder held commands the requester lacked",
        "distribution": stats,
        "samples": [{"op": op, "sample_len": len(sess["sample"]), "delivered": len(stream_ids(sess))} for (ci, si, da, db, sess, op) in items[:3]],
    })
    ctx.assumptions += ["wf_store of both replicas (checked by wf_storeb on every dumped layout inside Coq)",
                        "exactness of get_location / is_ancestor (C11) and the PeerCache contents (C20) are taken from the implementation's own output",
                        "the measure theorem sessions_bounded is conditional on frontier progress and on the cache being fed (checked per session by the oracle)"]
    for (ci, si, why, case, op) in viol[:3]:
        ctx.violation("repeated sync: " + why,
                      {"script": case["lines"], "session_op": op, "session_index": si,
                       "contradicts": "needed_nonempty / quiescence_complete / bidirectional_quiescence (coq/props/C16.v)",
                       "replay_cmd": "printf '%s\\n' <script lines> | build/target/debug/c17"})
    ctx.oblige("storage:dump-satisfies-wf_store", not wf_bad, str(wf_bad[:3]))
    ctx.oblige("correspondence:model=impl", not mism,
               "sessions %s differ from the model (first: case %d %s)" % (mism[:5], items[mism[0]][0] if mism else -1, items[mism[0]][5] if mism else ""))
    ctx.oblige("oracle:progress-quiescence-convergence", not viol, str([(v[0], v[1], v[2]) for v in viol[:3]])[:1500])
    ctx.oblige("finding:F11-reobserved-on-its-replay", f11 is None or known_hits > 0 or bool(S.replay_script(ctx)),
               "the recorded finding F11 was not re-observed on its own replay world: update known_findings.d/F11.json")
