"""C17 — sync sessions are sound and terminate."""
import importlib.util
import os

import vlib

_spec = importlib.util.spec_from_file_location("_sync_lib", os.path.join(os.path.dirname(os.path.abspath(__file__)), "_sync_lib.py"))
S = importlib.util.module_from_spec(_spec)
_spec.loader.exec_module(S)

RESP_MAX = 100


def gen_cases(ctx):
    rp = S.replay_script(ctx)
    if rp:
        return [{"kind": "replay", "lines": rp}]
    g = S.WorldGen(ctx.rng)
    n_small, n_long, n_str, n_ovf = (260, 24, 24, 6) if ctx.thorough else (20, 2, 3, 1)
    cases = []
    for _ in range(n_small):
        cases.append(g.small())
    for _ in range(n_long):
        cases.append(g.long_chain())
    for _ in range(n_str):
        cases.append(g.straddle())
    for _ in range(n_ovf):
        cases.append(g.overflow())
    for _ in range(max(2, n_str // 2)):
        cases.append(g.partial())
    for _ in range(10 if ctx.thorough else 2):
        cases.append(g.bigseg())
    return cases


def sessions_of(events):
    """[(responder dump, requester dump, session, op line)] in script order."""
    out = []
    dumps = {}
    order = []
    for (op, chunk) in events:
        k = op.split()[0]
        if k == "dump" and chunk:
            d = S.parse_dump(chunk[0])
            order.append(d)
        elif k == "sess":
            t = op.split()
            a, b = int(t[1]), int(t[2])
            rd = next((d for d in reversed(order) if d["client"] == b), None)
            qd = next((d for d in reversed(order) if d["client"] == a), None)
            out.append((rd, qd, S.parse_session(chunk), op, any(l.startswith("panic in") for l in chunk)))
            order = []
    return out


def stream_of(sess):
    msgs = [a["msg"] for a in sess["attempts"] if a["ok"] and a.get("msg")]
    resp = [m for m in msgs if m["kind"] == "resp"]
    return msgs, resp, [c for m in resp for c in m["cmds"]]


def oracle(dag, rd, sess, completed):
    """The property, evaluated on the implementation's own output.  Returns a list of complaints."""
    bad = []
    msgs, resp, stream = stream_of(sess)
    com = S.committed(rd)
    # every command sent is committed at the responder
    for c in stream:
        if c["id"] not in com:
            bad.append("sent a command that is not committed at the responder: %s" % c["id"][:10])
            break
    # parents first: earlier in the stream, or an ancestor-or-equal of an advertised command
    adv = dag.ancestors([a[0] for a in sess["sample"] if a[0] in dag.parents])
    seen = set()
    for c in stream:
        for p in c["parents"]:
            if p[0] not in seen and p[0] not in adv:
                bad.append("command %s arrives before its parent %s" % (c["id"][:10], p[0][:10]))
                break
        seen.add(c["id"])
        if bad:
            break
    # the requester could add all of them, in order
    for a in sess["adds"]:
        if a.startswith("err"):
            bad.append("requester could not ingest a response: " + a[:60])
            break
    # indexes 0,1,2,…; at most COMMAND_RESPONSE_MAX per response; all but the last response are full
    for k, m in enumerate(resp):
        if m["idx"] != k:
            bad.append("response index %d at position %d" % (m["idx"], k))
            break
        if len(m["cmds"]) > RESP_MAX:
            bad.append("response with %d commands" % len(m["cmds"]))
        if k + 1 < len(resp) and len(m["cmds"]) != RESP_MAX:
            bad.append("non-final response %d carries %d commands" % (k, len(m["cmds"])))
    ends = [m for m in msgs if m["kind"] == "end"]
    had_hard_error = any((not a["ok"]) and a["err"] not in ("BufferTooSmall", "Serialize") for a in sess["attempts"])
    if completed and not had_hard_error:
        if len(ends) != 1 or msgs[-1]["kind"] != "end":
            bad.append("session did not finish with exactly one end message")
        elif ends[0]["max"] != len(resp):
            bad.append("end message max_index %d after %d responses" % (ends[0]["max"], len(resp)))
        if sess["ready_after"] != 0:
            bad.append("responder still ready after the end message")
    return bad


def render_session(ids, rd, sess):
    xs = []
    tl = []
    for a in sess["attempts"]:
        tl.append(str(a["buf"]))
        if not a["ok"]:
            xs.append("XErr %d" % S.err_code(a["err"]))
        else:
            m = a.get("msg") or {"kind": "?"}
            if m["kind"] == "resp":
                xs.append("XResp %d %d %s %d %d" % (m["sid"], m["idx"], vlib.coq_list([ids.get(c["id"]) for c in m["cmds"]]), m["hdr"], m["data"]))
            elif m["kind"] == "end":
                xs.append("XEnd %d %d" % (m["sid"], m["max"]))
            elif m["kind"] == "endsession":
                xs.append("XEndSession %d" % m["sid"])
            else:
                xs.append("XErr 98")
    sample = vlib.coq_list([S.coq_addr(ids, a) for a in sess["sample"]])
    return S.coq_store(ids, rd), sess["sid"], sample, vlib.coq_list(tl), vlib.coq_list(xs)


def run(ctx):
    vlib.regen(ctx)
    vlib.prove(ctx, extra_targets=["model/SyncCases.vo", "proofs/SyncWfCheck.vo"])
    binp = vlib.cargo_build(ctx, "hx-sync", bin="c17")
    if not binp:
        return
    cases = gen_cases(ctx)
    backends = [()]
    libc_root = None
    if ctx.thorough:
        libc_root = os.path.join(vlib.BUILD, "cases", ctx.pid, "libc")
        import shutil
        shutil.rmtree(libc_root, ignore_errors=True)
        os.makedirs(libc_root, exist_ok=True)
    items = []            # (case index, session index, rd, sess, op)
    violations = []
    stats = {"sessions": 0, "responses": 0, "commands_sent": 0, "failed_attempts": 0, "exact_fit_polls": 0, "straddling_resumes": 0,
             "sessions_over_100_segments": 0, "sessions_multi_response": 0, "sample_full": 0, "overflow_errors": 0,
             "multi_head_responders": 0, "merge_commands_sent": 0, "single_response_sessions": 0, "retry_then_success": 0,
             "libc_worlds": 0, "have_inside_segment": 0, "kinds": {}}
    wf_bad = []
    retry_bad = []
    for ci, case in enumerate(cases):
        use_libc = ctx.thorough and ci % 5 == 4
        args = ("libc", libc_root) if use_libc else ()
        ev1, err = S.run_world(binp, case, args)
        if err:
            ctx.oblige("harness:run", False, err)
            return
        s1 = sessions_of(ev1)
        case2 = S.add_bufs(ctx.rng, case, [x[2] for x in s1])
        ev2, err = S.run_world(binp, case2, args)
        if err:
            ctx.oblige("harness:run", False, err)
            return
        s2 = sessions_of(ev2)
        stats["kinds"][case["kind"]] = stats["kinds"].get(case["kind"], 0) + 1
        stats["libc_worlds"] += 1 if use_libc else 0
        dag = S.Dag()
        for (rd, qd, _, _, _) in s2:
            for d in (rd, qd):
                if d and "error" not in d:
                    dag.add_dump(d)
        for si, (rd, qd, sess, op, panicked) in enumerate(s2):
            if rd is None or "error" in rd or sess["req"] != "ok":
                continue
            w = S.dump_wf(rd)
            if w:
                wf_bad.append((ci, si, w[:2]))
            completed = "maxpolls=1 " not in (op + " ") and not panicked
            bad = oracle(dag, rd, sess, completed)
            if case["kind"] == "bigseg" and completed:
                # linear layouts, at most a handful of segments: the session must deliver exactly the missing commands,
                # each once, and finish within ceil(total/100)+1 successful polls (maxpolls is that bound)
                sent = [c["id"] for c in stream_of(sess)[2]]
                adv_ = dag.ancestors([a[0] for a in sess["sample"] if a[0] in dag.parents])
                missing = S.committed(rd) - adv_
                okpolls = sum(1 for a in sess["attempts"] if a["ok"])
                if len(set(sent)) != len(sent):
                    bad.append("the session sent a command twice (%d sent, %d distinct)" % (len(sent), len(set(sent))))
                elif set(sent) != missing:
                    bad.append("the session delivered %d of the %d missing commands" % (len(set(sent) & missing), len(missing)))
                if not any(a["ok"] and a.get("msg") and a["msg"]["kind"] == "end" for a in sess["attempts"]):
                    bad.insert(0, "no SyncEnd within ceil(total/100)+1 = %d polls (%d commands were missing)" % ((len(missing) + 99) // 100 + 1, len(missing)))
                elif okpolls > (len(missing) + 99) // 100 + 1:
                    bad.append("session needed %d polls for %d commands" % (okpolls, len(missing)))
            if panicked:
                bad.append("panic inside the session")
            # retry transparency: the successful messages equal those of the retry-free first pass
            # (responses and the end message; the courtesy EndSession after an error is not part of the statement)
            keep = lambda att: [a["msg"] for a in att if a["ok"] and a.get("msg") and a["msg"]["kind"] in ("resp", "end")]
            m1 = keep(s1[si][2]["attempts"]) if si < len(s1) else None
            m2 = keep(sess["attempts"])
            if m1 is not None and m1 != m2:
                retry_bad.append((ci, si))
                bad.append("a poll that failed for lack of buffer space changed what the session delivers")
            if bad:
                violations.append((ci, si, bad[0], case2, op))
            items.append((ci, si, rd, sess, op))
            msgs, resp, stream = stream_of(sess)
            stats["sessions"] += 1
            stats["responses"] += len(resp)
            stats["commands_sent"] += len(stream)
            fails = [a for a in sess["attempts"] if not a["ok"] and a["err"] in ("BufferTooSmall", "Serialize")]
            stats["failed_attempts"] += len(fails)
            stats["retry_then_success"] += 1 if fails and any(a["ok"] for a in sess["attempts"]) else 0
            stats["exact_fit_polls"] += sum(1 for a in sess["attempts"] if a["ok"] and a["buf"] == a["len"])
            stats["sessions_over_100_segments"] += 1 if len(rd["segs"]) > 100 else 0
            stats["sessions_multi_response"] += 1 if len(resp) > 1 else 0
            stats["single_response_sessions"] += 1 if not completed else 0
            stats["sample_full"] += 1 if len(sess["sample"]) >= 100 else 0
            stats["overflow_errors"] += sum(1 for a in sess["attempts"] if not a["ok"] and a["err"] == "CommandOverflow")
            stats["multi_head_responders"] += 1 if len(rd["heads"]) > 1 else 0
            stats["merge_commands_sent"] += sum(1 for c in stream if c["prio"] == "M")
            tips = {s["cmds"][-1]["id"] for s in rd["segs"]}
            com_rd = S.committed(rd)
            stats["have_inside_segment"] += 1 if any(x[0] in com_rd and x[0] not in tips for x in sess["sample"]) else 0
            stats["straddling_resumes"] += sum(1 for m in resp[:-1] if m["cmds"] and m["cmds"][-1]["id"] not in tips)
    ctx.log("harness and oracles done: %d sessions" % len(items))
    # ---- model side: the same sessions evaluated in Coq on the dumped layouts
    def render(chunk):
        defs = []
        names = []
        stores = {}
        for k, (ci, si, rd, sess, op) in enumerate(chunk):
            ids = S.Ids(S.dump_ids(rd) + [a[0] for a in sess["sample"]])
            st, sid, sample, tl, xs = render_session(ids, rd, sess)
            if st not in stores:
                stores[st] = "st%d" % len(stores)
                defs.append("Definition %s := %s.\nDefinition w%s := Eval vm_compute in wf_storeb %s.\n" % (stores[st], st, stores[st], stores[st]))
            sn = stores[st]
            defs.append("Definition c%d := check_session true %s 1 %d 0 %s %s %s && w%s.\n" % (k, sn, sid, sample, tl, xs, sn))
            names.append("c%d" % k)
        return "".join(defs) + "Eval vm_compute in (mismatches (fun b : bool => b) %s).\n" % vlib.coq_list(names)
    outs, chunks = vlib.coq_eval_sharded(ctx, "c17", S.COQ_HEADER_STR.replace("model.SyncCases.", "model.SyncCases proofs.SyncWfCheck."), items, render, shard=max(4, len(items) // 12 + 1), timeout=1500)
    mism = []
    base = 0
    for (rc, o), ch in zip(outs, chunks):
        v = vlib.parse_coq_value(o) if rc == 0 else None
        if v is None:
            ctx.oblige("correspondence:model-eval", False, o[-3000:])
            return
        mism += [base + j for j in v]
        base += len(ch)
    detail = ""
    if mism:
        ci, si, rd, sess, op = items[mism[0]]
        ids = S.Ids(S.dump_ids(rd) + [a[0] for a in sess["sample"]])
        st, sid, sample, tl, xs = render_session(ids, rd, sess)
        rc, o = vlib.coq_eval(ctx, "c17_explain", S.COQ_HEADER_STR + "Definition st := %s.\nEval vm_compute in (map show_out (session_outputs true st 1 %d 0 %s %s)).\n" % (st, sid, sample, tl))
        detail = "case %d session %d (%s): impl %s ; model %s" % (ci, si, op, xs[:1500], o[-1500:])
    ctx.coverage.update({
        "traces_validated_against_impl": len(items),
        "evaluations": stats["responses"] + stats["failed_attempts"] + stats["sessions"],
        "distinct_nontrivial": len({(ci, si) for (ci, si, rd, sess, op) in items if stream_of(sess)[2]}),
        "rule": "trace = one real SyncRequester/SyncResponder session between two real ClientStates, every poll attempt compared with the "
                "Coq model run on the dumped segment layout (command ids, index, header and data length, error class); non-trivial = at "
                "least one command delivered; worlds: random 2-4 client histories, >100-command / >100-segment chains, straddling "
                "segments with receive buffers around the exact fit, oversized commands, single segments of 250-320 commands (3+ responses "
                "resuming inside one segment, poll budget = the session_terminates bound)",
        "distribution": stats,
        "samples": [{"op": op, "sample_len": len(sess["sample"]), "attempts": [(a["buf"], a.get("len", a.get("err"))) for a in sess["attempts"]][:6]}
                    for (ci, si, rd, sess, op) in items[:3]],
    })
    ctx.assumptions += ["storage invariants wf_store (checked on every dumped layout): priors/skips point below the segment, every stored command is an ancestor of a committed head",
                        "get_location / is_ancestor are exact (C11, unit queue-lookup); TraversalQueue refinement lemmas of unit queue-lookup",
                        "the response cache (PeerCache, C20) does not influence the messages"]
    for (ci, si, why, case2, op) in violations[:3]:
        ctx.violation("sync session violates soundness/termination: " + why,
                      {"script": case2["lines"], "session_op": op, "session_index": si,
                       "contradicts": "responder_sound / resume_exact / parents_first / session_terminates (coq/props/C17.v)",
                       "replay_cmd": "printf '%%s\\n' <script lines> | build/target/debug/c17"})
    ctx.oblige("storage:dump-satisfies-wf_store", not wf_bad, str(wf_bad[:3]))
    ctx.oblige("correspondence:model=impl", not mism, detail)
    ctx.oblige("oracle:sessions-sound-parents-first-terminating", not violations, str([(v[0], v[1], v[2]) for v in violations[:3]]))
    ctx.oblige("oracle:failed-poll-does-not-advance", not retry_bad, str(retry_bad[:5]))
    if libc_root:
        import shutil
        shutil.rmtree(libc_root, ignore_errors=True)
