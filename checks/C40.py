"""C40 — AFC sequence numbers never repeat within a seal context."""
import os
import sys

sys.path.insert(0, os.path.dirname(os.path.abspath(__file__)))
import shm_common as S  # noqa: E402

CFG = {
    "seq": [("shm", "def", "seq", 40, 400), ("mem", "def", "seq", 25, 250), ("mem", "lim", "seq", 8, 80),
            ("shm", "lim", "seq", 6, 60), ("shm", "def", "malformed", 5, 50)],
    "limit": (4, 30),
    "conc": "seq", "conc_quick": 5,
    "conc2_quick": (3, 60), "conc2_thorough": (3, None),
    "rand": ("seq", 8, 100),
}


def run(ctx):
    S.standard_check(ctx, "C40", CFG)
