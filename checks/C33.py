"""C33 — shared text storage is memory safe across threads.

Proof: coq/props/C33.v (counting invariant over every schedule of model/ArcStr.v).
Correspondence: schedule replay of the real heap-backed Text (hooks at the
fetch_add / fetch_sub / fence / dealloc sites of repr.rs's arc module, tracking
allocator with quarantine) against the model, state digest after every event
compared inside Coq; plus free-running stress threads.
"""
import itertools

import conc_util
import vlib

OPS = "crdgt"


def ev_code(tok):
    return 8 * int(tok[:-1]) + OPS.index(tok[-1])


def gen_cases(ctx):
    r = ctx.rng
    th = ctx.thorough
    cases = []
    alpha2 = ["%d%s" % (t, o) for t in (0, 1) for o in OPS]
    # (a) exhaustive prefixes after a prelude that gives both threads a handle
    prelude = ["0c", "0c", "0g", "1t"]
    for seq in itertools.product(alpha2, repeat=4 if th else 3):
        cases.append(("ex-2threads", "ex 2 " + " ".join(prelude + list(seq))))
    # (b) exhaustive interleavings of a clone and the last two drops (the race the fence is for)
    for seq in itertools.product(["0c", "0d", "1c", "1d", "1r", "0r"], repeat=6 if th else 4):
        cases.append(("ex-clone-vs-drop", "ex 2 " + " ".join(prelude + list(seq))))
    # (c) from the initial state (one handle, thread 0)
    for seq in itertools.product(alpha2, repeat=3):
        cases.append(("ex-initial", "ex 2 " + " ".join(seq)))
    # (d) 3 threads
    alpha3 = ["%d%s" % (t, o) for t in (0, 1, 2) for o in OPS]
    for seq in itertools.product(alpha3, repeat=3 if th else 2):
        cases.append(("ex-3threads", "ex 3 " + " ".join(["0c", "0c", "0g", "1t", "0c", "0c", "0g", "2t"] + list(seq))))
    # (e) random long runs, 2-5 threads
    for i in range(4000 if th else 300):
        n = r.choice([2, 3, 3, 4, 5])
        cases.append(("random", "rnd %d %d %d" % (n, r.next() >> 1, r.choice([30, 60, 120, 240] if th else [30, 60, 120]))))
    return cases


HEADER = """From Aranya Require Import base.Tactics base.Harness base.Interleave model.ArcStr.
Open Scope N_scope.
Definition dec_op (n : N) : aop :=
  match n with 0 => OClone | 1 => ORead | 2 => ODrop | 3 => OGive | _ => OTake end.
Definition dec_ev (n : N) : aevent := AEv (N.to_nat (n / 8)) (dec_op (n mod 8)).
Definition chk (c : nat * list N * N * N) : bool :=
  let '(n, evs, d, f) := c in
  let '(d', f') := adigest (map dec_ev evs) (ainit n) in N.eqb d d' && N.eqb f f'.
"""

WHAT = {"dfree": "the heap block was freed twice", "uaf": "a read happened after the block was freed",
        "early": "the block was freed while a handle was still live", "leak": "no handle is left but the block was never freed",
        "badval": "a read returned wrong (poisoned) text", "rcmismatch": "the reference count differs from the number of live handles",
        "panic": "a client thread panicked", "hang": "a thread stopped reaching yield points"}


def run(ctx):
    vlib.regen(ctx)
    proved = vlib.prove(ctx)
    binp = vlib.cargo_build(ctx, "hx-conc", bin="c33")
    if not binp:
        return
    cases = gen_cases(ctx)
    stress_lines = ["stress 4 50000", "stress 8 20000"] if not ctx.thorough else ["stress 4 1000000", "stress 8 400000", "stress 16 100000"]
    rc, lines, err = conc_util.run_parallel(binp, [line for (_, line) in cases])
    if (rc not in (0, 3)) or (rc == 0 and len(lines) != len(cases)) or not lines:
        ctx.oblige("harness:run", False, "rc=%d lines=%d/%d %s" % (rc, len(lines), len(cases), err[-1500:]))
        return
    rcs, stress_out, errs = conc_util.run_parallel(binp, stress_lines, nproc=1, timeout=900)
    if len(stress_out) < len(stress_lines):
        stress_out.append("stress crashed (rc=%d) %s" % (rcs, errs[-300:].replace("\n", " ")))
    results, bad = [], []
    for i, l in enumerate(lines):
        parts = l.split()
        if len(parts) < 4:
            ctx.oblige("harness:output", False, l[:200])
            return
        results.append((int(parts[0]), int(parts[1]), parts[2], [int(x) for x in parts[3].split(":")], parts[4:]))
        if parts[2] != "ok":
            bad.append(i)
    cases = cases[:len(results)]
    stress_bad = [l for l in stress_out if l != "stress ok"]

    def replay_of(i):
        fam, line = cases[i]
        rc2, out2, _ = vlib.run_bin(binp, args=["--trace"], input=line + "\n", timeout=120)
        tr = [l[2:] for l in out2.splitlines() if l.startswith("# ")]
        return {"family": fam, "case_line": line, "executed_events": " ".join(results[i][4]), "flags": results[i][2],
                "stats(events:clones:reads:drops:last_drops:gives:takes:max_handles)": results[i][3],
                "impl_trace(freed strong pool; per thread: site held)": tr[-40:],
                "replay_cmd": "echo '%s' | build/target/debug/c33 --trace" % line}, tr
    for i in bad[:3]:
        msg = "; ".join(WHAT.get(f, f) for f in results[i][2].split(","))
        rp, _ = replay_of(i)
        ctx.violation("shared text storage violates memory safety under a replayed schedule: " + msg,
                      dict(rp, contradicts="refcount_is_handles / no_read_after_free / freed_at_most_once / no_leak (coq/props/C33.v)"))
    for l in stress_bad[:2]:
        ctx.violation("free-running threads cloning/reading/dropping shared text: " + l, {"stress": l, "replay_cmd": "echo 'stress 8 400000' | build/target/debug/c33"})
    ctx.oblige("oracle:refcount-no-uaf-freed-once-no-leak-on-impl", not bad and not stress_bad,
               str([(cases[i][1][:80], results[i][2]) for i in bad[:3]] + stress_bad[:2]))

    items = []
    for (fam, line), res in zip(cases, results):
        items.append((int(line.split()[1]) - 1, [ev_code(e) for e in res[4]], res[0], res[1]))

    def render(chunk):
        body = vlib.coq_list(chunk, lambda c: "(%d%%nat, %s, %d, %d)" % (c[0], vlib.coq_list(c[1]), c[2], c[3]))
        return "Definition cases : list (nat * list N * N * N) := %s.\nEval vm_compute in (mismatches chk cases).\n" % body
    shard = max(300, (len(items) + 5) // 6)
    outs, chunks = vlib.coq_eval_sharded(ctx, "c33", HEADER, items, render, shard=shard, timeout=1500)
    mism, base = [], 0
    for (rc3, o), ch in zip(outs, chunks):
        v = vlib.parse_coq_value(o) if rc3 == 0 else None
        if v is None:
            ctx.oblige("correspondence:model-eval", False, o[-2000:])
            return
        mism += [base + j for j in v]
        base += len(ch)
    detail = ""
    if mism:
        i = mism[0]
        n, codes, _, _ = items[i]
        body = "Eval vm_compute in (map aobs_digits (trace atid astep (map dec_ev %s) (ainit %d%%nat))).\n" % (vlib.coq_list(codes), n)
        rc4, o4 = vlib.coq_eval(ctx, "c33_trace", HEADER + body)
        mt = vlib.parse_coq_value(o4) if rc4 == 0 else None
        rp, tr = replay_of(i)
        full = [[int(x) for x in l.split()] for l in tr]
        step = next((k for k in range(min(len(full), len(mt or []))) if full[k] != mt[k]), None)
        detail = "case %d (%s): first divergence at event %s: impl %s vs model %s" % (
            i, cases[i][1][:120], step, full[step] if step is not None else None, mt[step] if (mt and step is not None) else None)
        if not bad:
            ctx.violation("schedule replay: the implementation no longer performs the model's steps (" + detail + ")",
                          dict(rp, model_trace=(mt or [])[:60], first_divergence=step), no_input=True)
    ctx.oblige("correspondence:model=impl", not mism, "%d of %d schedules differ; %s" % (len(mism), len(cases), detail))

    fams = {}
    names = ["events", "clones", "reads", "drops", "last_drops", "gives", "takes"]
    for (fam, _), res in zip(cases, results):
        f = fams.setdefault(fam, dict({"cases": 0, "max_handles": 0}, **{k: 0 for k in names}))
        f["cases"] += 1
        for k, v in zip(names, res[3]):
            f[k] += v
        f["max_handles"] = max(f["max_handles"], res[3][7])
    nontrivial = {res[0] for res in results if res[3][1] >= 1 and res[3][3] >= 2}
    ctx.coverage.update({
        "traces_validated_against_impl": len(cases),
        "evaluations": sum(res[3][0] for res in results),
        "distinct_nontrivial": len(nontrivial),
        "rule": "a case is one schedule of clone / read / drop / give / take by 2-5 threads replayed step by step on a real heap-backed "
                "Text and completed by a clean-up to quiescence; evaluations = events executed and compared; non-trivial = at least one "
                "clone and two drops; distinct by state-sequence digest",
        "distribution": fams,
        "stress_runs": stress_out,
        "samples": [{"case": cases[i][1][:120], "events": len(results[i][4]), "stats": results[i][3], "flags": results[i][2]} for i in (0, len(cases) // 2, len(cases) - 1)],
    })
    ctx.assumptions += [
        "sequentially consistent interleaving of fetch_add / fetch_sub / fence / dealloc (the Release/Acquire pairing on drop is not modelled; an SC model cannot show its absence)",
        "clients obey Rust's ownership rules: an operation needs an owned handle; cloning through a borrowed &Text is equivalent to clone + hand-over",
        "no_leak / refcount = handles assume fewer than MAX_REFCOUNT (2^63-1) simultaneously live handles (theorem no_overflow); the overflow assertion itself is modelled",
        "only the Heap variant of Repr shares storage; Static and Inline texts have no shared state",
    ]
