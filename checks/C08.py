"""C08 — transactions are isolated and history only grows."""
import os
import sys
import vlib
sys.path.insert(0, os.path.dirname(os.path.abspath(__file__)))
import _txn_common as T  # noqa: E402


def oracle(case, outs):
    name, backend, gid, d, ops = case
    bad = []
    prev = None
    captured = {}      # tx -> number of commit_heads events at capture
    delivered = {}     # tx -> ids offered since open
    accepted = {}      # tx -> ids whose rule ran at origin and did not fail (from the audit policy's log)
    events = 0         # number of commit_heads executed so far (successful commits and actions)
    stats = {"commit_ok": 0, "commit_concurrent": 0, "commit_false": 0, "commit_other_err": 0, "action_ok": 0,
             "action_err": 0, "racing_pairs": 0}
    for j, (op, o) in enumerate(zip(ops, outs)):
        pg = set(prev["graph"]) if prev and prev["graph"] is not None else set()
        g = set(o["graph"]) if o["graph"] is not None else set()
        if o["heads"] is not None and o["graph"] is None:
            bad.append((j, "graph unreadable: %s" % o.get("g")))
        if not pg <= g:
            bad.append((j, "committed commands disappeared: %s" % sorted(pg - g)[:5]))
        existed = prev is not None and prev["heads"] is not None
        changed = prev is not None and existed and prev.get("st") != o.get("st")
        if op[0] == "open":
            captured.pop(op[1], None)
            delivered[op[1]] = set()
            accepted[op[1]] = set()
        elif op[0] == "add":
            t = op[1]
            if t in delivered:
                delivered[t] |= set(op[2])
                origin = [int(x.split("@")[0]) for x in o["rules"] if x.endswith("@O")]
                accepted[t] |= set(origin[:-1] if o["res"].startswith("err:Policy") else origin)
                if t not in captured and o["heads"] is not None and (existed or True) and o["res"] != "invalid":
                    # capture happens on the first add that finds (or creates) the graph
                    if existed or o["heads"] is not None:
                        captured[t] = events
            if existed and changed:
                bad.append((j, "Add changed the head-set stamp"))
        elif op[0] == "flush":
            if existed and changed:
                bad.append((j, "Flush changed the head-set stamp"))
        elif op[0] == "commit":
            t = op[1]
            r = o["res"]
            if r == "invalid":
                pass
            elif r == "ok:true":
                stats["commit_ok"] += 1
                if not (g - pg) <= delivered.get(t, set()):
                    bad.append((j, "commit added commands this transaction never received: %s" % sorted((g - pg) - delivered.get(t, set()))[:5]))
                if t not in captured or captured[t] != events:
                    bad.append((j, "commit succeeded although another commit/action happened since the heads were read"))
                if not accepted.get(t, set()) <= g:
                    bad.append((j, "commit succeeded but commands the transaction accepted are not committed: %s" % sorted(accepted[t] - g)[:5]))
                if existed and not changed:
                    bad.append((j, "successful commit did not change the head-set stamp"))
                events += 1
            else:
                if existed and T.state_key(o) != T.state_key(prev):
                    bad.append((j, "failed/empty commit changed the committed state (%s)" % r))
                if r == "err:ConcurrentTransaction":
                    stats["commit_concurrent"] += 1
                    if t not in captured or captured[t] == events:
                        bad.append((j, "ConcurrentTransaction although no commit/action happened since the heads were read"))
                elif r == "ok:false":
                    stats["commit_false"] += 1
                    if t in captured:
                        bad.append((j, "commit returned false for a transaction that had read the heads"))
                else:
                    stats["commit_other_err"] += 1
                    if r == "err:Storage:IoError":
                        stats["commit_io_fault"] = stats.get("commit_io_fault", 0) + 1
                    if t in captured and captured[t] != events and existed:
                        bad.append((j, "stale transaction failed with %s instead of ConcurrentTransaction" % r))
            captured.pop(t, None)
            delivered.pop(t, None)
            accepted.pop(t, None)
        elif op[0] == "action":
            if o["res"] == "ok":
                stats["action_ok"] += 1
                if existed and not changed:
                    bad.append((j, "successful action did not change the head-set stamp"))
                events += 1
            else:
                stats["action_err"] += 1
                if existed and T.state_key(o) != T.state_key(prev):
                    bad.append((j, "failed action changed the committed state"))
        prev = o
    return bad, stats


def run(ctx):
    vlib.prove(ctx)
    r = ctx.rng
    n = 240 if ctx.thorough else 34
    cases = T.make_cases(ctx, 0, 0, 0)
    for i in range(n):
        d = T.gen_dag(r, r.range(8, 60 if ctx.thorough else 22), reject_w=5, merge_w=12)
        ops = T.gen_history(r, d, ntx=r.choice([2, 3, 3, 4]), p_dup=5, p_bad=3, p_flush=8, p_commit=14, p_action=9, p_probe=1, p_fault=12)
        cases.append(("i%d" % i, "libc" if i % 3 == 1 else "mem", T.gid_of(d), d, ops))
    for i in range(60 if ctx.thorough else 8):
        d, ops = T.gen_merge_history(r, r.range(12, 34), ntx=r.choice([2, 3]), p_commit=12)
        cases.append(("mgi%d" % i, r.choice(["mem", "libc"]), T.gid_of(d), d, ops))
    cases = T.replay_cases(ctx) or cases
    res, mm = T.run_cases(ctx, cases, "c08")
    if res is None:
        return
    viol, tot = [], {}
    for ci, (c, outs) in enumerate(zip(cases, res)):
        bad, st = oracle(c, outs)
        for k, v in st.items():
            tot[k] = tot.get(k, 0) + v
        for (j, why) in bad:
            viol.append((ci, j, why))
    nontriv = sum(1 for c, outs in zip(cases, res)
                  if any(o["res"] == "err:ConcurrentTransaction" for o in outs) and sum(1 for o, op in zip(outs, c[4]) if op[0] == "commit" and o["res"] == "ok:true") >= 2)
    ctx.coverage.update({
        "traces_validated_against_impl": len(cases),
        "evaluations": sum(len(c[4]) for c in cases),
        "distinct_nontrivial": nontriv,
        "rule": "non-trivial = an interleaving with at least two successful commits and at least one ConcurrentTransaction; &mut ClientState serialises calls, so schedules are operation interleavings of 2-4 open transactions and actions",
        "distribution": dict(T.basic_stats(cases, res), commits=tot),
        "samples": [{"case": T.case_text(*cases[i])[:1500], "results": [o["res"] for o in res[i]]} for i in (len(cases) - 1,)],
    })
    ctx.assumptions += ["ids identify commands (rclash = false)", "locate = exact reachability (C11); braid = function of the reachable stored commands (C02/C03)"]
    for (ci, j, why) in viol[:3]:
        ctx.violation("transaction isolation / monotone history violated: " + why,
                      dict(T.replay_obj(cases[ci], res[ci], why, j), contradicts="commit_isolated (coq/props/C08.v)"))
    T.report_mismatches(ctx, cases, res, mm)
    ctx.oblige("oracle:isolation-on-impl-output", not viol, str(viol[:3]))
