"""Case generators shared by checks/C27.py and checks/C28.py (unit `frontend`).

All randomness comes from the `Rng` passed in.  Texts are produced by
 * the repository's own test policies (crates/*/tests/data/**/*.policy, *.md),
 * a grammar-directed generator that walks the PEG of policy.pest as read by
   tools/gen_frontend.py (the same reading that GenGrammar.v is printed from),
   with identifiers / literals drawn from pools that a fixed prelude defines,
 * a mutation stream over both (byte flips, truncation, token swap / duplication /
   deletion, unbalanced delimiters, huge integers, unicode),
 * Markdown front-matter / fence variants for the document parser,
 * nesting towers (deep recursion probes, run in child processes).
"""
import glob
import os
import re
import sys

sys.path.insert(0, os.path.join(os.path.dirname(os.path.dirname(os.path.abspath(__file__))), "tools"))

IDENT_POOL = ["a", "b", "x", "y", "n", "Foo", "Bar", "F", "G", "E", "A", "B", "C", "Eff", "f", "g", "h", "act",
              "this", "envelope", "k", "v", "s", "id1", "payload", "test", "doit", "mk", "FFIFoo", "r", "Envelope"]
INT_POOL = ["0", "1", "2", "-1", "42", "9223372036854775807", "-9223372036854775808", "9223372036854775808",
            "99999999999999999999999999", "007", "-0"]
STR_POOL = ['""', '"a"', '"hello"', '"\\n"', '"\\x41"', '"\\\\"', '"\\""', '"\\x00"', '"\\x7f"', '"\\x80"', '"\\xZZ"', '"\\q"',
            '"é"', '"\\é"', '"\\x4"', '"a\\\nb"', '"𝄞"', '"\\x1é"']

PRELUDE = """
use test
struct Foo { a int, b int }
struct Bar { a int }
enum E { A, B }
fact F[k int]=>{v int}
immutable fact G[k int, s string]=>{}
effect Eff { a int, b int dynamic }
let n = 3
function g(x int) int { return x }
function h(o option[int]) bool { return o is Some }
finish function ff(x int) { create F[k: x]=>{v: x} }
"""


def corpus(repo):
    pol, docs = [], []
    for p in sorted(glob.glob(os.path.join(repo, "crates", "*", "tests", "data", "**", "*.policy"), recursive=True)):
        try:
            pol.append((os.path.relpath(p, repo), open(p, encoding="utf-8").read()))
        except Exception:
            pass
    for p in sorted(glob.glob(os.path.join(repo, "crates", "**", "*.md"), recursive=True)):
        if "/target/" in p:
            continue
        try:
            t = open(p, encoding="utf-8").read()
        except Exception:
            continue
        if "policy-version" in t:
            docs.append((os.path.relpath(p, repo), t))
    return pol, docs


class GrammarGen:
    """Random text from the PEG (mostly valid: ordered choice and predicates are ignored)."""

    def __init__(self, rules, rng):
        self.rules = {n: (k, e) for (n, k, e) in rules}
        self.r = rng

    def gen(self, rule, budget=40):
        self.budget = budget
        return self.ref(rule, False, 0)

    def ref(self, name, atomic, depth):
        r = self.r
        if name == "identifier":
            return r.choice(IDENT_POOL)
        if name == "int_literal":
            return r.choice(INT_POOL) if r.chance(1, 3) else str(r.below(5))
        if name == "string_literal":
            return r.choice(STR_POOL)
        if name in ("SOI", "EOI"):
            return ""
        if name == "ANY":
            return r.choice(["a", " ", "\n", "é", "*", "/", '"'])
        if name == "NEWLINE":
            return "\n"
        if name == "ASCII_ALPHA":
            return r.choice("abcXYZ")
        if name == "ASCII_DIGIT":
            return r.choice("0123456789")
        if name == "ASCII_ALPHANUMERIC":
            return r.choice("abcXYZ019")
        if name in ("WHITESPACE",):
            return " "
        if name == "COMMENT":
            return r.choice(["// c\n", "/* c */"])
        if name not in self.rules:
            return ""
        kind, e = self.rules[name]
        return self.ex(e, atomic or kind == "Atomic", depth + 1)

    def sep(self, atomic):
        if atomic:
            return ""
        return self.r.choice([" ", " ", " ", "\n", "  ", " /* c */ ", " // c\n"]) if self.r.chance(1, 6) else " "

    def ex(self, e, atomic, depth):
        r = self.r
        k = e[0]
        self.budget -= 1
        tight = self.budget <= 0 or depth > 14
        if k in ("Str", "Insens"):
            return e[1]
        if k == "Range":
            return chr(r.range(ord(e[1]), ord(e[2])))
        if k == "Ref":
            return self.ref(e[1], atomic, depth)
        if k == "Seq":
            return self.ex(e[1], atomic, depth) + self.sep(atomic) + self.ex(e[2], atomic, depth)
        if k == "Alt":
            alts = []
            x = e
            while x[0] == "Alt":
                alts.append(x[1])
                x = x[2]
            alts.append(x)
            if tight:
                # prefer the syntactically smallest alternative
                alts.sort(key=lambda a: len(repr(a)))
                return self.ex(alts[0], atomic, depth)
            return self.ex(r.choice(alts), atomic, depth)
        if k == "Opt":
            return "" if (tight or r.chance(1, 2)) else self.ex(e[1], atomic, depth)
        if k in ("Star", "Plus", "Rep"):
            lo = 1 if k == "Plus" else (e[1] if k == "Rep" else 0)
            n = lo if tight else lo + r.choice([0, 0, 1, 1, 2, 3])
            x = e[3] if k == "Rep" else e[1]
            return self.sep(atomic).join(self.ex(x, atomic, depth) for _ in range(n))
        return ""  # predicates


TOKEN_RE = re.compile(r'"(?:\\.|[^"\\])*"|[A-Za-z_][A-Za-z0-9_]*|-?[0-9]+|=>|==|!=|>=|<=|&&|\|\||::|\.\.\.|[^\sA-Za-z0-9_]|\s+')


def mutate(text, rng, pool):
    """one random mutation of `text`"""
    r = rng
    kind = r.below(16)
    toks = TOKEN_RE.findall(text)
    if not toks:
        toks = [text]
    if kind == 0 and text:       # truncate
        return text[:r.below(len(text))]
    if kind == 1 and text:       # byte flip (re-decoded leniently)
        b = bytearray(text.encode())
        i = r.below(len(b))
        b[i] ^= 1 << r.below(8)
        return b.decode("utf-8", errors="replace")
    if kind == 2:                # delete a token
        i = r.below(len(toks))
        return "".join(toks[:i] + toks[i + 1:])
    if kind == 3:                # duplicate a token
        i = r.below(len(toks))
        return "".join(toks[:i + 1] + [" "] + toks[i:])
    if kind == 4 and len(toks) > 1:   # swap two tokens
        i, j = r.below(len(toks)), r.below(len(toks))
        toks[i], toks[j] = toks[j], toks[i]
        return "".join(toks)
    if kind == 5:                # unbalance a delimiter
        i = r.below(len(toks))
        return "".join(toks[:i] + [r.choice(list("(){}[]\""))] + toks[i:])
    if kind == 6:                # huge / odd integer
        ints = [i for i, t in enumerate(toks) if re.fullmatch(r"-?[0-9]+", t)]
        if ints:
            toks[r.choice(ints)] = r.choice(INT_POOL)
            return "".join(toks)
    if kind == 7:                # unicode / control insertion
        i = r.below(len(toks))
        return "".join(toks[:i] + [r.choice(["é", "𝄞", "\u200b", "\x00", "\r", "\t", "\ufeff", "\\"])] + toks[i:])
    if kind == 8:                # replace an identifier by a pool name / keyword
        ids = [i for i, t in enumerate(toks) if re.fullmatch(r"[A-Za-z_][A-Za-z0-9_]*", t)]
        if ids:
            toks[r.choice(ids)] = r.choice(IDENT_POOL + ["match", "if", "return", "None", "Some", "Ok", "Err", "todo()", "query", "finish",
                                                          "recall", "int", "struct", "optional", "option", "result", "unit", "Unit", "_"])
            return "".join(toks)
    if kind == 9 and pool:       # splice a token run from another text
        other = TOKEN_RE.findall(r.choice(pool)) or [""]
        a = r.below(len(other))
        run = other[a:a + r.range(1, 12)]
        i = r.below(len(toks))
        return "".join(toks[:i] + run + toks[i:])
    if kind == 10:               # replace a string literal
        ss = [i for i, t in enumerate(toks) if t.startswith('"')]
        if ss:
            toks[r.choice(ss)] = r.choice(STR_POOL)
            return "".join(toks)
    if kind == 11:               # delete a balanced-looking block
        opens = [i for i, t in enumerate(toks) if t == "{"]
        if opens:
            i = r.choice(opens)
            d = 0
            for j in range(i, len(toks)):
                d += toks[j] == "{"
                d -= toks[j] == "}"
                if d == 0:
                    return "".join(toks[:i] + ["{", "}"] + toks[j + 1:])
    if kind == 12:               # empty the arms of a match / the body of a block
        return re.sub(r"(match\s+[^{]*)\{[^{}]*\}", r"\1{ }", text, count=1)
    if kind == 13:               # wrap an expression-looking token in a constructor
        ids = [i for i, t in enumerate(toks) if re.fullmatch(r"[A-Za-z_][A-Za-z0-9_]*|-?[0-9]+", t)]
        if ids:
            i = r.choice(ids)
            w = r.choice(["Some(%s)", "Ok(%s)", "Err(%s)", "(%s)", "!%s", "%s is None", "%s or 0", "return %s", "{ : %s }", "Foo { a: %s, ...envelope }",
                          "match %s { }", "if %s { : 1 } else { : 2 }", "at_most 9223372036854775807 F[k: %s]", "exactly 1 F[k: %s]"])
            toks[i] = w % toks[i]
            return "".join(toks)
    if kind == 14:               # repeat a line
        lines = text.split("\n")
        i = r.below(len(lines))
        return "\n".join(lines[:i + 1] + [lines[i]] * r.range(1, 3) + lines[i + 1:])
    # default: delete a random character
    if text:
        i = r.below(len(text))
        return text[:i] + text[i + 1:]
    return text


def doc_wrap(policy, rng):
    """Markdown document variants around a policy text"""
    r = rng
    fm = r.choice(["---\npolicy-version: 2\n---\n", "---\npolicy-version: 2\n---\n", "---\npolicy-version: 2\n---\n",
                   "---\npolicy-version: \"2\"\n---\n", "---\npolicy-version: 1\n---\n", "---\npolicy-version: 3\n---\n",
                   "---\nfoo: bar\n---\n", "---\npolicy-version: [2]\n---\n", "---\n---\n", "", "---\npolicy-version: 2\n",
                   "+++\npolicy-version = 2\n+++\n", "---\npolicy-version: 2\nother: {a: [1,2]}\n---\n",
                   "---\r\npolicy-version: 2\r\n---\r\n", "\ufeff---\npolicy-version: 2\n---\n", "---\n? [\n---\n",
                   "---\npolicy-version: &a 2\nx: *a\n---\n", "---\npolicy-version: 2\n...\n"])
    fence = r.choice(["```policy\n%s\n```\n"] * 6 + ["~~~policy\n%s\n~~~\n", "````policy\n%s\n````\n", "   ```policy\n%s\n   ```\n",
                     "```policy extra\n%s\n```\n", "```policy\n%s\n", "```rust\n%s\n```\n", "> ```policy\n> %s\n> ```\n",
                     "- item\n\n  ```policy\n  %s\n  ```\n", "```policy\r\n%s\r\n```\r\n", "```policy\n%s```\n", "\t```policy\n%s\n```\n"])
    pre = r.choice(["", "", "# Title\n\nSome *text*.\n\n", "| a | b |\n|---|---|\n| 1 | 2 |\n\n", "<div>\n\nhtml\n\n</div>\n\n", "é𝄞\n\n"])
    mid = r.choice(["", "", "\nText between.\n\n```policy\nlet zz = 1\n```\n", "\n```policy\n```\n"])
    return fm + pre + (fence % policy) + mid


# ------------------------------------------------------------------ front-matter fence family (C27)

UNICODE_WS = [0x09, 0x0A, 0x0B, 0x0C, 0x0D, 0x20, 0x85, 0xA0, 0x1680] + list(range(0x2000, 0x200B)) + [0x2028, 0x2029, 0x202F, 0x205F, 0x3000]
# characters that are not line endings for Markdown (a line ending inside a "fence line" just starts another line)
FENCE_TRAIL = [c for c in UNICODE_WS if c not in (0x0A, 0x0D)] + [0x200B, 0xFEFF, 0x00]


def front_matter_family(rng, extra):
    """Markdown documents around the front-matter fences: every Unicode White_Space code point (and mixed
    runs) after the opening and after the closing fence, leading whitespace, fences of 2-5 characters,
    the three line endings, closing fence missing / present / present with trailing junk / wrong marker,
    in the first line and elsewhere.  A systematic part plus `extra` random combinations."""
    r = rng
    body = "policy-version: 2"
    tail = "\n```policy\nlet a = 1\n```\n"
    docs = []
    for marker in ("---", "+++"):
        for eol in ("\n", "\r\n", "\r"):
            for c in FENCE_TRAIL:
                w = chr(c)
                for end in (eol, ""):                      # closing fence followed by a line ending / by end of input
                    docs.append(marker + eol + body + eol + marker + w + end)
                docs.append(marker + eol + body + eol + marker + w + eol + tail.replace("\n", eol))
                docs.append(marker + w + eol + body + eol + marker + eol)          # after the opening fence
                docs.append(marker + w + eol + body + eol)                          # ... and never closed
            # closing fence: missing, exact, with junk, longer, shorter, other marker, indented; eof variants
            other = "+++" if marker == "---" else "---"
            for close in ("", marker, marker + " x", marker + "x", marker + marker[0], marker + marker[:2], marker[:2], other,
                          " " + marker, "\t" + marker, marker + " \t ", marker + "\t\t"):
                for end in (eol, "", eol + eol):
                    docs.append(marker + eol + body + eol + close + end)
                docs.append(marker + eol + body + eol + close + eol + tail.replace("\n", eol))
            # opening fence variants
            for opn in (" " + marker, "\t" + marker, marker + marker[0], marker + marker[:2], marker[:2], "\ufeff" + marker,
                        eol + marker, marker + " ", marker + "\t \t"):
                docs.append(opn + eol + body + eol + marker + eol)
                docs.append(opn + eol + body + eol)
            docs.append(marker)
            docs.append(marker + eol)
            docs.append(marker + eol + marker)
            docs.append(marker + eol + marker + eol)
            docs.append(marker + eol + eol + marker + eol + tail)
    for _ in range(extra):
        marker = r.choice(["---", "+++", "----", "--", "+++++", "***"])
        eol = r.choice(["\n", "\n", "\r\n", "\r"])

        def run():
            return "".join(chr(r.choice(FENCE_TRAIL)) for _ in range(r.choice([0, 1, 1, 2, 3])))
        lead = r.choice(["", "", "", " ", "\t", "\u00a0", "\ufeff", "\ufeff", "\ufeff\ufeff", "\ufeff "])
        opn = lead + marker + run()
        close_marker = r.choice([marker, marker, marker, "---", "+++", marker + marker[0], marker[:-1]])
        close = r.choice(["", "", " ", "\u2003"]) + close_marker + run() + r.choice(["", "", "", "x", " y"])
        n_lines = r.choice([0, 1, 1, 2])
        mid = eol.join([body] + ["k%d: v" % i for i in range(n_lines)])
        doc = opn + eol + mid + eol + (close + r.choice([eol, "", eol + eol]) if r.chance(4, 5) else "")
        if r.chance(1, 2):
            doc += tail.replace("\n", eol)
        if r.chance(1, 8):
            doc = "intro" + eol + doc                       # the fence is not on the first line
        docs.append(doc)
    return docs


def tower(kind, depth):
    """nesting towers: text whose parse recursion depth is about `depth`"""
    if kind == "paren":
        return "S", "function f() int { return " + "(" * depth + "1" + ")" * depth + " }"
    if kind == "paren_expr":
        return "E", "(" * depth + "1" + ")" * depth
    if kind == "not":
        return "E", "!" * depth + "true"
    if kind == "return":
        return "E", "return " * depth + "1"
    if kind == "some":
        return "E", "Some(" * depth + "1" + ")" * depth
    if kind == "block":
        return "S", "function f() int { " + "if true { " * depth + "}" * depth + " return 1 }"
    if kind == "optional":
        return "F", "function f(a " + "option[" * depth + "int" + "]" * depth + ") int"
    if kind == "match":
        return "E", "match 1 { _ => " * depth + "1" + " }" * depth
    if kind == "blockexpr":
        return "E", "{ : " * depth + "1" + " }" * depth
    if kind == "md_quote":
        return "D", "---\npolicy-version: 2\n---\n" + "> " * depth + "x\n\n```policy\nlet a = 1\n```\n"
    if kind == "md_list":
        return "D", "---\npolicy-version: 2\n---\n" + "".join("  " * i + "- x\n" for i in range(depth)) + "\n```policy\nlet a = 1\n```\n"
    if kind == "yaml_flow":
        return "D", "---\npolicy-version: " + "[" * depth + "]" * depth + "\n---\n\n```policy\nlet a = 1\n```\n"
    raise ValueError(kind)


TOWER_KINDS = ["paren", "paren_expr", "not", "return", "some", "block", "optional", "match", "blockexpr", "md_quote", "md_list", "yaml_flow"]


def nesting_depth(text):
    """Syntactic nesting depth of a text: the measure that defines finding F8's input class.
    = max over positions of (open brackets) + longest run of chained prefix words (return / ! / optional / > / list indent)."""
    d = best = 0
    for c in text:
        if c in "([{":
            d += 1
            best = max(best, d)
        elif c in ")]}":
            d = max(0, d - 1)
    runs = [len(m.group(0).split()) for m in re.finditer(r"(?:return\s+){2,}", text)]
    runs += [len(m.group(0)) for m in re.finditer(r"!{2,}", text)]
    runs += [len(m.group(0).split()) for m in re.finditer(r"(?:optional\s+){2,}", text)]
    runs += [m.group(0).count(">") for m in re.finditer(r"(?:>\s?){2,}", text)]
    runs += [len(m.group(1)) // 2 for m in re.finditer(r"^( {2,})- ", text, re.M)]
    return best + (max(runs) if runs else 0)


def generate_cases(repo, rng, count):
    """-> list of (mode, text, origin)"""
    import gen_frontend
    rules = gen_frontend.parse_grammar(repo)
    pol, docs = corpus(repo)
    pol_texts = [t for (_, t) in pol]
    gg = GrammarGen(rules, rng.fork())
    r = rng
    cases = []
    # every corpus file once (valid and the repository's own invalid ones)
    for (name, t) in pol:
        cases.append(("S", t, "corpus:" + name))
    for (name, t) in docs:
        cases.append(("D", t, "corpus:" + name))
    fixed = [
        ("S", "", "fixed:empty"), ("D", "", "fixed:empty"), ("E", "", "fixed:empty"), ("F", "", "fixed:empty"), ("T", "", "fixed:empty"),
        ("E", "9223372036854775808", "fixed:int"), ("E", "-9223372036854775808", "fixed:int"),
        ("S", PRELUDE, "fixed:prelude"),
        ("S", PRELUDE + "function q() bool { return at_most 9223372036854775807 F[k: 1] }", "fixed:count-max"),
        ("S", PRELUDE + "function q() int { let x = match return 1 { }\n return x }", "fixed:empty-match"),
        ("S", PRELUDE + "function q(e struct Envelope) int { let x = Foo { a: 1, ...e }\n return 1 }", "fixed:envelope-spread"),
    ]
    cases += fixed
    fm_docs = front_matter_family(r.fork(), max(300, count // 12))
    cases += [("D", d, "frontmatter:family") for d in fm_docs]
    count += len(fm_docs)
    top_rules = ["top_level_statement", "function_definition", "action_definition", "command_definition", "struct_definition",
                 "fact_definition", "effect_definition", "enum_definition", "global_let_statement", "finish_function_definition"]
    while len(cases) < count:
        k = r.below(100)
        if k < 22:      # grammar-directed document on top of the prelude
            n = r.range(1, 4)
            body = "\n".join(gg.gen(r.choice(top_rules), budget=r.choice([15, 30, 60, 120])) for _ in range(n))
            cases.append(("S", (PRELUDE if r.chance(3, 4) else "") + body, "grammar:file"))
        elif k < 30:    # grammar-directed expression / statement inside a well-formed context
            e = gg.gen("expression", budget=r.choice([8, 20, 50]))
            ctx = r.choice([
                "function q() int { let z = %s\n return 0 }",
                "function q() bool { return %s }",
                "action q2() { let z = %s }",
                "action q3() result[unit, int] { check %s else return Err(1)\n return Ok(Unit) }",
                "command Cx { fields { a int } seal { return todo() } open { return todo() } policy { let z = %s\n finish { emit Eff { a: 1, b: 2 } } } recall r1() { finish { } } }",
                "command Cy { attributes { p: %s } fields { a int } seal { return todo() } open { return todo() } policy { finish { create F[k: %s]=>{v: 1} } } }",
                "let z = %s",
                "function q() int { match %s { 1 => { return 1 } _ => { return 2 } } }",
            ])
            cases.append(("S", PRELUDE + ctx.replace("%s", e), "grammar:expr-in-context"))
        elif k < 36:
            cases.append(("E", gg.gen("expression", budget=r.choice([5, 15, 40])), "grammar:expression"))
        elif k < 39:
            cases.append(("F", gg.gen(r.choice(["function_decl", "finish_function_decl"]), budget=20), "grammar:ffi_decl"))
        elif k < 42:
            cases.append(("T", "\n".join(gg.gen(r.choice(["struct_definition", "enum_definition"]), budget=20) for _ in range(r.range(0, 3))),
                          "grammar:ffi_types"))
        elif k < 72:    # mutated corpus policy (1-3 mutations)
            t = r.choice(pol_texts)
            for _ in range(r.range(1, 3)):
                t = mutate(t, r, pol_texts)
            cases.append(("S", t, "mutation:corpus"))
        elif k < 80:    # mutated grammar document
            t = PRELUDE + gg.gen(r.choice(top_rules), budget=40)
            for _ in range(r.range(1, 3)):
                t = mutate(t, r, pol_texts)
            cases.append(("S", t, "mutation:grammar"))
        elif k < 92:    # markdown variants
            t = r.choice(pol_texts)
            if r.chance(1, 3):
                t = mutate(t, r, pol_texts)
            cases.append(("D", doc_wrap(t, r), "markdown:wrap"))
        elif k < 96 and docs:
            t = mutate(r.choice(docs)[1], r, pol_texts)
            cases.append(("D", t, "mutation:markdown"))
        else:           # mutated expression / ffi text
            m = r.choice(["E", "F", "T"])
            base = {"E": gg.gen("expression", budget=20), "F": "function foo(a int, b option[struct Foo]) result[int, bool]",
                    "T": "struct A { x int, +B }\nenum Z { P, Q, }"}[m]
            cases.append((m, mutate(base, r, pol_texts), "mutation:small"))
    return cases


# ------------------------------------------------------------------ C28: well-typed generated policies

def rich_policy(rng):
    """A well-typed policy with many named definitions in a random order (type definitions that depend on
    each other, enums, facts, effects, globals, functions calling each other, actions, commands with recall
    blocks): the constructs whose compilation goes through name-keyed collections."""
    r = rng
    pool = ["Alpha", "Beta", "Gamma", "Delta", "Eps", "Zeta", "Eta", "Theta", "Iota", "Kappa", "Lam", "Mu", "Nu", "Xi", "Omi", "Pi",
            "Rho", "Sigma", "Tau", "Ups", "Phi", "Chi", "Psi", "Omega"]
    r.shuffle(pool)
    n_struct = r.range(2, 8)
    structs = pool[:n_struct]
    enums = ["En" + x for x in pool[n_struct:n_struct + r.range(1, 3)]]
    facts = ["Fa" + x for x in pool[10:10 + r.range(1, 4)]]
    effects = ["Ef" + x for x in pool[14:14 + r.range(1, 3)]]
    cmds = ["Cm" + x for x in pool[17:17 + r.range(1, 3)]]
    prim = ["int", "bool", "string", "id", "bytes", "option[int]", "option[string]"]
    items = []
    # struct i may refer to structs with a larger index (a DAG), by field or by insertion
    sdefs = {}
    for i, s in enumerate(structs):
        fields = [("f%d" % j, r.choice(prim + ["enum " + r.choice(enums)])) for j in range(r.range(1, 4))]
        later = structs[i + 1:]
        text_fields = ["%s %s" % f for f in fields]
        if later and r.chance(2, 3):
            text_fields.append("s%d struct %s" % (i, r.choice(later)))
        sdefs[s] = fields
        items.append("struct %s { %s }" % (s, ", ".join(text_fields)))
    for e in enums:
        items.append("enum %s { %s }" % (e, ", ".join("V%d" % j for j in range(r.range(1, 4)))))
    for f in facts:
        items.append("%sfact %s[k int%s]=>{v int, w string}" % ("immutable " if r.chance(1, 4) else "", f, ", k2 bool" if r.chance(1, 2) else ""))
    for e in effects:
        items.append("effect %s { a int, b string%s }" % (e, " dynamic" if r.chance(1, 2) else ""))
    nglob = r.range(0, 3)
    for j in range(nglob):
        items.append("let g%d = %s" % (j, r.choice(["1", "\"s\"", "true", "%s::V0" % enums[0], "Some(3)"])))
    nfun = r.range(1, 5)
    for j in range(nfun):
        callee = "fn%d(x)" % r.below(j) if j and r.chance(1, 2) else "x"
        body = r.choice([
            "return saturating_add(%s, %d)" % (callee, r.below(5)),
            "if x > %d { return %s } return x" % (r.below(4), callee),
            "let o = add(x, 1)\n match o { Some(v) => { return v } None => { return 0 } }",
            "let c = count_up_to 3 %s[k: x%s]\n return c" % (facts[0], ""),
            "match x { 0 => { return 1 } 1 | 2 => { return %s } _ => { return x } }" % callee,
        ])
        if "count_up_to" in body and "k2" in [i for i in items if i.split("fact ")[-1].startswith(facts[0])][0]:
            body = "return x"
        items.append("function fn%d(x int) int { %s }" % (j, body))
    items.append("function mk() struct %s { return %s }" % (structs[-1], struct_lit(structs[-1], sdefs)))
    for c in cmds:
        f0 = facts[0]
        two = "k2" in [i for i in items if ("fact " + f0 + "[") in i][0]
        key = "k: this.a, k2: true" if two else "k: this.a"
        items.append("""command %s {
    attributes { prio: %d, tag: "%s" }
    fields { a int, b string }
    seal { return todo() }
    open { return todo() }
    policy {
        let cnt = fn0(this.a)
        check cnt >= 0 else recall again()
        let e = exists %s[%s]
        if e { finish { emit %s { a: cnt, b: this.b } } }
        else { finish { create %s[%s]=>{v: cnt, w: this.b}
                        emit %s { a: cnt, b: "new" } } }
    }
    recall again() { finish { emit %s { a: 0, b: "recalled" } } }
}""" % (c, r.below(9), c.lower(), f0, key, effects[0], f0, key, effects[-1], effects[0]))
    nact = r.range(1, 4)
    for j in range(nact):
        c = r.choice(cmds)
        items.append("%saction act%d(x int, s string) { let y = fn%d(x)\n publish %s { a: y, b: s } }" % ("", j, r.below(nfun), c))
    r.shuffle(items)
    return "\n".join(items)


def struct_lit(name, sdefs):
    def lit(t):
        if t == "int":
            return "1"
        if t == "bool":
            return "true"
        if t == "string":
            return '"x"'
        if t.startswith("option"):
            return "None"
        if t.startswith("enum "):
            return t[5:] + "::V0"
        return None
    fields = []
    for (f, t) in sdefs[name]:
        v = lit(t)
        if v is None:
            return "todo()"
        fields.append("%s: %s" % (f, v))
    return "%s { %s }" % (name, ", ".join(fields))


def generate_policies(repo, rng, count):
    """C28 cases: (mode, text, origin) — mostly policies that compile"""
    import gen_frontend
    rules = gen_frontend.parse_grammar(repo)
    pol, docs = corpus(repo)
    texts = [t for (_, t) in pol]
    gg = GrammarGen(rules, rng.fork())
    r = rng
    cases = [("S", t, "corpus:" + n) for (n, t) in pol] + [("D", t, "corpus:" + n) for (n, t) in docs]
    while len(cases) < count:
        k = r.below(100)
        if k < 55:
            cases.append(("S", rich_policy(r), "generated:rich"))
        elif k < 70:
            cases.append(("S", rich_policy(r) + "\n" + PRELUDE.replace("use test\n", ""), "generated:rich+prelude"))
        elif k < 85:
            t = r.choice(texts)
            cases.append(("S", mutate(t, r, texts), "mutation:corpus"))
        elif k < 93:
            e = gg.gen("expression", budget=r.choice([8, 20]))
            cases.append(("S", PRELUDE + "function q() int { let z = %s\n return 0 }" % e, "grammar:expr-in-context"))
        else:
            cases.append(("D", doc_wrap(rich_policy(r), r), "markdown:rich"))
    return cases
