"""C04 — lazy merges: queries and actions see the same state; hello head = collapsed merge."""
import os
import sys
import vlib
sys.path.insert(0, os.path.dirname(os.path.abspath(__file__)))
import _txn_common as T  # noqa: E402


def max_cut_in(g, i, memo):
    if i in memo:
        return memo[i]
    ps = g.get(i, ())
    v = 0 if not ps else 1 + max(max_cut_in(g, p, memo) for p in ps)
    memo[i] = v
    return v


def oracle(case, outs):
    name, backend, gid, d, ops = case
    bad = []
    st = {"heads": {}, "sess_checked": 0, "dump_actions": 0, "hello_checked": 0, "silent_collapse": 0}
    prev = None
    for j, (op, o) in enumerate(zip(ops, outs)):
        if prev is not None and prev["heads"]:
            nh = len(prev["heads"])
            if op[0] == "sess" and o["res"] == "ok":
                st["sess_checked"] += 1
                seen = [[int(x) for x in e[1:].split("_") if x] for e in o["sink"] if e.startswith("C")]
                if seen != prev["facts"]:
                    bad.append((j, "a session sees %s but the fact cache is %s" % (seen[:4], prev["facts"][:4])))
            if op[0] == "action" and o["res"] == "ok":
                st["heads"][str(nh)] = st["heads"].get(str(nh), 0) + 1
                pubs = [c[0] for c in op[3]]
                g = o["graph"]
                # the parent of the first published command is the collapsed head
                parent = g[pubs[0]][0]
                if nh >= 2:
                    st["hello_checked"] += 1
                    mc = max_cut_in(g, parent, {})
                    if prev["hello"] != [parent, mc]:
                        bad.append((j, "hello head %s of the %d-head graph is not the address (%d, %d) of the merge the collapse wrote" % (prev["hello"], nh, parent, mc)))
                elif prev["hello"] != [prev["heads"][0], max_cut_in(prev["graph"], prev["heads"][0], {})]:
                    bad.append((j, "hello head of a single-head graph is not its head"))
                if op[1]:      # dump action: the first effects are the facts visible to the action
                    st["dump_actions"] += 1
                    k = len(prev["facts"])
                    seen = [[int(x) for x in e[1:].split("_") if x] for e in o["sink"][1:1 + k] if e.startswith("C")]
                    if seen != prev["facts"]:
                        bad.append((j, "after collapsing %d heads the action sees %s but queries saw %s" % (nh, seen[:4], prev["facts"][:4])))
                if nh >= 2 and not op[1] and all(not c[2] for c in op[3]):
                    st["silent_collapse"] += 1
                    if o["sink"] != ["B", "K"]:
                        bad.append((j, "the collapse emitted effects: %s" % o["sink"]))
                    if not any(x.endswith("@B") for x in o["rules"]):
                        bad.append((j, "multi-head collapse without a braid evaluation?"))
        prev = o
    return bad, st


def run(ctx):
    vlib.prove(ctx)
    r = ctx.rng
    cases = T.make_cases(ctx, 0, 0, 0)
    n = 200 if ctx.thorough else 30
    for i in range(n):
        # wide graphs: several branches with shared ancestry and nested merges, committed as a multi-head state
        d = T.gen_dag(r, r.range(8, 50 if ctx.thorough else 20), reject_w=2, merge_w=r.choice([5, 15, 30]), deep_w=r.choice([30, 55]), fin_w=1)
        ops = [("open", 0)]
        order = list(d.order)
        cut = r.range(max(1, len(order) // 2), len(order))
        ops.append(("add", 0, order[:cut]))
        for x in order[cut:]:
            ops.append(("add", 0, [x]))
        ops.append(("commit", 0))
        aid = (1 << 42) + i * 16
        for rep in range(r.choice([1, 2, 3])):
            ops.append(("sess",))
            kind = r.below(3)
            if kind == 0:
                ops.append(("action", True, None, [(aid, r.choice([0, 1]), T.rand_prog(r, 0))]))
            elif kind == 1:
                ops.append(("action", False, None, [(aid, 1, ())]))
            else:
                ops.append(("action", True, r.choice([0, 1]), [(aid, 1, T.rand_prog(r, 0))]))
            aid += 1
            # grow new heads next to the action's head
            extra = [x for x in order if r.below(100) < 25]
            ops += [("open", 1), ("add", 1, extra), ("commit", 1)]
            sib = (1 << 43) + i * 16 + rep
            par = r.choice(order)
            if not T.sure_fail(d.cmds[par].prog):
                d.add(T.Cmd(sib, r.choice([0, 2]), (par,), 0, T.rand_prog(r, 0)))
                ops += [("open", 2), ("add", 2, [sib]), ("commit", 2)]
        ops += [("sess",), ("action", True, None, [(aid + 7, 0, ())])]
        cases.append(("m%d" % i, "libc" if i % 3 == 1 else "mem", T.gid_of(d), d, ops))
    cases = T.replay_cases(ctx) or cases
    res, mm = T.run_cases(ctx, cases, "c04")
    if res is None:
        return
    viol, tot = [], {}
    for ci, (c, outs) in enumerate(zip(cases, res)):
        bad, st = oracle(c, outs)
        for k, v in st.items():
            if isinstance(v, dict):
                tot.setdefault(k, {})
                for kk, vv in v.items():
                    tot[k][kk] = tot[k].get(kk, 0) + vv
            else:
                tot[k] = tot.get(k, 0) + v
        for (j, why) in bad:
            viol.append((ci, j, why))
    hd = tot.get("heads", {})
    nontriv = sum(v for k, v in hd.items() if int(k) >= 2)
    ctx.coverage.update({
        "traces_validated_against_impl": len(cases),
        "evaluations": sum(len(c[4]) for c in cases),
        "distinct_nontrivial": nontriv,
        "rule": "non-trivial = a successful action executed on a committed state with >= 2 heads (distribution.collapse.heads = number of heads collapsed); every such state also compares the session view, the hello head and the facts dumped by the action with the fact cache",
        "distribution": dict(T.basic_stats(cases, res), collapse=tot),
        "samples": [{"case": T.case_text(*cases[i])[:1500], "results": [o["res"] for o in res[i]]} for i in (len(cases) - 1,)],
    })
    ctx.assumptions += ["ids identify commands (rclash = false)",
                        "for more than two heads, state-at-the-collapsed-head = braid over all heads is a property of the concrete braid (C03 merge transparency); here it is checked on the real code and on the reference braid, not proved"]
    for (ci, j, why) in viol[:3]:
        ctx.violation("lazy merge not transparent: " + why,
                      dict(T.replay_obj(cases[ci], res[ci], why, j), contradicts="collapse_transparent / hello_head_is_collapse_address (coq/props/C04.v)"))
    T.report_mismatches(ctx, cases, res, mm)
    ctx.oblige("oracle:lazy-merge-on-impl-output", not viol, str(viol[:3]))
    ctx.oblige("coverage:three-or-more-heads", any(int(k) >= 3 for k in hd), str(hd))
