"""Shared machinery of the compiler-unit checks (C22, C23, C24, C30).

 * a generator of random well-typed policies of the fragment modelled in
   coq/model/Lang.v (all randomness from the Rng handed in),
 * printers of the same AST as policy text (for the real parser/compiler) and
   as a Coq term (for Typing/Compile/Lang),
 * a mutator producing ill-typed / ill-scoped variants,
 * parsers of the harness output (module dump, values, I/O log) into Coq terms.

AST (tuples, constructor names = the Coq constructors of model/Lang.v):
 types   ('int',) ('bool',) ('string',) ('id',) ('unit',) ('enum',n) ('struct',n) ('opt',T) ('res',T,E) ('never',)
 expr    ('EUnit',) ('EInt',z) ('EStr',s) ('EBool',b) ('EEnum',e,v) ('ENone',) ('EWrap',w,e) ('EVar',x)
         ('EStruct',n,[(f,e)]) ('EDot',e,f) ('ESubstruct',e,s) ('ECast',e,s) ('EAnd',a,b) ('EOr',a,b) ('ENot',a)
         ('EBin',op,a,b) ('EIs',e,some) ('ECoalesce',a,b) ('EIf',c,t,f) ('EBlock',[stmt],e) ('EMatch',e,[(pattern,e)])
         ('ECall',f,[e]) ('EFfi',m,f,[e]) ('EReturn',e) ('ERecall',n,[e]) ('ETodo',)
 stmt    ('SLet',x,e) ('SCheck',e,els) ('SIf',[(c,[stmt])],fallback|None) ('SMatch',e,[(pattern,[stmt])]) ('SReturn',e)
         ('SFinish',[stmt]) ('SCreate',fact,[(k,e)],[(v,e)]) ('SUpdate',fact,keys,vals|None,to) ('SDelete',fact,keys)
         ('SEmit',e) ('SCall',f,[e]) ('SRecall',n,[e]) ('SDebugAssert',e)
 pattern ('PVals',[pat]) ('PDefault',)     pat ('PLit',lit) ('PBind',w,x)
 lit     ('LUnit',) ('LInt',z) ('LStr',s) ('LBool',b) ('LEnum',e,v) ('LNone',) ('LSome',l) ('LOk',l) ('LErr',l)
"""
import re

I64_MIN = -(1 << 63)
I64_MAX = (1 << 63) - 1
INTS = [I64_MIN, -1, 0, 1, I64_MAX, 2, -2, 5, 7, 42, I64_MAX - 1, I64_MIN + 1]
STRS = ["", "a", "ab", "hello world", "Z9", "x_y", " "]

T_INT = ('int',)
T_BOOL = ('bool',)
T_STR = ('string',)
T_ID = ('id',)
T_UNIT = ('unit',)


# ---------------------------------------------------------------- printing: policy text

def ty_text(t):
    k = t[0]
    if k in ('int', 'bool', 'string', 'id', 'unit', 'bytes'):
        return k
    if k == 'enum':
        return 'enum ' + t[1]
    if k == 'struct':
        return 'struct ' + t[1]
    if k == 'opt':
        return 'option[%s]' % ty_text(t[1])
    if k == 'res':
        return 'result[%s, %s]' % (ty_text(t[1]), ty_text(t[2]))
    raise ValueError(t)


def str_text(s):
    out = []
    for ch in s.encode():
        if ch in (0x22, 0x5c):
            out.append('\\' + chr(ch))
        elif 32 <= ch < 127:
            out.append(chr(ch))
        else:
            out.append('\\x%02x' % ch)
    return '"' + ''.join(out) + '"'


def lit_text(l):
    k = l[0]
    if k == 'LUnit':
        return 'Unit'
    if k == 'LInt':
        return str(l[1])
    if k == 'LStr':
        return str_text(l[1])
    if k == 'LBool':
        return 'true' if l[1] else 'false'
    if k == 'LEnum':
        return '%s::%s' % (l[1], l[2])
    if k == 'LNone':
        return 'None'
    return {'LSome': 'Some', 'LOk': 'Ok', 'LErr': 'Err'}[k] + '(' + lit_text(l[1]) + ')'


WRAP_TEXT = {'W_Some': 'Some', 'W_Ok': 'Ok', 'W_Err': 'Err'}
BIN_TEXT = {'BEq': '==', 'BNe': '!=', 'BGt': '>', 'BLt': '<', 'BGe': '>=', 'BLe': '<='}


def pattern_text(p):
    if p[0] == 'PDefault':
        return '_'
    alts = []
    for pt in p[1]:
        if pt[0] == 'PLit':
            alts.append(lit_text(pt[1]))
        else:
            alts.append('%s(%s)' % (WRAP_TEXT[pt[1]], pt[2]))
    return ' | '.join(alts)


def expr_text(e):
    k = e[0]
    if k == 'EUnit':
        return 'Unit'
    if k == 'EInt':
        return str(e[1])
    if k == 'EStr':
        return str_text(e[1])
    if k == 'EBool':
        return 'true' if e[1] else 'false'
    if k == 'EEnum':
        return '%s::%s' % (e[1], e[2])
    if k == 'ENone':
        return 'None'
    if k == 'EWrap':
        return '%s(%s)' % (WRAP_TEXT[e[1]], expr_text(e[2]))
    if k == 'EVar':
        return e[1]
    if k == 'EStruct':
        return '%s { %s }' % (e[1], ', '.join('%s: %s' % (f, expr_text(x)) for f, x in e[2]))
    if k == 'EDot':
        return '(%s).%s' % (expr_text(e[1]), e[2])
    if k == 'ESubstruct':
        return '((%s) substruct %s)' % (expr_text(e[1]), e[2])
    if k == 'ECast':
        return '((%s) as %s)' % (expr_text(e[1]), e[2])
    if k == 'EAnd':
        return '((%s) && (%s))' % (expr_text(e[1]), expr_text(e[2]))
    if k == 'EOr':
        return '((%s) || (%s))' % (expr_text(e[1]), expr_text(e[2]))
    if k == 'ENot':
        return '(!(%s))' % expr_text(e[1])
    if k == 'EBin':
        return '((%s) %s (%s))' % (expr_text(e[2]), BIN_TEXT[e[1]], expr_text(e[3]))
    if k == 'EIs':
        return '((%s) is %s)' % (expr_text(e[1]), 'Some' if e[2] else 'None')
    if k == 'ECoalesce':
        return '((%s) or (%s))' % (expr_text(e[1]), expr_text(e[2]))
    if k == 'EIf':
        return 'if (%s) %s else %s' % (expr_text(e[1]), block_text(e[2]), block_text(e[3]))
    if k == 'EBlock':
        return block_text(e)
    if k == 'EMatch':
        return 'match (%s) { %s }' % (expr_text(e[1]), ' '.join('%s => (%s)' % (pattern_text(p), expr_text(x)) for p, x in e[2]))
    if k == 'ECall':
        return '%s(%s)' % (e[1], ', '.join(expr_text(x) for x in e[2]))
    if k == 'EFfi':
        return '%s::%s(%s)' % (e[1], e[2], ', '.join(expr_text(x) for x in e[3]))
    if k == 'EReturn':
        return '(return %s)' % expr_text(e[1])
    if k == 'ERecall':
        return '(recall %s(%s))' % (e[1], ', '.join(expr_text(x) for x in e[2]))
    if k == 'ETodo':
        return 'todo()'
    raise ValueError(e)


def block_text(e):
    assert e[0] == 'EBlock', e
    return '{ %s : %s }' % (' '.join(stmt_text(s) for s in e[1]), expr_text(e[2]))


def fields_text(fs):
    return ', '.join('%s: %s' % (f, expr_text(x)) for f, x in fs)


def stmts_text(ss):
    return '{ ' + ' '.join(stmt_text(s) for s in ss) + ' }'


def stmt_text(s):
    k = s[0]
    if k == 'SLet':
        return 'let %s = %s' % (s[1], expr_text(s[2]))
    if k == 'SCheck':
        return 'check %s else %s' % (expr_text(s[1]), expr_text(s[2]))
    if k == 'SIf':
        out = []
        for i, (c, ss) in enumerate(s[1]):
            out.append(('if (%s) %s' if i == 0 else 'else if (%s) %s') % (expr_text(c), stmts_text(ss)))
        if s[2] is not None:
            out.append('else ' + stmts_text(s[2]))
        return ' '.join(out)
    if k == 'SMatch':
        return 'match (%s) { %s }' % (expr_text(s[1]), ' '.join('%s => %s' % (pattern_text(p), stmts_text(ss)) for p, ss in s[2]))
    if k == 'SReturn':
        return 'return %s' % expr_text(s[1])
    if k == 'SFinish':
        return 'finish ' + stmts_text(s[1])
    if k == 'SCreate':
        return 'create %s[%s]=>{%s}' % (s[1], fields_text(s[2]), fields_text(s[3]))
    if k == 'SUpdate':
        v = '' if s[3] is None else '=>{%s}' % fields_text(s[3])
        return 'update %s[%s]%s to {%s}' % (s[1], fields_text(s[2]), v, fields_text(s[4]))
    if k == 'SDelete':
        return 'delete %s[%s]' % (s[1], fields_text(s[2]))
    if k == 'SEmit':
        return 'emit %s' % expr_text(s[1])
    if k == 'SCall':
        return '%s(%s)' % (s[1], ', '.join(expr_text(x) for x in s[2]))
    if k == 'SRecall':
        return 'recall %s(%s)' % (s[1], ', '.join(expr_text(x) for x in s[2]))
    if k == 'SDebugAssert':
        return 'debug_assert(%s)' % expr_text(s[1])
    raise ValueError(s)


def params_text(ps):
    return ', '.join('%s %s' % (x, ty_text(t)) for x, t in ps)


def policy_text(p):
    """p: dict(enums, structs, effects, facts, globals, funs, finfuns, cmds, actions, uses_ffi)"""
    out = []
    if p.get('uses_ffi'):
        out.append('use t')
    for n, vs in p['enums']:
        out.append('enum %s { %s }' % (n, ', '.join(vs)))
    for n, fs in p['structs']:
        out.append('struct %s { %s }' % (n, params_text(fs)))
    for n, fs in p['effects']:
        out.append('effect %s { %s }' % (n, params_text(fs)))
    for f in p['facts']:
        out.append('%sfact %s[%s]=>{%s}' % ('immutable ' if f['immutable'] else '', f['name'], params_text(f['keys']), params_text(f['vals'])))
    for n, l in p['globals']:
        out.append('let %s = %s' % (n, lit_text(l)))
    for f in p['funs']:
        out.append('function %s(%s) %s %s' % (f['name'], params_text(f['params']), ty_text(f['ret']), stmts_text(f['body'])))
    for f in p['finfuns']:
        out.append('finish function %s(%s) %s' % (f['name'], params_text(f['params']), stmts_text(f['body'])))
    for c in p['cmds']:
        rec = ' '.join('recall %s(%s) %s' % (r['name'], params_text(r['params']), stmts_text(r['body'])) for r in c['recalls'])
        out.append('command %s { fields { %s } seal %s open %s policy %s %s }' % (
            c['name'], params_text(c['fields']), stmts_text(c['seal']), stmts_text(c['open']), stmts_text(c['policy']), rec))
    for a in p['actions']:
        out.append('action %s(%s) %s' % (a['name'], params_text(a['params']), stmts_text(a['body'])))
    return '\n'.join(out) + '\n'


# ---------------------------------------------------------------- printing: Coq terms

def cq_str(s):
    return '"' + s.replace('"', '""') + '"'


def cq_z(z):
    return '(%d)%%Z' % z


def cq_list(xs, f=lambda x: x):
    return '[' + '; '.join(f(x) for x in xs) + ']'


def cq_ty(t):
    k = t[0]
    m = {'int': 'TK_Int', 'bool': 'TK_Bool', 'string': 'TK_String', 'id': 'TK_Id', 'unit': 'TK_Unit', 'bytes': 'TK_Bytes', 'never': 'TK_Never'}
    if k in m:
        return m[k]
    if k == 'enum':
        return '(TK_Enum %s)' % cq_str(t[1])
    if k == 'struct':
        return '(TK_Struct %s)' % cq_str(t[1])
    if k == 'opt':
        return '(TK_Optional %s)' % cq_ty(t[1])
    if k == 'res':
        return '(TK_Result %s %s)' % (cq_ty(t[1]), cq_ty(t[2]))
    raise ValueError(t)


def cq_lit(l):
    k = l[0]
    if k == 'LUnit':
        return 'LUnit'
    if k == 'LInt':
        return '(LInt %s)' % cq_z(l[1])
    if k == 'LStr':
        return '(LStr %s)' % cq_str(l[1])
    if k == 'LBool':
        return '(LBool %s)' % ('true' if l[1] else 'false')
    if k == 'LEnum':
        return '(LEnum %s %s)' % (cq_str(l[1]), cq_str(l[2]))
    if k == 'LNone':
        return 'LNone'
    return '(%s %s)' % (k, cq_lit(l[1]))


def cq_pattern(p):
    if p[0] == 'PDefault':
        return 'PDefault'
    return '(PVals %s)' % cq_list(p[1], lambda pt: '(PLit %s)' % cq_lit(pt[1]) if pt[0] == 'PLit' else '(PBind %s %s)' % (pt[1], cq_str(pt[2])))


def cq_exprs(es):
    out = 'ENil'
    for e in reversed(es):
        out = '(ECons %s %s)' % (cq_expr(e), out)
    return out


def cq_fields(fs):
    out = 'FNil'
    for f, e in reversed(fs):
        out = '(FCons %s %s %s)' % (cq_str(f), cq_expr(e), out)
    return out


def cq_stmts(ss):
    out = 'SNil'
    for s in reversed(ss):
        out = '(SCons %s %s)' % (cq_stmt(s), out)
    return out


def cq_expr(e):
    k = e[0]
    if k in ('EUnit', 'ENone', 'ETodo'):
        return k
    if k == 'EInt':
        return '(EInt %s)' % cq_z(e[1])
    if k == 'EStr':
        return '(EStr %s)' % cq_str(e[1])
    if k == 'EBool':
        return '(EBool %s)' % ('true' if e[1] else 'false')
    if k == 'EEnum':
        return '(EEnum %s %s)' % (cq_str(e[1]), cq_str(e[2]))
    if k == 'EWrap':
        return '(EWrap %s %s)' % (e[1], cq_expr(e[2]))
    if k == 'EVar':
        return '(EVar %s)' % cq_str(e[1])
    if k == 'EStruct':
        return '(EStruct %s %s)' % (cq_str(e[1]), cq_fields(e[2]))
    if k in ('EDot', 'ESubstruct', 'ECast'):
        return '(%s %s %s)' % (k, cq_expr(e[1]), cq_str(e[2]))
    if k in ('EAnd', 'EOr', 'ECoalesce'):
        return '(%s %s %s)' % (k, cq_expr(e[1]), cq_expr(e[2]))
    if k in ('ENot', 'EReturn'):
        return '(%s %s)' % (k, cq_expr(e[1]))
    if k == 'EBin':
        return '(EBin %s %s %s)' % (e[1], cq_expr(e[2]), cq_expr(e[3]))
    if k == 'EIs':
        return '(EIs %s %s)' % (cq_expr(e[1]), 'true' if e[2] else 'false')
    if k == 'EIf':
        return '(EIf %s %s %s)' % (cq_expr(e[1]), cq_expr(e[2]), cq_expr(e[3]))
    if k == 'EBlock':
        return '(EBlock %s %s)' % (cq_stmts(e[1]), cq_expr(e[2]))
    if k == 'EMatch':
        arms = 'EANil'
        for p, x in reversed(e[2]):
            arms = '(EACons %s %s %s)' % (cq_pattern(p), cq_expr(x), arms)
        return '(EMatch %s %s)' % (cq_expr(e[1]), arms)
    if k == 'ECall':
        return '(ECall %s %s)' % (cq_str(e[1]), cq_exprs(e[2]))
    if k == 'EFfi':
        return '(EFfi %s %s %s)' % (cq_str(e[1]), cq_str(e[2]), cq_exprs(e[3]))
    if k == 'ERecall':
        return '(ERecall %s %s)' % (cq_str(e[1]), cq_exprs(e[2]))
    raise ValueError(e)


def cq_stmt(s):
    k = s[0]
    if k == 'SLet':
        return '(SLet %s %s)' % (cq_str(s[1]), cq_expr(s[2]))
    if k == 'SCheck':
        return '(SCheck %s %s)' % (cq_expr(s[1]), cq_expr(s[2]))
    if k == 'SIf':
        bs = 'BNil'
        for c, ss in reversed(s[1]):
            bs = '(BCons %s %s %s)' % (cq_expr(c), cq_stmts(ss), bs)
        return '(SIf %s %s)' % (bs, 'ONone' if s[2] is None else '(OSome %s)' % cq_stmts(s[2]))
    if k == 'SMatch':
        arms = 'SANil'
        for p, ss in reversed(s[2]):
            arms = '(SACons %s %s %s)' % (cq_pattern(p), cq_stmts(ss), arms)
        return '(SMatch %s %s)' % (cq_expr(s[1]), arms)
    if k in ('SReturn', 'SEmit', 'SDebugAssert'):
        return '(%s %s)' % (k, cq_expr(s[1]))
    if k == 'SFinish':
        return '(SFinish %s)' % cq_stmts(s[1])
    if k == 'SCreate':
        return '(SCreate %s %s %s)' % (cq_str(s[1]), cq_fields(s[2]), cq_fields(s[3]))
    if k == 'SUpdate':
        return '(SUpdate %s %s %s %s)' % (cq_str(s[1]), cq_fields(s[2]), 'VNone' if s[3] is None else '(VSome %s)' % cq_fields(s[3]), cq_fields(s[4]))
    if k == 'SDelete':
        return '(SDelete %s %s)' % (cq_str(s[1]), cq_fields(s[2]))
    if k in ('SCall', 'SRecall'):
        return '(%s %s %s)' % (k, cq_str(s[1]), cq_exprs(s[2]))
    raise ValueError(s)


def cq_params(ps):
    return cq_list(ps, lambda p: '(%s, %s)' % (cq_str(p[0]), cq_ty(p[1])))


FFI_DEFS = [('t', 'log_int', 0, 0, [T_INT], T_INT), ('t', 'log_bool', 0, 1, [T_BOOL], T_BOOL)]


def cq_policy(p):
    enums = cq_list(p['enums'], lambda e: '(%s, %s)' % (cq_str(e[0]), cq_list(e[1], cq_str)))
    structs = cq_list(p['structs'], lambda s: '(%s, %s)' % (cq_str(s[0]), cq_params(s[1])))
    effects = cq_list(p['effects'], lambda s: '(%s, %s)' % (cq_str(s[0]), cq_params(s[1])))
    facts = cq_list(p['facts'], lambda f: "(mkFactDef' %s %s %s %s)" % (cq_str(f['name']), 'true' if f['immutable'] else 'false', cq_params(f['keys']), cq_params(f['vals'])))
    globs = cq_list(p['globals'], lambda g: '(%s, %s)' % (cq_str(g[0]), cq_lit(g[1])))
    funs = cq_list(p['funs'], lambda f: '(mkFun %s %s %s %s)' % (cq_str(f['name']), cq_params(f['params']), cq_ty(f['ret']), cq_stmts(f['body'])))
    finfuns = cq_list(p['finfuns'], lambda f: '(mkFinFun %s %s %s)' % (cq_str(f['name']), cq_params(f['params']), cq_stmts(f['body'])))
    cmds = cq_list(p['cmds'], lambda c: '(mkCmd %s %s %s %s %s %s)' % (
        cq_str(c['name']), cq_params(c['fields']), cq_stmts(c['seal']), cq_stmts(c['open']), cq_stmts(c['policy']),
        cq_list(c['recalls'], lambda r: '(mkRecall %s %s %s)' % (cq_str(r['name']), cq_params(r['params']), cq_stmts(r['body'])))))
    acts = cq_list(p['actions'], lambda a: '(mkAction %s %s None %s)' % (cq_str(a['name']), cq_params(a['params']), cq_stmts(a['body'])))
    ffi = cq_list(FFI_DEFS if p.get('uses_ffi') else [], lambda d: '(mkFfi %s %s %d%%N %d%%N %s %s)' % (
        cq_str(d[0]), cq_str(d[1]), d[2], d[3], cq_list(d[4], cq_ty), cq_ty(d[5])))
    return '(mkPolicy %s %s %s %s %s %s %s %s %s %s)' % (enums, structs, effects, facts, globs, funs, finfuns, cmds, acts, ffi)


# ---------------------------------------------------------------- values

def val_text(v):
    """python value -> harness ASCII value.  Values: ('U',) ('I',n) ('B',b) ('S',s) ('D',bytes32) ('E',name,idx)
    ('N',) ('O',v) ('K',v) ('R',v) ('T',name,{f:v})"""
    k = v[0]
    if k == 'U':
        return 'U'
    if k == 'I':
        return 'I%d' % v[1]
    if k == 'B':
        return 'B%d' % (1 if v[1] else 0)
    if k == 'S':
        return 'S' + v[1].encode().hex()
    if k == 'D':
        return 'D' + v[1].hex()
    if k == 'E':
        return 'E%s.%d' % (v[1], v[2])
    if k == 'N':
        return 'N'
    if k in 'OKR':
        return '%s(%s)' % (k, val_text(v[1]))
    if k == 'T':
        return 'T%s{%s}' % (v[1], ','.join('%s=%s' % (f, val_text(x)) for f, x in sorted(v[2].items())))
    raise ValueError(v)


def val_coq(v):
    k = v[0]
    if k == 'U':
        return 'V_Unit'
    if k == 'I':
        return '(V_Int %s)' % cq_z(v[1])
    if k == 'B':
        return '(V_Bool %s)' % ('true' if v[1] else 'false')
    if k == 'S':
        return '(V_String %s)' % cq_str(v[1])
    if k == 'D':
        return '(V_Id %d%%N)' % int.from_bytes(v[1], 'big')
    if k == 'E':
        return '(V_Enum %s %s)' % (cq_str(v[1]), cq_z(v[2]))
    if k == 'N':
        return '(V_Option None)'
    if k == 'O':
        return '(V_Option (Some %s))' % val_coq(v[1])
    if k == 'K':
        return '(V_Result (ROk %s))' % val_coq(v[1])
    if k == 'R':
        return '(V_Result (RErr %s))' % val_coq(v[1])
    if k == 'T':
        return '(V_Struct (mkStruct %s %s))' % (cq_str(v[1]), cq_list(sorted(v[2].items(), key=lambda kv: kv[0].encode()), lambda kv: '(%s, %s)' % (cq_str(kv[0]), val_coq(kv[1]))))
    raise ValueError(v)


class VParser:
    def __init__(self, s):
        self.s = s
        self.i = 0

    def take(self, pat):
        m = re.compile(pat).match(self.s, self.i)
        self.i = m.end()
        return m.group(0)

    def value(self):
        c = self.s[self.i]
        self.i += 1
        if c == 'U':
            return ('U',)
        if c == 'I':
            return ('I', int(self.take(r'-?\d+')))
        if c == 'B':
            return ('B', self.take(r'\d') == '1')
        if c == 'S':
            return ('S', bytes.fromhex(self.take(r'[0-9a-f]*')).decode())
        if c == 'Y':
            return ('Y', bytes.fromhex(self.take(r'[0-9a-f]*')))
        if c == 'D':
            return ('D', bytes.fromhex(self.take(r'[0-9a-f]*')))
        if c == 'E':
            n = self.take(r'[A-Za-z0-9_]+')
            self.i += 1
            return ('E', n, int(self.take(r'-?\d+')))
        if c == 'N':
            return ('N',)
        if c in 'OKR':
            self.i += 1
            v = self.value()
            self.i += 1
            return (c, v)
        if c == 'T':
            n = self.take(r'[A-Za-z0-9_]+')
            self.i += 1
            fs = {}
            while self.s[self.i] != '}':
                f = self.take(r'[A-Za-z0-9_]+')
                self.i += 1
                fs[f] = self.value()
                if self.s[self.i] == ',':
                    self.i += 1
            self.i += 1
            return ('T', n, fs)
        raise ValueError('bad value %r at %d' % (self.s, self.i))


def parse_val(s):
    return VParser(s).value()


def const_coq(v):
    k = v[0]
    if k == 'U':
        return 'CV_Unit'
    if k == 'I':
        return '(CV_Int %s)' % cq_z(v[1])
    if k == 'B':
        return '(CV_Bool %s)' % ('true' if v[1] else 'false')
    if k == 'S':
        return '(CV_String %s)' % cq_str(v[1])
    if k == 'E':
        return '(CV_Enum %s %s)' % (cq_str(v[1]), cq_z(v[2]))
    if k == 'N':
        return '(CV_Option None)'
    if k == 'O':
        return '(CV_Option (Some %s))' % const_coq(v[1])
    if k == 'K':
        return '(CV_Result (ROk %s))' % const_coq(v[1])
    if k == 'R':
        return '(CV_Result (RErr %s))' % const_coq(v[1])
    raise ValueError(v)


# ---------------------------------------------------------------- harness output -> Coq

LT = {'action': 'LT_Action', 'policy': 'LT_CommandPolicy', 'recall': 'LT_CommandRecall', 'seal': 'LT_CommandSeal',
      'open': 'LT_CommandOpen', 'temp': 'LT_Temporary', 'fn': 'LT_Function'}
WR = {'ok': 'W_Ok', 'err': 'W_Err', 'some': 'W_Some'}
EX = {'normal': 'ER_Normal', 'yield': 'ER_Yield', 'check': 'ER_Check', 'panic': 'ER_Panic'}


def target_coq(t):
    if t.startswith('?'):
        lt, name = t[1:].split(':', 1)
        return '(T_Unresolved (mkLabel %s %s))' % (cq_str(name), LT[lt])
    return '(T_Resolved %s%%N)' % t


def instr_coq(tok):
    parts = tok.split(':')
    n = parts[0]
    if len(parts) == 1:
        return 'I_' + n
    a = parts[1]
    if n == 'Const':
        return '(I_Const %s)' % const_coq(parse_val(tok[len('Const:'):]))
    if n in ('Identifier', 'Def', 'Get', 'FactNew', 'FactKeySet', 'FactValueSet', 'StructNew', 'StructSet', 'StructGet', 'Cast', 'QueryNext'):
        return '(I_%s %s)' % (n, cq_str(a))
    if n in ('Jump', 'Branch', 'Call', 'Recall'):
        return '(I_%s %s)' % (n, target_coq(tok[len(n) + 1:]))
    if n == 'ExtCall':
        return '(I_ExtCall %s%%N %s%%N)' % (a, parts[2])
    if n == 'Exit':
        return '(I_Exit %s)' % EX[a]
    if n in ('MStructSet', 'MStructGet'):
        return '(I_%s %s%%N)' % (n, a)
    if n in ('Wrap', 'Is', 'Unwrap'):
        return '(I_%s %s)' % (n, WR[a])
    if n == 'FactCount':
        return '(I_FactCount %s)' % cq_z(int(a))
    if n == 'Meta':
        if a == 'finish':
            return '(I_Meta (M_Finish %s))' % ('true' if parts[2] == '1' else 'false')
        return '(I_Meta (M_FFI %s %s))' % (cq_str(parts[2]), cq_str(parts[3]))
    raise ValueError(tok)


def module_coq(line):
    """`ok <instrs>|<labels>` / `err <Class>` -> Coq term of type (list Instruction * list (Label*N)) + string"""
    if line.startswith('err '):
        return '(inr %s)' % cq_str(line[4:].strip())
    assert line.startswith('ok '), line
    body = line[3:]
    code, _, labels = body.partition('|')
    instrs = [instr_coq(t) for t in code.split(' ') if t]
    labs = []
    for l in labels.split(' '):
        if not l:
            continue
        lhs, addr = l.rsplit('=', 1)
        lt, name = lhs.split(':', 1)
        labs.append('(mkLabel %s %s, %s%%N)' % (cq_str(name), LT[lt], addr))
    return '(inl (%s, %s))' % (cq_list(instrs), cq_list(labs))


def hv_coq(v):
    k = v[0]
    if k == 'I':
        return '(HV_Int %s)' % cq_z(v[1])
    if k == 'B':
        return '(HV_Bool %s)' % ('true' if v[1] else 'false')
    if k == 'S':
        return '(HV_String %s)' % cq_str(v[1])
    if k == 'D':
        return '(HV_Id %d%%N)' % int.from_bytes(v[1], 'big')
    if k == 'E':
        return '(HV_Enum %s %s)' % (cq_str(v[1]), cq_z(v[2]))
    raise ValueError(v)


def split_kv(s):
    """`a=V,b=V` with nested braces/parens -> [(a, value)]"""
    out = []
    p = VParser(s)
    while p.i < len(s):
        f = p.take(r'[A-Za-z0-9_]+')
        p.i += 1
        out.append((f, p.value()))
        if p.i < len(s) and s[p.i] == ',':
            p.i += 1
    return out


def event_coq(ev):
    """one entry of the harness I/O log -> Coq `ev`"""
    if ev.startswith('ffi:'):
        _, m, pr, v = ev.split(':', 3)
        return '(EvFfi %s%%N %s%%N %s)' % (m, pr, val_coq(parse_val(v)))
    if ev.startswith('fail:'):
        return '(EvFail %s)' % cq_str(ev[5:])
    if ev == 'exists:ins':
        return 'EvExists'
    if ev == 'notfound:del':
        return 'EvNotFound'
    m = re.match(r'^(ins|del|qry):([A-Za-z0-9_]+)\[(.*?)\](?:\{(.*)\})?$', ev)
    if m:
        kind, name, ks, vs = m.groups()
        keys = cq_list(split_kv(ks), lambda kv: '(mkFactKey %s %s)' % (cq_str(kv[0]), hv_coq(kv[1])))
        if kind == 'ins':
            vals = cq_list(split_kv(vs or ''), lambda kv: '(mkFactValue %s %s)' % (cq_str(kv[0]), val_coq(kv[1])))
            return '(EvIns %s %s %s)' % (cq_str(name), keys, vals)
        return '(%s %s %s)' % ('EvDel' if kind == 'del' else 'EvQry', cq_str(name), keys)
    m = re.match(r'^eff:([A-Za-z0-9_]+)\{(.*)\}:([01])$', ev)
    if m:
        name, fs, rec = m.groups()
        fields = sorted(split_kv(fs), key=lambda kv: kv[0].encode())
        return '(EvEff %s %s %s)' % (cq_str(name), cq_list(fields, lambda kv: '(%s, %s)' % (cq_str(kv[0]), val_coq(kv[1]))), 'true' if rec == '1' else 'false')
    raise ValueError(ev)


def run_result(line):
    """`exit|top|depth|log` -> (exit, top or None, depth, [events])"""
    ex, top, depth, log = line.split('|', 3)
    return ex, (None if top == '-' else top), int(depth), [e for e in log.split(';') if e]


def summary_coq(ex, top, events):
    return '(%s, %s, %s)' % (cq_str(ex), 'None' if top is None else '(Some %s)' % val_coq(parse_val(top)), cq_list(events, event_coq))


COQ_HEADER = ("From Aranya Require Import model.VmBase gen.GenVm model.Vm model.Lang model.Typing model.Compile model.CompileRun base.Harness.\n"
              "Open Scope string_scope.\n")


# ---------------------------------------------------------------- running both sides

def run_harness(vlib, binp, lines):
    rc, out, err = vlib.run_bin(binp, input="".join(l + "\n" for l in lines), timeout=1800)
    res = out.splitlines()
    if rc != 0 or len(res) != len(lines):
        return None, (out[-500:] + err[-1500:])
    return res, ""


def compile_line(pol):
    return "C " + policy_text(pol).encode().hex()


def run_line(pol, kind, name, fail_at, args, facts=None):
    a = ";".join(val_text(x) for x in args) or "-"
    f = "-"
    if facts:
        f = ";".join("%s/%s" % (val_text(('T', n, dict(k))), val_text(('T', n, dict(v)))) for (n, k, v) in facts)
    return "R %s %s %s %d %s %s" % (policy_text(pol).encode().hex(), kind, name, fail_at, a, f)


def coq_mismatches(vlib, ctx, name, header, items, render, shard, jobs=4):
    """evaluate `render(chunk)` files; returns (list of mismatching global indices, error text or None)"""
    n = max(1, (len(items) + jobs - 1) // jobs)
    shard = max(shard, n) if len(items) > shard * jobs else shard
    outs, chunks = vlib.coq_eval_sharded(ctx, name, header, items, render, shard=shard)
    mism, base = [], 0
    for (rc, o), ch in zip(outs, chunks):
        v = vlib.parse_coq_value(o) if rc == 0 else None
        if v is None:
            return None, o[-3000:]
        mism += [base + j for j in v]
        base += len(ch)
    return mism, None


def l1_render(chunk):
    """chunk: [(policy, harness compile line result)]"""
    items = ["(%s, %s)" % (cq_policy(p), module_coq(l)) for (p, l) in chunk]
    return ("Definition cases : list (policy * ((list Instruction * list (Label * N)) + string)) := %s.\n"
            "Eval vm_compute in (mismatches (fun c => l1_agree (fst c) true (snd c)) cases).\n" % cq_list(items))


def l3_fn_render(chunk):
    """chunk: [(policy, args, fail_at, (exit, top, log))]; a policy shared by several cases is defined once"""
    names, defs, items = {}, [], []
    for (p, args, fa, (ex, top, log)) in chunk:
        if id(p) not in names:
            names[id(p)] = "pol%d" % len(names)
            defs.append("Definition %s : policy := %s.\n" % (names[id(p)], cq_policy(p)))
        items.append("(%s, %s, %d%%N, %s)" % (names[id(p)], cq_list(args, val_coq), fa, summary_coq(ex, top if ex == 'normal' else None, log)))
    return ("".join(defs) + "Definition cases : list (policy * list Value * N * summary) := %s.\n"
            "Eval vm_compute in (mismatches (fun c => let '(p, args, fa, s) := c in "
            "summary_eqb (l3_function p true \"main\" args fa) s) cases).\n" % cq_list(items))


def count_nodes(x):
    if isinstance(x, (list, tuple)):
        return 1 + sum(count_nodes(c) for c in x)
    if isinstance(x, dict):
        return sum(count_nodes(c) for c in x.values())
    return 0


def constructs(x, acc):
    if isinstance(x, tuple) and x and isinstance(x[0], str) and len(x[0]) > 1 and x[0][0] in 'ESPL' and x[0][1].isupper():
        acc[x[0]] = acc.get(x[0], 0) + 1
    if isinstance(x, (list, tuple)):
        for c in x:
            constructs(c, acc)
    elif isinstance(x, dict):
        for c in x.values():
            constructs(c, acc)
    return acc


def facts_coq(facts):
    items = []
    for (n, k, v) in facts:
        items.append("((%s, %s), %s)" % (cq_str(n), cq_list(k, lambda kv: "(mkFactKey %s %s)" % (cq_str(kv[0]), hv_coq(kv[1]))),
                                          cq_list(v, lambda kv: "(mkFactValue %s %s)" % (cq_str(kv[0]), val_coq(kv[1])))))
    return cq_list(items)


def l3_policy_render(chunk):
    """chunk: [(policy, this, fail_at, facts, (exit, top, log))]"""
    names, defs, items = {}, [], []
    for (p, this, fa, facts, (ex, top, log)) in chunk:
        if id(p) not in names:
            names[id(p)] = "pol%d" % len(names)
            defs.append("Definition %s : policy := %s.\n" % (names[id(p)], cq_policy(p)))
        items.append("(%s, %s, %d%%N, %s, %s)" % (names[id(p)], val_coq(this), fa, facts_coq(facts), summary_coq(ex, None, log)))
    return ("".join(defs) + "Definition cases : list (policy * Value * N * list ((ident * list FactKey) * list FactValue) * summary) := %s.\n"
            "Eval vm_compute in (mismatches (fun c => let '(p, this, fa, facts, s) := c in "
            "summary_eqb (l3_policy p true \"C\" this (V_Struct (mkStruct \"Envelope\" [])) fa facts) s) cases).\n" % cq_list(items))
