"""C42 — AFC shared-memory channel tables stay consistent."""
import os
import sys

sys.path.insert(0, os.path.dirname(os.path.abspath(__file__)))
import shm_common as S  # noqa: E402

CFG = {
    "seq": [("shm", "def", "table", 45, 400), ("shm", "def", "malformed", 12, 120), ("shm", "def", "remove", 8, 80),
            ("shm", "lim", "table", 4, 40), ("mem", "def", "table", 10, 100), ("mem", "def", "malformed", 4, 40)],
    "limit": None,
    "conc": "table", "conc_quick": 10,
    "conc2_quick": (3, 60), "conc2_thorough": (3, None),
    "rand": ("table", 6, 80),
}


def run(ctx):
    S.standard_check(ctx, "C42", CFG)
