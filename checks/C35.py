"""C35 — replicas accept only authentic commands.

Proof: coq/props/C35.v — replica_accepts_authentic_only over the model of VmPolicy::call_rule's envelope
construction + crypto-ffi verify + the transaction's store-or-revert decision, under the C34 component
(cmd_sig_binds).  The provenance of every envelope field is regenerated from the source and pinned.

Correspondence: harness/hx-vmpolicy bin c35 — real crypto-ffi / envelope-ffi / device-ffi / idam-ffi /
perspective-ffi, default engine, in-memory key store, signing policy, ClientState on linear memory storage.
Honest commands of two authors are delivered to fresh replicas with every wire field mutated; the model is
evaluated on the same (decoded) fields in Coq and the outcome classes are compared there; the oracle
(rejected + replica identical to the honest prefix + no effect + not stored; unmodified accepted) judges
the implementation.
"""
import re

import vlib

NCMDS = 5
KINDS = {"Init": "PrInit", "AddDevice": "PrBasic 1", "AddNote": "PrBasic 0"}
ZERO = "00" * 32


def structured_specs(k, r, thorough):
    """mutations of every wire field of honest command k"""
    s = []
    others = [j for j in range(NCMDS) if j != k]
    j = r.choice(others)
    s += ["%d:author:flip:%d:%d" % (k, r.below(32), 1 << r.below(8)), "%d:author:dev:A" % k, "%d:author:dev:C" % k,
          "%d:author:dev:B" % k, "%d:author:dev:Z" % k]
    s += ["%d:kind:%s" % (k, n) for n in ("Init", "AddDevice", "AddNote")]
    s += ["%d:payload:flip:%d:%d" % (k, r.below(64), 1 << r.below(8)), "%d:payload:flip:0:1" % k, "%d:payload:trunc" % k,
          "%d:payload:append:0" % k, "%d:payload:append:%d" % (k, r.range(1, 255)), "%d:payload:of:%d" % (k, j)]
    s += ["%d:sig:flip:%d:%d" % (k, r.below(64), 1 << r.below(8)), "%d:sig:flip:63:128" % k, "%d:sig:flip:31:128" % k, "%d:sig:trunc" % k,
          "%d:sig:of:%d" % (k, j)]
    s += ["%d:id:flip:%d:%d" % (k, r.below(32), 1 << r.below(8)), "%d:id:of:%d" % (k, j)]
    if k > 0:
        s += ["%d:parent:flip:%d:%d" % (k, r.below(32), 1 << r.below(8)), "%d:parent:mc:1" % k, "%d:parent:mc:-1" % k,
              "%d:parent:mc:%d" % (k, r.range(2, 9)), "%d:parent:mc:1@batch" % k, "%d:parent:mc:-1@batch" % k]
    s += ["%d:parent:none" % k, "%d:parent:of:%d" % (k, r.choice(list(range(NCMDS)))), "%d:none@batch" % k]
    s += ["%d:prio:init" % k, "%d:prio:finalize" % k, "%d:prio:basic:%d" % (k, r.choice([0, 1, 2, 7]))]
    s += ["%d:policy:none" % k, "%d:policy:some:0000000000000000" % k, "%d:policy:some:0100000000000000" % k]
    s += ["%d:none" % k]
    if thorough:
        for _ in range(40):
            f = r.choice(["author", "payload", "sig", "id", "parent"] if k > 0 else ["author", "payload", "sig", "id"])
            s.append("%d:%s:flip:%d:%d" % (k, f, r.below(200), 1 << r.below(8)))
    return s


def byte_specs(k, r, nbytes, every):
    if every:
        return ["%d:byte:%d:%d" % (k, i, 1 << r.below(8)) for i in range(nbytes)]
    return ["%d:byte:%d:%d" % (k, r.below(nbytes), 1 << r.below(8)) for _ in range(16)]


def kv(s):
    """'a=1 b=2' -> dict"""
    return dict(x.split("=", 1) for x in s.split(" ") if "=" in x)


def parse_fields(s):
    """'nonce:i8,sign_pk:x0960..' -> dict"""
    if s in ("-", ""):
        return {}
    return dict(x.split(":", 1) for x in s.split(","))


class Interner:
    def __init__(self):
        self.t = {ZERO: 0}

    def __call__(self, s):
        if s not in self.t:
            self.t[s] = len(self.t) + 100
        return self.t[s]


def coq_prio(p):
    if p == "init":
        return "PrInit"
    if p == "finalize":
        return "PrFinalize"
    if p == "merge":
        return "PrMerge"
    return "PrBasic %s" % p[5:]


def coq_cmd(d, tok):
    par = d["parent"]
    if par == "none":
        cp = "PNone"
    elif par == "merge":
        cp = "PMerge"
    else:
        pid, mc = par.split("@")
        cp = "PSingle %d %s" % (tok(pid), mc)
    pol = "None" if d["policy"] == "-" else "Some %d" % tok("pol:" + d["policy"])
    if d.get("dec") == "1":
        data = "Some {| w_author := %d; w_kind := %d; w_payload := %d; w_sig := %d |}" % (
            tok(d["author"]), tok("kind:" + d["kind"]), tok("pl:" + d["payload"]), tok("sig:" + d["sig"]))
    else:
        data = "None"
    return "{| c_id := %d; c_prio := %s; c_parent := %s; c_policy := %s; c_data := %s |}" % (tok(d["id"]), coq_prio(d["prio"]), cp, pol, data)


def impl_class(res, k, batch):
    if res.startswith("ok"):
        n = int(res[2:])
        want = (k + 1) if batch else 1
        return 0 if n == want else 1
    return {"err:noparent": 2, "err:init": 3, "err:storage:PerspectiveHeadMismatch": 4, "err:policy:read": 5,
            "err:policy:internal": 6, "err:policy:rejected": 7}.get(res, 9)


def run(ctx):
    vlib.regen(ctx)
    vlib.prove(ctx, extra_targets=["model/EnvelopeCheck.vo"])
    binp = vlib.cargo_build(ctx, "hx-vmpolicy", bin="c35")
    if not binp:
        return
    r = ctx.rng
    nworlds = 10 if ctx.thorough else 3
    # the wire payload sizes are those of the policy's commands (fixed field sizes); 260 covers the largest
    lines_in = []
    for wi in range(nworlds):
        seed = r.below(1 << 30) + 1
        specs = []
        for k in range(NCMDS):
            specs += structured_specs(k, r, ctx.thorough)
            specs += byte_specs(k, r, 260 if k < 2 else 120, ctx.thorough and wi < 2)
        # one line per (world, chunk) so that the work spreads over processes
        chunk = 60
        for i in range(0, len(specs), chunk):
            lines_in.append((seed, specs[i:i + chunk]))
    import concurrent.futures
    nsh = 4
    shards = [lines_in[i::nsh] for i in range(nsh)]

    def runsh(sh):
        return vlib.run_bin(binp, input="".join("%d %s\n" % (s, ";".join(sp)) for s, sp in sh), timeout=3000)
    with concurrent.futures.ThreadPoolExecutor(max_workers=nsh) as ex:
        outs = list(ex.map(runsh, shards))
    lines = [None] * len(lines_in)
    for si, (rc, out, err) in enumerate(outs):
        ol = out.splitlines()
        if rc != 0 or len(ol) != len(shards[si]):
            ctx.oblige("harness:run", False, out[-1000:] + err[-2000:])
            return
        for j, l in enumerate(ol):
            lines[si + j * nsh] = l

    bad, oracle_fail, items = [], [], []
    stats = {"mutations": 0, "accepted_unmodified": 0, "rejected": 0, "byte_flips": 0, "decode_failures": 0,
             "struct_decode_failures": 0, "batch": 0, "policy_field_changes_accepted": 0, "same_fields_after_byte_flip": 0}
    classes, fields_hit = {}, {}
    worlds = {}
    for (seed, specs), line in zip(lines_in, lines):
        parts = line.split("|")
        if not parts or not parts[0].startswith("D "):
            bad.append((seed, line[:300]))
            continue
        H = [kv(p[2:].split(" ", 1)[1]) for p in parts if p.startswith("H ")]
        Ms = [p for p in parts if p.startswith("M ")]
        if len(H) != NCMDS or len(Ms) != len(specs):
            bad.append((seed, line[:300]))
            continue
        w = worlds.setdefault(seed, {"H": H, "cases": []})
        for spec, m in zip(specs, Ms):
            body = m[2:].split(" ", 1)[1] if " " in m[2:] else ""
            d = kv(body)
            if "res" not in d:
                bad.append((seed, m[:200]))
                continue
            k = int(d["k"])
            batch = spec.endswith("@batch")
            stats["mutations"] += 1
            stats["batch"] += batch
            fld = spec.split("@")[0].split(":")[1]
            fields_hit[fld] = fields_hit.get(fld, 0) + 1
            h = H[k]
            wire = ("id", "parent", "author", "kind", "payload", "sig")
            auth_changed = d.get("dec") != "1" or any(d.get(x) != h.get(x) for x in wire)
            prio_changed = d["prio"] != h["prio"]
            pol_changed = d["policy"] != h["policy"]
            if fld == "byte":
                stats["byte_flips"] += 1
                if not auth_changed:
                    stats["same_fields_after_byte_flip"] += 1
            if d.get("dec") != "1":
                stats["decode_failures"] += 1
            elif d.get("sdec") != "1":
                stats["struct_decode_failures"] += 1
            cls = impl_class(d["res"], k, batch)
            classes[d["res"]] = classes.get(d["res"], 0) + 1
            accepted = cls == 0
            clean = d["same"] == "1" and d["stored"] == "0" and d["effects"] == "0"
            why = None
            if d["pre"] != "1":
                why = "honest prefix was not accepted"
            elif accepted and (auth_changed or prio_changed):
                why = ("command accepted although its %s differ from what was signed" % ",".join(x for x in wire if d.get(x) != h.get(x))
                       if auth_changed else "command accepted with a wrong priority")
            elif d["after"] != "ok":
                why = "honest commands no longer accepted after the delivery (%s)" % d["after"]
            elif not auth_changed and not prio_changed and not pol_changed:
                if not accepted:
                    why = "unmodified command rejected (%s)" % d["res"]
                else:
                    stats["accepted_unmodified"] += 1
            elif auth_changed or prio_changed:
                if not clean:
                    why = "rejected command left traces: same=%s stored=%s effects=%s facts=%s" % (d["same"], d["stored"], d["effects"], d.get("facts"))
                else:
                    stats["rejected"] += 1
            else:  # only the policy field differs: not covered by the signature nor by the statement
                if accepted:
                    stats["policy_field_changes_accepted"] += 1
                elif not clean:
                    why = "rejected command left traces"
            if why:
                oracle_fail.append((seed, spec, why, m[:600]))
            w["cases"].append((spec, k, batch, d, cls))

    # model side
    def render_world(seed, w):
        tok = Interner()
        H = w["H"]
        reg = {}
        signed, decodes = [], {}

        def note_decode(d):
            if d.get("dec") == "1" and d.get("sdec") == "1":
                f = parse_fields(d.get("fields", "-"))
                info = "None"
                if d["kind"] in ("Init", "AddDevice") and "sign_pk" in f and "device_id" in f:
                    info = "Some (%d, %d)" % (tok(f["device_id"][1:]), tok("pk:" + f["sign_pk"][1:]))
                decodes[(tok("kind:" + d["kind"]), tok("pl:" + d["payload"]))] = info
        for h in H:
            note_decode(h)
            f = parse_fields(h.get("fields", "-"))
            if h["kind"] == "Init":
                reg[h["author"]] = f["sign_pk"][1:]
            pk = reg.get(h["author"])
            par = ZERO if h["parent"] == "none" else h["parent"].split("@")[0]
            signed.append("(%d, (%d, %d, %d), %d, %d)" % (tok("pk:" + pk), tok("pl:" + h["payload"]), tok("kind:" + h["kind"]), tok(par),
                                                        tok("sig:" + h["sig"]), tok(h["id"])))
            if h["kind"] == "AddDevice":
                reg[f["device_id"][1:]] = f["sign_pk"][1:]
        for (_, _, _, d, _) in w["cases"]:
            note_decode(d)
        cases = []
        for (spec, k, batch, d, cls) in w["cases"]:
            head = "(%d, %d)" % (tok(H[k - 1]["id"]), k - 1) if k > 0 else "(0, 0)"
            cases.append("(%d%%nat, %s, %s, %s, %d)" % (k, "true" if (batch and k > 1) else "false", head, coq_cmd(d, tok), cls))
        kinds = "; ".join("(%d, (%s, true))" % (tok("kind:" + n), p) for n, p in KINDS.items())
        return (
            "Definition kinds_tbl : list (tok * (prio * bool)) := [%s].\n" % kinds +
            "Definition decodes_tbl : list (tok * tok * option (tok * tok)) := [%s].\n" % "; ".join("(%d, %d, %s)" % (a, b, i) for (a, b), i in decodes.items()) +
            "Definition signed_list : list sigrec := [%s].\n" % "; ".join(signed) +
            "Definition honest : list wcmd := [%s].\n" % "; ".join(coq_cmd(h, tok) for h in H) +
            "Definition g : tok := %d.\n" % tok(H[0]["id"]) +
            "Definition dl := c_deliver kinds_tbl %d %d decodes_tbl signed_list.\n" % (tok("kind:Init"), tok("kind:AddDevice")) +
            "Definition dt := c_deliver_in_trx kinds_tbl %d %d decodes_tbl signed_list false.\n" % (tok("kind:Init"), tok("kind:AddDevice")) +
            "Definition da := deliver_all kinds_tbl %d %d decodes_tbl signed_list.\n" % (tok("kind:Init"), tok("kind:AddDevice")) +
            "Definition cases : list (nat * bool * (tok * N) * wcmd * N) := [%s].\n" % ";\n ".join(cases) +
            "Definition chk (c : nat * bool * (tok * N) * wcmd * N) : bool :=\n"
            "  let '(k, batch, head, m, cls) := c in\n"
            "  let '(rk, ok) := da g (fresh) (firstn k honest) in\n"
            "  ok && (class_of (snd (if batch then dt head rk m else dl g rk m)) =? cls)%N.\n"
            "Eval vm_compute in (distinct_by sig_of signed_list && distinct_by id_of signed_list && snd (da g fresh honest), mismatches chk cases).\n")
    header = "From Aranya Require Import base.Tactics base.Harness gen.GenEnvelope model.Envelope model.EnvelopeCheck proofs.EnvelopeProofs.\nOpen Scope N_scope.\n"
    wl = sorted(worlds.items())
    outs, chunks = vlib.coq_eval_sharded(ctx, "c35", header, wl, lambda ch: render_world(*ch[0]), shard=1)
    mism = []
    for (rc, o), ch in zip(outs, chunks):
        m = re.search(r"=\s*\((true|false),\s*(\[[^\]]*\])\)", o) if rc == 0 else None
        if not m:
            ctx.oblige("correspondence:model-eval", False, o[-3000:])
            return
        seed, w = ch[0]
        if m.group(1) != "true":
            mism.append((seed, "honest chain not accepted by the model / signatures or ids not unique"))
        for j in vlib.parse_term(m.group(2)):
            spec, k, batch, d, cls = w["cases"][j]
            mism.append((seed, spec, d["res"]))

    ctx.coverage.update({
        "traces_validated_against_impl": stats["mutations"],
        "evaluations": stats["mutations"],
        "distinct_nontrivial": len({(s, c[0]) for s, w in worlds.items() for c in w["cases"] if c[4] != 0}),
        "rule": "case = (world seed, honest command k of 5 by two authors, one mutation of a wire field: data byte, author, kind, payload, "
                "signature, id, parent id/max_cut, priority, policy; own or shared transaction) delivered to a fresh replica holding H[..k]; "
                "non-trivial = the delivery was not accepted; distinct by (seed, mutation)",
        "distribution": dict(stats, worlds=len(worlds), fields=fields_hit, result_classes=classes),
        "samples": [{"seed": s, "spec": c[0], "impl": c[3]["res"]} for s, w in list(worlds.items())[:1] for c in w["cases"][:4]],
    })
    ctx.assumptions += [
        "C34 (cmd_sig_binds): verification succeeds only for the exact signed tuple; a signature or an id belongs to one tuple (idealised Ed25519 + collision-free id hash)",
        "the policy's open block is the signature-verifying one of harness/hx-vmpolicy/src/c35_policy.md (key looked up by envelope author id, crypto::verify over payload, parent id, claimed id, signature)",
        "the `policy` wire field of a non-init command is ignored by the runtime and not covered by the signature (accepted unchanged semantics; counted, not a violation of the statement)",
    ]
    for (seed, spec, why, m) in oracle_fail[:3]:
        ctx.violation("replica authenticity: %s (seed %d, mutation %s)" % (why, seed, spec),
                      {"seed": seed, "mutation": spec, "impl": m, "why": why,
                       "contradicts": "replica_accepts_authentic_only (coq/props/C35.v)",
                       "replay_cmd": "echo '%d %s' | build/target/debug/c35 | tr '|' '\\n'" % (seed, spec)})
    ctx.oblige("harness:well-formed-output", not bad, str(bad[:3]))
    ctx.oblige("correspondence:model=impl", not mism, "model and implementation outcome classes differ: %s" % mism[:6])
    ctx.oblige("oracle:authentic-only", not oracle_fail, str([(a, b, c) for a, b, c, _ in oracle_fail[:4]]))
