"""Shared machinery of the braid checks C02 / C03 / C05.

* a generator of command DAGs (branching, nested merges, finalize commands,
  priority ties, adversarial id orders, comparable/duplicate merge parents) and of
  delivery histories (several segment layouts per graph);
* the runner for harness/hx-braid (real ClientState on the memory and libc backends);
* an independent Python implementation of the reference braid (reverse Kahn with
  minimum (priority, id) key) and of the fact states under the sequence policy;
* the rendering of the cases for the Coq model (`braid_L1`, `braid_state`), compared
  inside Coq by vm_compute.
"""
import heapq
import os
import sys

sys.path.insert(0, os.path.join(os.path.dirname(os.path.abspath(__file__)), "..", "lib"))
import vlib

RANK = {"m": 0, "b": 1, "f": 2, "i": 3}


class Graph:
    """cmds: id -> (prio, parents tuple, data); order: creation order (parents first)."""

    def __init__(self):
        self.cmds = {}
        self.order = []
        self._mc = {}
        self._anc = {}

    def add(self, i, prio, par, data="a"):
        self.cmds[i] = (prio, tuple(par), data)
        self.order.append(i)

    def prio(self, i):
        return self.cmds[i][0]

    def par(self, i):
        return self.cmds[i][1]

    def data(self, i):
        return self.cmds[i][2]

    def is_merge(self, i):
        return len(self.cmds[i][1]) == 2

    def key(self, i):
        p = self.cmds[i][0]
        return (RANK[p[0]], p[1] if p[0] == "b" else 0, i)

    def mc(self, i):
        if i not in self._mc:
            for x in self.order:          # creation order: parents first
                if x not in self._mc:
                    ps = self.cmds[x][1]
                    self._mc[x] = 0 if not ps else 1 + max(self._mc[p] for p in ps)
        return self._mc[i]

    def ancs(self, i):
        """ancestor-or-equal set (memoised, iterative)."""
        if i not in self._anc:
            for x in self.order:
                if x not in self._anc:
                    s = {x}
                    for p in self.cmds[x][1]:
                        s |= self._anc[p]
                    self._anc[x] = frozenset(s)
        return self._anc[i]

    def closure(self, hs):
        s = set()
        for h in hs:
            s |= self.ancs(h)
        return s

    def frontier(self):
        has_child = set()
        for x in self.order:
            has_child.update(self.cmds[x][1])
        return sorted(x for x in self.order if x not in has_child)

    def sub(self, keep):
        g = Graph()
        for x in self.order:
            if x in keep:
                g.add(x, *self.cmds[x])
        return g


# ---------------------------------------------------------------- reference braid (independent oracle)

def braid_spec(g, hs):
    """('ok', base, order) | ('parfin',).  order = application order (after the base)."""
    A = g.closure(hs)
    kids = {x: set() for x in A}
    for c in A:
        for p in set(g.par(c)):
            kids[p].add(c)
    pending = {x: len(kids[x]) for x in A}
    ready = [(g.key(x), x) for x in A if pending[x] == 0]
    heapq.heapify(ready)
    done = []
    while True:
        if sum(1 for (_, x) in ready if g.prio(x)[0] == "f") >= 2:
            return ("parfin",)
        if len(ready) == 1:
            base = ready[0][1]
            return ("ok", base, [x for x in reversed(done) if not g.is_merge(x)])
        if not ready:
            return ("bug",)
        _, s = heapq.heappop(ready)
        done.append(s)
        for p in set(g.par(s)):
            pending[p] -= 1
            if pending[p] == 0:
                heapq.heappush(ready, (g.key(p), p))


def seq_eval(g, x, seq):
    """The harness policy: returns the new seq, or None when rejected."""
    d = g.data(x)
    if d[0] == "q":
        return seq
    if d[0] == "n" and int(d[1:]) in seq:
        return None
    if d[0] == "p" and int(d[1:]) not in seq:
        return None
    return seq + (x,)


class States:
    """seq fact stored at each command, per the reference semantics."""

    def __init__(self, g):
        self.g = g
        self.memo = {}
        self.braids = {}

    def braid(self, hs):
        k = tuple(hs)
        if k not in self.braids:
            self.braids[k] = braid_spec(self.g, hs)
        return self.braids[k]

    def apply(self, order, seq):
        for x in order:
            n = seq_eval(self.g, x, seq)
            if n is not None:
                seq = n
        return seq

    def at(self, c):
        g = self.g
        todo = [c]
        while todo:
            x = todo[-1]
            if x in self.memo:
                todo.pop()
                continue
            ps = g.par(x)
            if len(ps) == 0:
                self.memo[x] = seq_eval(g, x, ()) or ()
                todo.pop()
            elif len(ps) == 1:
                if ps[0] not in self.memo:
                    todo.append(ps[0])
                    continue
                n = seq_eval(g, x, self.memo[ps[0]])
                self.memo[x] = n if n is not None else self.memo[ps[0]]
                todo.pop()
            else:
                r = self.braid(ps)
                if r[0] != "ok":
                    self.memo[x] = None
                    todo.pop()
                    continue
                if r[1] not in self.memo:
                    todo.append(r[1])
                    continue
                self.memo[x] = self.apply(r[2], self.memo[r[1]])
                todo.pop()
        return self.memo[c]

    def braid_state(self, hs):
        r = self.braid(hs)
        if r[0] != "ok":
            return None
        return self.apply(r[2], self.at(r[1]))


def incomparable_finalize_pair(g, hs):
    A = g.closure(hs)
    fins = [x for x in A if g.prio(x)[0] == "f"]
    for i, a in enumerate(fins):
        for b in fins[i + 1:]:
            if a not in g.ancs(b) and b not in g.ancs(a):
                return (a, b)
    return None


# ---------------------------------------------------------------- generator

def gen_graph(r, n, style=None):
    """Returns (graph, failing_merge or None, meta).  The failing merge (a merge command whose
    braid is a ParallelFinalize) is NOT part of the graph; it is delivered last."""
    style = style or r.choice(["rand", "rand", "asc", "desc", "ties", "chainy", "wide", "fin", "fin", "nested", "quiet", "quiet", "quietchain"])
    g = Graph()
    used = set()
    ctr = [0]

    def fresh():
        ctr[0] += 1
        if style == "asc":
            return 1000 + ctr[0] * 3
        if style == "desc":
            return 10 ** 9 - ctr[0] * 7
        while True:
            x = 1 + r.below(1 << r.choice([8, 16, 40, 61]))
            if x not in used:
                return x

    def new_id():
        x = fresh()
        used.add(x)
        return x

    def prio_basic():
        if style == "ties":
            return ("b", 5)
        return ("b", r.choice([0, 0, 1, 1, 2, 3, 7, 4294967295]))

    fin_budget = {"fin": r.range(1, 4)}.get(style, r.choice([0, 0, 0, 1, 2]))
    p_branch = {"chainy": 8, "wide": 45, "nested": 25, "quietchain": 10}.get(style, r.choice([10, 20, 35]))
    p_merge = {"chainy": 10, "wide": 10, "nested": 40, "quietchain": 8}.get(style, r.choice([10, 20, 30]))
    p_quiet = {"quiet": 33, "quietchain": 40}.get(style, 4)
    init = new_id()
    g.add(init, ("i",), ())
    tips = [init]
    failing = None
    meta = {"style": style, "merges": 0, "finalize": 0, "comparable_merges": 0, "dup_merges": 0, "nontip_merges": 0,
            "quiet": 0, "cond": 0}
    st = States(g)
    while len(g.order) < n:
        roll = r.below(100)
        if roll < p_merge and len(g.order) >= 3:
            kind = r.below(100)
            if kind < 6:
                t = r.choice(tips)
                l, rr = t, t
                meta_k = "dup_merges"
            elif kind < 18:
                t = r.choice(g.order)
                cands = [a for a in g.ancs(t) if a != t]
                if not cands:
                    continue
                l, rr = t, r.choice(sorted(cands))
                meta_k = "comparable_merges"
            elif kind < 30 or len(tips) < 2:
                l, rr = r.choice(g.order), r.choice(g.order)
                if l == rr:
                    continue
                meta_k = "nontip_merges"
            else:
                l, rr = r.choice(tips), r.choice(tips)
                if l == rr:
                    continue
                meta_k = None
            if r.chance(1, 2):
                l, rr = rr, l
            st.braids.clear()
            res = braid_spec(g, (l, rr))
            mid = new_id() if r.chance(1, 2) else (1 << 62) + new_id()
            if res[0] == "parfin":
                if r.chance(1, 2):
                    failing = (mid, ("m",), (l, rr), "a")
                    break
                continue
            g.add(mid, ("m",), (l, rr))
            g._anc.pop(mid, None)
            meta["merges"] += 1
            if meta_k:
                meta[meta_k] += 1
            tips = [t for t in tips if t not in (l, rr)] + [mid]
        else:
            parent = r.choice(g.order) if roll < p_merge + p_branch else r.choice(tips)
            x = new_id()
            if fin_budget > 0 and r.chance(1, 6):
                prio = ("f",)
                fin_budget -= 1
                meta["finalize"] += 1
            else:
                prio = prio_basic()
            data = "a"
            dr = r.below(100)
            if dr < p_quiet:
                data = "q"
                meta["quiet"] += 1
            elif dr < p_quiet + 8 and len(g.order) > 2:
                # conditional: accepted at origin (by construction), possibly rejected in a braid
                seq = st.at(parent)
                other = r.choice(g.order)
                if seq is not None:
                    data = ("p%d" % other) if other in seq else ("n%d" % other)
                    meta["cond"] += 1
            g.add(x, prio, (parent,), data)
            tips = [t for t in tips if t != parent] + [x]
    return g, failing, meta


def gen_history(r, g, failing):
    """A delivery history: random causal order, random batch cuts, random flushes; commit at the end."""
    indeg = {x: 0 for x in g.order}
    kids = {x: [] for x in g.order}
    for x in g.order:
        for p in set(g.par(x)):
            indeg[x] += 1
            kids[p].append(x)
    avail = [x for x in g.order if indeg[x] == 0]
    seq = []
    depth_first = r.chance(1, 2)
    while avail:
        i = len(avail) - 1 if (depth_first and r.chance(3, 4)) else r.below(len(avail))
        x = avail.pop(i)
        seq.append(x)
        for k in kids[x]:
            indeg[k] -= 1
            if indeg[k] == 0:
                avail.append(k)
    ops = []
    i = 0
    pb = r.choice([1, 2, 3, 5, 8, 1000])
    while i < len(seq):
        k = min(len(seq) - i, 1 + r.below(pb))
        ops.append(("add", seq[i:i + k]))
        i += k
        if r.chance(1, 6):
            ops.append(("flush",))
    if failing:
        ops.append(("add", [failing[0]]))
    ops.append(("commit",))
    return ops


def prio_s(p):
    return {"m": "m", "f": "f", "i": "i"}.get(p[0]) or ("b%d" % p[1])


def par_s(ps):
    return "-" if not ps else ("s%d" % ps[0] if len(ps) == 1 else "m%d,%d" % ps)


def render_case(name, backend, g, failing, ops):
    out = ["case %s %s" % (name, backend)]
    for x in g.order:
        out.append("c %d %s %s %s" % (x, prio_s(g.prio(x)), par_s(g.par(x)), g.data(x)))
    if failing:
        out.append("c %d %s %s %s" % (failing[0], prio_s(failing[1]), par_s(failing[2]), failing[3]))
    for op in ops:
        out.append("o add " + ",".join(map(str, op[1])) if op[0] == "add" else "o " + op[0])
    out.append("end")
    return "\n".join(out) + "\n"




def parse_case(text):
    """Inverse of render_case (first case of the text): -> (name, backend, graph, failing, ops)."""
    name = backend = None
    table = []
    ops = []
    for line in text.splitlines():
        f = line.split()
        if not f:
            continue
        if f[0] == "case":
            if name is not None:
                break
            name, backend = f[1], f[2]
        elif f[0] == "c":
            pr = f[2]
            prio = ("b", int(pr[1:])) if pr[0] == "b" else (pr[0],)
            par = () if f[3] == "-" else ((int(f[3][1:]),) if f[3][0] == "s" else tuple(int(x) for x in f[3][1:].split(",")))
            table.append((int(f[1]), prio, par, f[4] if len(f) > 4 else "a"))
        elif f[0] == "o":
            ops.append(("add", [int(x) for x in f[2].split(",") if x]) if f[1] == "add" else (f[1],))
        elif f[0] == "end":
            break
    g = Graph()
    failing = None
    # a trailing merge that is delivered last and never referenced may be the failing one: decide with the reference
    for (i, prio, par, data) in table:
        if len(par) == 2 and all(p in g.cmds for p in par) and braid_spec(g, par)[0] == "parfin" and failing is None:
            failing = (i, prio, par, data)
            continue
        g.add(i, prio, par, data)
    return name, backend, g, failing, ops

# ---------------------------------------------------------------- running the implementation

def parse_ids(s):
    return [int(x) for x in s.split(".") if x] if s not in ("", "-") else []


def parse_output(out):
    """-> dict case name -> list of op results {res, log, spill, heads, seq}"""
    cases = {}
    cur = None
    for line in out.splitlines():
        if line.startswith("case "):
            cur = line.split()[1]
            cases[cur] = []
            continue
        f = line.split("|")
        d = {"res": f[0], "log": [], "spill": (0, 0, 0, 0), "heads": None, "seq": None, "raw": line}
        for x in f[1:]:
            if x.startswith("L="):
                d["log"] = [e for e in x[2:].split(",") if e]
            elif x.startswith("S="):
                d["spill"] = tuple(int(v) for v in x[2:].split(":"))
            elif x.startswith("h="):
                d["heads"] = parse_ids(x[2:])
            elif x.startswith("seq="):
                d["seq"] = x[4:] if x[4:].startswith("err") else parse_ids(x[4:])
        cases[cur].append(d)
    return cases


def log_groups(log):
    """Split an op's log into begin..end groups: ('single', id, ok) | ('braid', base_state|None, order, ok)."""
    groups = []
    cur = None
    extra = []
    for e in log:
        if e == "b":
            cur = []
        elif e in ("k", "r"):
            if cur is None:
                extra.append(e)
                continue
            o = [x for x in cur if x[0] == "O"]
            if o:
                groups.append(("single", int(o[0][1:]), e == "k"))
            else:
                base = None
                order = []
                for x in cur:
                    if x[0] == "^":
                        base = parse_ids(x[1:])
                    elif x[0] == "B":
                        order.append(int(x[1:]))
                    else:
                        extra.append(x)
                groups.append(("braid", base, order, e == "k"))
            cur = None
        elif cur is not None:
            cur.append(e)
        else:
            extra.append(e)
    return groups, extra


def observe(g, failing, ops, results):
    """Match the implementation's log against the history.
    Returns (braids, final, problems): braids = list of dicts {heads, verdict, base_state, order, where};
    final = dict(res, heads, seq, before_heads, before_seq)."""
    problems = []
    braids = []
    added = set()
    allc = dict(g.cmds)
    if failing:
        allc[failing[0]] = (failing[1], failing[2], failing[3])
    final = None
    if len(results) != len(ops):
        return [], None, ["harness printed %d lines for %d ops" % (len(results), len(ops))]
    for op, res in zip(ops, results):
        groups, extra = log_groups(res["log"])
        if extra:
            problems.append("unexpected log entries %r" % extra[:5])
        if res["res"].startswith("panic") or "panic" in res["raw"]:
            problems.append("panic: " + res["raw"][:200])
        if op[0] == "add":
            gi = 0
            for x in op[1]:
                if x in added:
                    continue
                ps = allc[x][1]
                if len(ps) == 2:
                    if gi < len(groups) and groups[gi][0] == "braid":
                        _, base, order, ok = groups[gi]
                        gi += 1
                        braids.append({"heads": ps, "verdict": "ok" if ok else "abort", "base_state": base, "order": order, "where": x})
                        added.add(x)
                    else:
                        # no braid group: the braid itself failed (ParallelFinalize) or another error
                        verdict = res["res"][4:] if res["res"].startswith("err:") else "missing"
                        braids.append({"heads": ps, "verdict": verdict, "base_state": None, "order": [], "where": x})
                        break
                else:
                    if gi < len(groups) and groups[gi][0] == "single" and groups[gi][1] == x:
                        if groups[gi][2]:
                            added.add(x)
                        gi += 1
                    else:
                        problems.append("command %d: no origin evaluation logged (%s)" % (x, res["res"]))
                        break
            if gi != len(groups):
                problems.append("unmatched log groups in %r" % (res["raw"][:200],))
        elif op[0] == "commit":
            bg = [x for x in groups if x[0] == "braid"]
            final = {"res": res["res"], "heads": res["heads"], "seq": res["seq"], "braid": bg[0] if bg else None,
                     "spill": res["spill"]}
        if op[0] != "commit":
            last_heads, last_seq = res["heads"], res["seq"]
    if final is not None:
        final["before_heads"], final["before_seq"] = last_heads, last_seq
    return braids, final, problems


def run_impl(ctx, binp, text, timeout=3000):
    tmp = os.path.join(vlib.BUILD, "tmp-hx-braid-%s" % ctx.pid)
    rc, out, err = vlib.run_bin(binp, input=text, timeout=timeout, env={"HX_TMP": tmp})
    return rc, out, err


# ---------------------------------------------------------------- the Coq side

COQ_HEADER = """(* the model is evaluated through braid_fast, proved equal to braid_L1 (braid_fast_eq, props/C03.v) *)
From Aranya Require Import base.Tactics base.Harness model.Dag model.Braid.
Open Scope N_scope.
Definition mk (i pr pn : N) (par : prior) (b : N) : cmd :=
  {| cid := i; cprio := match pr with 0 => PMerge | 1 => PBasic pn | 2 => PFinalize | _ => PInit end; cpar := par; cbody := b |}.
(* the harness policy: body 0 = append own id, 1 = quiet, 2+2k = reject if k in seq, 3+2k = reject if k not in seq *)
Definition sev (c : cmd) (f : list N) : outcome (list N) :=
  let b := cbody c in
  if b =? 0 then OAccept (f ++ [cid c]) else if b =? 1 then OAccept f else
  let k := (b - 2) / 2 in
  if N.even b then (if mem k f then OReject else OAccept (f ++ [cid c]))
  else (if mem k f then OAccept (f ++ [cid c]) else OReject).
Definition bres_eqb (a b : bres) : bool :=
  match a, b with
  | BOk x o, BOk y p => N.eqb x y && lN_eqb o p
  | BParFin, BParFin => true
  | BBug, BBug => true
  | _, _ => false
  end.
(* expected: (verdict 0 = ok / 1 = ParallelFinalize, optional base, order) *)
Definition q_ok (g : graph) (q : list N * (N * option N * list N)) : bool :=
  let '(hs, (v, ob, ord)) := q in
  match braid_fast g hs with
  | BOk b o => N.eqb v 0 && lN_eqb o ord && match ob with Some b' => N.eqb b b' | None => true end
  | BParFin => N.eqb v 1
  | BBug => false
  end.
Definition st_ok (g : graph) (e : option (list N * option (list N))) : bool :=
  match e with
  | None => true
  | Some (hs, exp) => option_eqb lN_eqb (braid_state_with (list N) sev [] braid_fast g hs) exp
  end.
Definition chk (c : graph * list (list N * (N * option N * list N)) * option (list N * option (list N))) : bool :=
  let '(g, qs, e) := c in wf_graphb g && forallb (q_ok g) qs && st_ok g e.
"""


def body_code(d):
    if d[0] == "a":
        return 0
    if d[0] == "q":
        return 1
    k = int(d[1:])
    return 2 + 2 * k + (0 if d[0] == "n" else 1)


def coq_graph(g):
    items = []
    for x in reversed(g.order):       # newest first
        p = g.prio(x)
        ps = g.par(x)
        par = "PNone" if not ps else ("(PSingle %d)" % ps[0] if len(ps) == 1 else "(PMerge2 %d %d)" % ps)
        items.append("mk %d %d %d %s %d" % (x, RANK[p[0]], p[1] if p[0] == "b" else 0, par, body_code(g.data(x))))
    return "[" + "; ".join(items) + "]"


def coq_opt(x, f=str):
    return "None" if x is None else "(Some %s)" % f(x)


def coq_case(g, queries, state):
    """queries: list of (heads, verdict 0/1, base or None, order); state: None | (heads, seq or None)"""
    qs = vlib.coq_list(["(%s, (%d, %s, %s))" % (vlib.coq_list(hs), v, coq_opt(b), vlib.coq_list(o)) for (hs, v, b, o) in queries])
    st = "None" if state is None else "(Some (%s, %s))" % (vlib.coq_list(state[0]), coq_opt(state[1], vlib.coq_list))
    return "(%s, %s, %s)" % (coq_graph(g), qs, st)


def coq_compare(ctx, name, items, shard=40, timeout=3000, budget=90000):
    """items: list of coq_case strings. Returns list of mismatching indices or None on failure.
    Items are grouped into shards by total size (at most `shard` items and `budget` characters each)."""
    groups = []
    cur, cur_len = [], 0
    for idx, it in enumerate(items):
        if cur and (len(cur) >= shard or cur_len + len(it) > budget):
            groups.append(cur)
            cur, cur_len = [], 0
        cur.append(idx)
        cur_len += len(it)
    if cur:
        groups.append(cur)

    def render(chunk):
        grp = chunk[0]
        return ("Definition cases : list (graph * list (list N * (N * option N * list N)) * option (list N * option (list N))) := %s.\n"
                "Eval vm_compute in (mismatches chk cases).\n" % vlib.coq_list([items[i] for i in grp]))
    outs, chunks = vlib.coq_eval_sharded(ctx, name, COQ_HEADER, groups, render, shard=1, timeout=timeout)
    mism = []
    for (rc, o), ch in zip(outs, chunks):
        v = vlib.parse_coq_value(o) if rc == 0 else None
        if v is None:
            ctx.oblige("correspondence:model-eval", False, o[-2000:])
            return None
        if ch:
            mism += [ch[0][j] for j in v]
    return mism


# ---------------------------------------------------------------- corpus: the graphs pinned by the repository's own tests

def corpus_graphs():
    """transaction.rs tests (test_simple, test_complex, test_mid_braid_1/2, test_sequential_finalize,
    test_parallel_finalize) rebuilt with numeric ids; priority = Basic(id) like SeqPolicy's last-byte rule."""
    out = []

    def build(spec, name):
        g = Graph()
        for (i, prio, par) in spec:
            g.add(i, prio, par)
        out.append((name, g))

    b = lambda n: ("b", n)
    # test_simple: a; a<b; a<c; b c<ma; b<d; ma d<mb      expected a:b:d:c
    build([(1, ("i",), ()), (2, b(2), (1,)), (3, b(3), (1,)), (100, ("m",), (2, 3)), (4, b(4), (2,)), (101, ("m",), (100, 4))], "simple")
    # test_mid_braid_1: a<b c d e f g; d<h i j
    build([(1, ("i",), ())] + [(k, b(k), (k - 1,)) for k in range(2, 8)] + [(8, b(8), (4,)), (9, b(9), (8,)), (10, b(10), (9,))], "mid_braid_1")
    # test_sequential_finalize
    build([(1, ("i",), ())] + [(k, b(k), (k - 1,)) for k in range(2, 8)] + [(8, b(8), (4,)), (9, b(9), (8,)), (10, b(10), (9,)),
          (20, ("f",), (5,)), (21, b(21), (20,)), (22, b(22), (21,)), (23, ("f",), (22,))], "sequential_finalize")
    # test_parallel_finalize
    build([(1, ("i",), ())] + [(k, b(k), (k - 1,)) for k in range(2, 8)] + [(8, b(8), (4,)), (9, b(9), (8,)), (10, b(10), (9,)),
          (20, ("f",), (5,)), (21, ("f",), (9,))], "parallel_finalize")
    # F7: init -> a -> b, M = merge(a, b), c child of M   (and the duplicate-parent variant)
    build([(1, ("i",), ()), (2, b(2), (1,)), (3, b(3), (2,)), (100, ("m",), (2, 3)), (4, b(4), (100,))], "f7_comparable")
    build([(1, ("i",), ()), (2, b(2), (1,)), (3, b(3), (2,)), (100, ("m",), (3, 3)), (4, b(4), (100,)), (101, ("m",), (2, 3)), (5, b(1), (101,))], "f7_duplicate")
    # a head that is an ancestor of another head but not their LCA
    build([(1, ("i",), ()), (5, b(5), (1,)), (6, b(0), (5,)), (7, b(7), (1,)), (100, ("m",), (6, 7)), (101, ("m",), (5, 100)), (8, b(8), (101,))], "f7_deep")
    return out



def quiet_base_graph(r):
    """A braid whose BASE (the lone strand) is a fact-less command in the MIDDLE of a segment whose later
    commands write facts:  T -> q1..qk (quiet, large keys) -> w1..wj (writers, small keys), and a side branch
    T -> y1..yl (middle keys).  Heads {wj, yl}: the writers are popped first, then the side branch, and the
    last quiet command qk remains alone = base.  History 1 delivers q1..qk,w1..wj as ONE segment that starts
    at q1; history 2 splits that segment right after the base.  Optionally a merge command of the two heads
    with a child on top, so that the same braid also runs in add_merge."""
    g = Graph()
    nid = [r.range(2, 50)]

    def new():
        nid[0] += 1 + r.below(5)
        return nid[0]
    init = new()
    g.add(init, ("i",), ())
    T = init
    prefix = []
    for _ in range(r.choice([0, 0, 1, 2])):
        x = new()
        g.add(x, ("b", r.below(3)), (T,), r.choice(["a", "a", "q"]))
        prefix.append(x)
        T = x
    ys = []
    p = T
    for _ in range(r.range(1, 3)):
        x = new()
        g.add(x, ("b", 5), (p,), r.choice(["a", "a", "q"]))
        ys.append(x)
        p = x
    qs = []
    p = T
    for _ in range(r.range(1, 3)):
        x = new()
        g.add(x, ("b", 9), (p,), "q")
        qs.append(x)
        p = x
    ws = []
    for _ in range(r.range(1, 3)):
        x = new()
        g.add(x, ("b", 1), (p,), r.choice(["a", "a", "a", "q"]) if ws else "a")
        ws.append(x)
        p = x
    tail = []
    if r.chance(1, 2):
        m = (1 << 62) + new()
        heads = (ws[-1], ys[-1]) if r.chance(1, 2) else (ys[-1], ws[-1])
        g.add(m, ("m",), heads)
        c = new()
        g.add(c, ("b", 2), (m,), "a")
        tail = [m, c]
    pre = [("add", [init])] + ([("add", prefix)] if prefix else []) + [("add", ys)]
    post = ([("add", tail)] if tail else []) + [("commit",)]
    h_one = pre + [("add", qs + ws)] + post                               # one segment q1..wj
    h_split = pre + [("add", qs), ("flush",), ("add", ws)] + post          # split right after the base
    h_each = pre + [("add", [x]) for x in qs + ws] + post                  # one add per command (same segment: phead chain)
    return g, [h_one, h_split, h_each]


def comb_graph(r, N, early_stop=False, with_merge=False):
    """A chain c1..cN with a side head s_i on every chain command: N convergence points (count 2) with
    strictly descending max_cut, all pending at once when the heads {s_1..s_N, c_N} are committed
    (N > 256 spills the convergence map).  Layout 1 delivers the chain as one segment, layout 2 interleaves
    (segments [c_i, s_i]) so that the same-segment check of the braid cannot hide a lost convergence entry.
    early_stop: side heads have the least keys, so the braid stops with the chain head alone and leaves its
    spilled blocks behind; with_merge: afterwards a small merge of two side heads + child is added and
    committed through the SAME RuntimeBuffers (stale convergence storage must not leak into that braid)."""
    g = Graph()
    nid = [100]

    def new():
        nid[0] += 1 + r.below(3)
        return nid[0]
    init = new()
    g.add(init, ("i",), ())
    d = new()
    g.add(d, ("b", 1), (init,))
    cs, ss = [], []
    p = d
    for i in range(N):
        c = new()
        g.add(c, ("b", 9 if early_stop else r.below(3)), (p,), r.choice(["a", "a", "q"]))
        cs.append(c)
        p = c
    for i in range(N):
        x = new()
        g.add(x, ("b", 0 if early_stop else r.below(3)), (cs[i],), r.choice(["a", "a", "q"]))
        ss.append(x)
    tail = []
    top = []
    if early_stop:
        # a head on top of the chain with the largest key: once the side heads are processed it is alone,
        # the braid stops and every convergence entry (one arrival left each) stays behind, spilled blocks included
        t = new()
        g.add(t, ("b", 9), (cs[-1],))
        top = [t]
    if with_merge:
        # small braids all over the max_cut range of the first (spilled) braid
        for k in (2, N // 4, N // 2, (3 * N) // 4, N - 3):
            m = (1 << 62) + new()
            g.add(m, ("m",), (ss[k], ss[k + 1]))
            c = new()
            g.add(c, ("b", 2), (m,))
            tail.append(("add", [m, c]))
        tail.append(("commit",))
    pre = [("add", [init, d])]
    h_chain = pre + [("add", cs + top), ("add", ss), ("commit",)] + tail
    inter = []
    for i in range(N):
        inter += [cs[i], ss[i]]
    h_inter = pre + [("add", inter + top), ("commit",)] + tail
    return g, ([h_inter] if with_merge else [h_inter, h_chain])


def spill_graph(r, K, tail):
    """K hubs under one LCA, each with two child chains that stay heads: K convergence points alive at once
    (> 3*256 spills the convergence map) and a region of > 256 commands (spills the braid result)."""
    g = Graph()
    nid = [10]

    def new():
        nid[0] += 1 + r.below(3)
        return nid[0]
    init = new()
    g.add(init, ("i",), ())
    prev = init
    for _ in range(3):
        x = new()
        g.add(x, ("b", r.below(3)), (prev,))
        prev = x
    for _ in range(K):
        h = new()
        g.add(h, ("b", r.below(4)), (prev,))
        for _ in range(2):
            p = h
            for _ in range(1 + r.below(tail)):
                x = new()
                g.add(x, ("b", r.below(4)), (p,))
                p = x
    return g


# ---------------------------------------------------------------- the check body shared by C02 / C03 / C05

def direct_oracle_c02(g, heads, base_state, order):
    """Exactly-once / ancestors-first / no-merge, evaluated on what the implementation did in one braid."""
    A = g.closure(heads)
    nonmerge = {x for x in A if not g.is_merge(x)}
    if len(set(order)) != len(order):
        return "a command was applied twice in one braid: %r" % [x for x in order if order.count(x) > 1][:3]
    for x in order:
        if x not in g.cmds or g.is_merge(x):
            return "merge or unknown command %d evaluated" % x
        if x not in A:
            return "command %d outside the merged heads' history evaluated" % x
    pos = {x: i for i, x in enumerate(order)}
    for x in order:
        for a in g.ancs(x):
            if a != x and a in pos and pos[a] > pos[x]:
                return "command %d applied before its ancestor %d" % (x, a)
    if base_state is not None:
        appended = set(base_state)
        for x in order:
            if x in appended:
                return "command %d applied on top of a state that already contains it" % x
        for x in nonmerge:
            d = g.data(x)
            if d == "a" and x not in appended and x not in pos:
                return "command %d of the merged history was never applied" % x
    return None


def run_braid_check(ctx, focus):
    r = ctx.rng
    vlib.regen(ctx)
    proved = vlib.prove(ctx)
    binp = vlib.cargo_build(ctx, "hx-braid", bin="c02")
    if not binp:
        return
    thorough = ctx.thorough
    ngraphs = {"C02": 70, "C03": 90, "C05": 110}[focus] * ({"C02": 12, "C03": 8, "C05": 8}[focus] if thorough else 1)
    nmax = 40
    graphs = []          # (name, graph, failing, meta)
    replay_plan = None
    if ctx.replay_in:
        # --replay <file>: re-run exactly the recorded history through the same oracles
        import json
        rp = json.load(open(ctx.replay_in))
        rname, rbackend, rg, rfailing, rops = parse_case(rp.get("case", ""))
        graphs.append((rname or "replay", rg, rfailing, {"style": "replay"}))
        replay_plan = [((rname or "replay"), 0, rbackend or "mem", rops)]
        ngraphs = 0
    else:
        for (name, g) in corpus_graphs():
            graphs.append((name, g, None, {"style": "corpus"}))
    if not replay_plan:
        for i in range({"C02": 8, "C03": 16, "C05": 4}[focus] * (6 if thorough else 1)):
            qg, qhist = quiet_base_graph(r)
            graphs.append(("quietbase%d" % i, qg, None, {"style": "quiet_base_mid_segment", "histories": qhist,
                                                          "quiet": sum(1 for x in qg.order if qg.data(x) == "q")}))
    for i in range(ngraphs):
        n = r.range(4, nmax) if not (thorough and i % 10 == 0) else r.range(100, 400)
        style = None
        if focus == "C05":
            style = r.choice(["fin", "fin", "fin", "rand", "nested"])
        g, failing, meta = gen_graph(r, n, style)
        graphs.append(("g%d" % i, g, failing, meta))
    big = []
    if focus in ("C02", "C03") and not replay_plan:
        if thorough:
            big = [("spill_conv", spill_graph(r, 800, 2)), ("spill_braid", spill_graph(r, 150, 3)), ("spill_both", spill_graph(r, 1000, 1)),
                   ("spill_conv_many_blocks", spill_graph(r, 1700, 1))]
        else:
            big = [("spill_braid", spill_graph(r, 140, 2))]
        if focus == "C02" and not thorough:
            big.append(("spill_conv", spill_graph(r, 780, 1)))
            # F30: more than NUM_BLOCKS+1 spilled blocks whose max_cut ranges overlap (livelock before the fix)
            big.append(("spill_conv_many_blocks", spill_graph(r, 1300, 1)))
    for (name, g) in big:
        graphs.append((name, g, None, {"style": "spill"}))
    combs = []
    if focus in ("C02", "C03") and not replay_plan:
        # cheap spill scenarios that also run in the quick tier (memory backend): many convergence points
        # pending at once with descending max_cut, and reuse of the convergence storage by a later braid
        combs = [("comb300", comb_graph(r, 300)), ("comb600", comb_graph(r, 600)),
                 ("comb_reuse", comb_graph(r, 900, early_stop=True, with_merge=True))]
    for (name, (cg, chist)) in combs:
        graphs.append((name, cg, None, {"style": "spill_comb", "histories": chist, "mem_only": True,
                                        "quiet": sum(1 for x in cg.order if cg.data(x) == "q")}))
    # histories: >= 2 layouts per graph, both backends
    text = []
    plan = []            # (case name, graph index, backend, ops)
    for gi, (name, g, failing, meta) in enumerate(graphs):
        if replay_plan:
            plan = replay_plan
            text = [render_case(replay_plan[0][0], replay_plan[0][2], g, failing, replay_plan[0][3])]
            break
        big_g = len(g.order) > 500
        fixed = meta.get("histories")
        layouts = len(fixed) if fixed else (1 if big_g else (2 if focus != "C03" else 3))
        for li in range(layouts):
            ops = fixed[li] if fixed else gen_history(r, g, failing)
            backends = ("mem", "libc") if (li == 0 or big_g) else (("mem",) if li % 2 else ("libc",))
            if meta.get("mem_only"):
                backends = ("mem",)
            if len(g.order) > 3000 and not thorough:
                backends = ("libc",)
            for backend in backends:
                cname = "%s_%d_%s" % (name, li, backend)
                plan.append((cname, gi, backend, ops))
                text.append(render_case(cname, backend, g, failing, ops))
    # small cases in one process; every big (spill) case in its own process with its own time limit, so that a
    # braid that does not terminate is reported with its input instead of hanging the check
    import subprocess
    small_text = "".join(t for t, pl in zip(text, plan) if len(graphs[pl[1]][1].order) <= 500)
    rc, out, err = run_impl(ctx, binp, small_text, timeout=1500)
    if rc != 0:
        ctx.oblige("harness:run", False, (out[-1000:] + err[-2000:]))
        return
    hung = []
    for t, pl in zip(text, plan):
        if len(graphs[pl[1]][1].order) <= 500:
            continue
        try:
            rc2, out2, err2 = run_impl(ctx, binp, t, timeout=600)
        except subprocess.TimeoutExpired:
            hung.append((pl[0], t))
            continue
        if rc2 != 0:
            ctx.oblige("harness:run", False, (out2[-1000:] + err2[-2000:]))
            return
        out += out2
    if hung:
        for (cname, t) in hung[:3]:
            ctx.violation("the braid of history %s did not terminate within 600 s (commit/merge never returns, so its commands are never applied)" % cname,
                          {"case": t if len(t) < 400000 else t[:400000], "replay_cmd": "build/target/debug/c02 < case.txt",
                           "contradicts": "braid_total / braid_exactly_once (coq/props/C02.v): the braid returns a result for every graph"})
        ctx.oblige("oracle:braid-terminates", False, "histories %r hang" % [h[0] for h in hung])
        plan = [pl for pl in plan if pl[0] not in {h[0] for h in hung}]
    parsed = parse_output(out)
    ctx.log("implementation ran %d histories over %d graphs" % (len(plan), len(graphs)))

    violations = []      # (msg, replay)
    stale = []           # correspondence disagreements (impl vs reference), with details
    coq_items = []
    coq_index = []
    stats = {"quiet_base": 0, "braids": 0, "braids_ge2_strands": 0, "braids_tie_or_nested": 0, "parfin": 0, "spilled_braid": 0, "spilled_conv": 0,
             "nonantichain_braids": 0, "rejected_in_braid": 0, "max_region": 0, "heads_hist": {}, "layout_groups_equal": 0}
    per_graph_obs = {}
    for (cname, gi, backend, ops) in plan:
        name, g, failing, meta = graphs[gi]
        res = parsed.get(cname)
        if res is None:
            ctx.oblige("harness:case-output", False, cname)
            return
        braids, final, problems = observe(g, failing, ops, res)
        replay = {"case": render_case(cname, backend, g, failing, ops), "impl_output": [x["raw"] for x in res],
                  "replay_cmd": "build/target/debug/c02 < case.txt", "contradicts": "coq/props/%s.v" % focus}
        for p in problems:
            if "MERGE-EVALUATED" in p:
                violations.append(("a merge command was evaluated by the policy: " + p, replay))
            else:
                stale.append((cname, p, replay))
        if any("MERGE-EVALUATED" in e for x in res for e in x["log"]):
            violations.append(("a merge command was evaluated by the policy", replay))
        st = States(g)
        allc = g
        queries = []
        obs_key = []
        for b in braids:
            hs = tuple(b["heads"])
            stats["braids"] += 1
            ref = braid_spec(g, hs)
            if b["verdict"] == "ok":
                why = direct_oracle_c02(g, hs, b["base_state"], b["order"])
                if why:
                    violations.append(("merge %d of %r: %s" % (b["where"], hs, why), replay))
                if ref[0] != "ok":
                    pair = incomparable_finalize_pair(g, hs)
                    (violations if pair else stale).append(
                        ("merge %d of %r succeeded but the history contains concurrent finalize commands %r" % (b["where"], hs, pair), replay)
                        if pair else (cname, "reference says %r, impl ok" % (ref,), replay))
                else:
                    exp_base_state = st.at(ref[1])
                    if b["order"] != ref[2] or (b["base_state"] is not None and tuple(b["base_state"]) != exp_base_state):
                        stale.append((cname, "merge %d: impl base_state=%r order=%r, reference base=%d state=%r order=%r" % (
                            b["where"], b["base_state"], b["order"], ref[1], exp_base_state, ref[2]), replay))
                    base_id = None
                    if b["base_state"] is not None and b["base_state"] and g.data(ref[1]) == "a":
                        base_id = b["base_state"][-1]
                    queries.append((list(hs), 0, base_id, b["order"]))
                    if g.data(ref[1]) == "q":
                        stats["quiet_base"] += 1
                    region = len(g.closure(hs) - g.ancs(ref[1])) + 1
                    stats["max_region"] = max(stats["max_region"], region)
                    if len(ref[2]) >= 2:
                        stats["braids_ge2_strands"] += 1
                        ks = [g.key(x)[:2] for x in ref[2]]
                        if len(set(ks)) < len(ks) or any(g.is_merge(x) for x in g.closure(hs) - g.ancs(ref[1])):
                            stats["braids_tie_or_nested"] += 1
                    if hs[0] in g.ancs(hs[1]) or hs[1] in g.ancs(hs[0]):
                        stats["nonantichain_braids"] += 1
            elif b["verdict"] == "ParallelFinalize":
                stats["parfin"] += 1
                pair = incomparable_finalize_pair(g, hs)
                if pair is None:
                    violations.append(("merge of %r failed with ParallelFinalize although all finalize commands are causally ordered" % (hs,), replay))
                if ref[0] != "parfin":
                    stale.append((cname, "impl ParallelFinalize, reference %r" % (ref,), replay))
                queries.append((list(hs), 1, None, []))
            else:
                pair = incomparable_finalize_pair(g, hs) if ref[0] == "parfin" else None
                if pair:
                    violations.append(("merge %d of %r has concurrent finalize commands %r in its history but the result is %s, not ParallelFinalize" % (
                        b["where"], hs, pair, b["verdict"]), replay))
                elif ref[0] == "ok":
                    violations.append(("merge %d of %r (a well-formed history without concurrent finalize commands) failed with %s: its commands are never applied" % (
                        b["where"], hs, b["verdict"]), replay))
                else:
                    stale.append((cname, "merge %d of %r: unexpected result %s" % (b["where"], hs, b["verdict"]), replay))
            obs_key.append((b["where"], b["verdict"], tuple(b["base_state"] or ()), tuple(b["order"])))
        state_q = None
        if final is None:
            stale.append((cname, "no commit result", replay))
        else:
            heads = g.frontier()
            ref = braid_spec(g, heads) if len(heads) > 1 else ("ok", heads[0], [])
            stats["heads_hist"][min(len(heads), 9)] = stats["heads_hist"].get(min(len(heads), 9), 0) + 1
            if final["spill"][0] > 0:
                stats["spilled_braid"] += 1
            if final["spill"][2] > 0:
                stats["spilled_conv"] += 1
            if final["res"].startswith("ok"):
                exp = st.braid_state(heads) if ref[0] == "ok" else None
                seq = final["seq"]
                if ref[0] != "ok":
                    pair = incomparable_finalize_pair(g, heads)
                    if pair:
                        violations.append(("commit of heads %r succeeded although the branches contain concurrent finalize commands %r" % (heads, pair), replay))
                    else:
                        stale.append((cname, "commit ok, reference %r" % (ref,), replay))
                else:
                    # direct property check on the committed fact: exactly once, ancestors first
                    if isinstance(seq, list):
                        dup = [x for x in set(seq) if seq.count(x) > 1]
                        if dup:
                            violations.append(("committed fact state applies command(s) %r more than once: %r" % (dup[:3], seq[:60]), replay))
                        pos = {x: i for i, x in enumerate(seq)}
                        bad = [(x, a) for x in seq if x in g.cmds for a in g.ancs(x) if a in pos and pos[a] > pos[x]]
                        if bad:
                            violations.append(("committed fact state applies %d before its ancestor %d" % bad[0], replay))
                        missing = [x for x in g.closure(heads) if not g.is_merge(x) and g.data(x) == "a" and x not in pos]
                        if missing:
                            violations.append(("committed fact state misses command(s) %r of the committed history" % missing[:3], replay))
                    if final["heads"] != heads:
                        stale.append((cname, "committed heads %r, frontier %r" % (final["heads"], heads), replay))
                    if exp is None or seq != list(exp):
                        stale.append((cname, "committed seq %r, reference %r" % (seq, exp), replay))
                    if len(heads) > 1:
                        bg = final["braid"]
                        o = bg[2] if bg else None
                        if o != ref[2]:
                            stale.append((cname, "commit braid order %r, reference %r" % (o, ref[2]), replay))
                        stats["braids"] += 1
                        if g.data(ref[1]) == "q":
                            stats["quiet_base"] += 1
                        if len(ref[2]) >= 2:
                            stats["braids_ge2_strands"] += 1
                        stats["max_region"] = max(stats["max_region"], len(g.closure(heads) - g.ancs(ref[1])) + 1)
                        queries.append((heads, 0, None, ref[2] if o is None else o))
                    if len(g.order) <= 60:
                        state_q = (heads, seq if isinstance(seq, list) else None)
                obs_key.append(("commit", "ok", tuple(seq) if isinstance(seq, list) else seq))
            elif final["res"] == "err:ParallelFinalize":
                stats["parfin"] += 1
                pair = incomparable_finalize_pair(g, heads)
                if pair is None:
                    violations.append(("commit failed with ParallelFinalize although all finalize commands are causally ordered", replay))
                if ref[0] != "parfin":
                    stale.append((cname, "commit ParallelFinalize, reference %r" % (ref,), replay))
                if final["heads"] != final["before_heads"] or final["seq"] != final["before_seq"]:
                    violations.append(("a failed commit changed the committed heads / fact state: %r/%r -> %r/%r" % (
                        final["before_heads"], final["before_seq"], final["heads"], final["seq"]), replay))
                queries.append((heads, 1, None, []))
                obs_key.append(("commit", "parfin"))
            else:
                pair = incomparable_finalize_pair(g, heads) if ref[0] == "parfin" else None
                if pair:
                    violations.append(("commit of heads %r whose branches contain concurrent finalize commands %r returned %s, not ParallelFinalize" % (
                        heads, pair, final["res"]), replay))
                elif ref[0] == "ok":
                    violations.append(("commit of heads %r (a well-formed history without concurrent finalize commands) failed with %s: its commands are never applied" % (
                        heads[:8], final["res"]), replay))
                else:
                    stale.append((cname, "commit: unexpected result %s" % final["res"], replay))
        per_graph_obs.setdefault(gi, []).append((cname, sorted(obs_key, key=repr)))
        coq_items.append(coq_case(g, sorted(queries, key=lambda q: (q[0], q[1], q[3])), state_q))
        coq_index.append(cname)
    # the same graph under different layouts/backends must give identical observations
    layout_bad = []
    for gi, obs in per_graph_obs.items():
        if all(o[1] == obs[0][1] for o in obs):
            stats["layout_groups_equal"] += 1
        else:
            layout_bad.append([o[0] for o in obs])
    # model side
    small = [(i, it) for i, it in enumerate(coq_items) if len(graphs[plan[i][1]][1].order) <= 500]
    bigs = [(i, it) for i, it in enumerate(coq_items) if len(graphs[plan[i][1]][1].order) > 500]
    # identical graph+queries under several layouts: evaluate distinct items once
    uniq = {}
    for i, it in small + bigs:
        uniq.setdefault(it, []).append(i)
    items = list(uniq.keys())
    small_items = [it for it in items if len(it) < 60000]
    big_items = [it for it in items if len(it) >= 60000]
    if not thorough:
        # quick tier: the model is evaluated on the spill graphs up to ~2500 commands; the largest one
        # (many spilled blocks) is compared with the Python reference only (thorough evaluates it in Coq too)
        big_items = [it for it in big_items if len(it) < 100000]
    mism = coq_compare(ctx, focus.lower() + "s", small_items, shard=25)
    mism_b = coq_compare(ctx, focus.lower() + "b", big_items, shard=1, timeout=3000) if big_items else []
    if mism is None or mism_b is None:
        return
    mism_names = [coq_index[uniq[small_items[j]][0]] for j in mism] + [coq_index[uniq[big_items[j]][0]] for j in mism_b]
    nontrivial = stats["braids_tie_or_nested"]
    ctx.coverage.update({
        "traces_validated_against_impl": len(plan),
        "evaluations": stats["braids"],
        "distinct_nontrivial": nontrivial,
        "rule": "one trace = one delivery history (causal order, batch cuts, flushes, backend) of one generated DAG, ended by a commit; "
                "evaluations = braids executed by the real code (one per merge command + one per multi-head commit) and compared; "
                "non-trivial = the braid region has >= 2 applied commands and a (priority) tie or a nested merge inside the region",
        "distribution": {
            "graphs": len(graphs), "histories": len(plan), "model_evaluations_distinct": len(items),
            "styles": {s: sum(1 for x in graphs if x[3].get("style") == s) for s in sorted({x[3].get("style") for x in graphs})},
            "commands_per_graph_max": max(len(x[1].order) for x in graphs),
            "merge_commands": sum(x[3].get("merges", 0) for x in graphs),
            "merges_with_comparable_parents": sum(x[3].get("comparable_merges", 0) for x in graphs),
            "merges_with_duplicate_parent": sum(x[3].get("dup_merges", 0) for x in graphs),
            "merges_of_non_tips": sum(x[3].get("nontip_merges", 0) for x in graphs),
            "finalize_commands": sum(x[3].get("finalize", 0) for x in graphs),
            "graphs_with_failing_merge": sum(1 for x in graphs if x[2]),
            "conditional_commands": sum(x[3].get("cond", 0) for x in graphs),
            "quiet_commands": sum(x[3].get("quiet", 0) for x in graphs),
            "commit_head_count_histogram": stats["heads_hist"],
            "braids": stats["braids"], "braids_with_ge2_applied": stats["braids_ge2_strands"],
            "braids_with_tie_or_nested_merge": stats["braids_tie_or_nested"],
            "braids_of_comparable_heads": stats["nonantichain_braids"],
            "braids_whose_base_is_a_factless_command": stats["quiet_base"],
            "quiet_base_mid_segment_patterns": sum(1 for x in graphs if x[3].get("style") == "quiet_base_mid_segment"),
            "parallel_finalize_verdicts": stats["parfin"],
            "max_region_size": stats["max_region"],
            "histories_that_spilled_braid_result": stats["spilled_braid"],
            "histories_that_spilled_convergence_map": stats["spilled_conv"],
            "graphs_identical_under_all_layouts": stats["layout_groups_equal"],
        },
        "samples": [{"case": plan[i][0], "ops": [list(o) if o[0] != "add" else ["add", o[1][:8]] for o in plan[i][3]][:6],
                     "impl": [x["raw"][:160] for x in parsed[plan[i][0]]][-2:]} for i in range(min(3, len(plan)))],
    })
    ctx.assumptions += ["policy evaluation is a function of (command, fact state) (Section variable eval)",
                        "a policy does not write before rejecting in braid placement (C30)"]
    if focus == "C03":
        # for C03 the property IS "implementation = reference": a disagreement with the reference on a
        # concrete history is a violation with a failing input
        for (cname, why, replay) in stale:
            violations.append(("the implementation differs from the reference braid on %s: %s" % (cname, why), replay))
    seen_msgs = set()
    uniq_v = []
    for (msg, replay) in violations:
        if msg not in seen_msgs:
            seen_msgs.add(msg)
            uniq_v.append((msg, replay))
    for (msg, replay) in uniq_v[:3]:
        ctx.violation(msg, replay)
    ctx.oblige("oracle:property-on-impl-output", not violations, "; ".join(v[0] for v in violations[:3]))
    ctx.oblige("correspondence:impl=reference(python)", not stale, "; ".join("%s: %s" % (s[0], s[1]) for s in stale[:3]))
    ctx.oblige("correspondence:model(coq)=impl", not mism_names, "model and implementation differ on %r" % mism_names[:5])
    ctx.oblige("correspondence:layout-independent", not layout_bad, "observations differ between layouts: %r" % layout_bad[:3])
    if combs:
        ctx.oblige("coverage:comb-convergence-map-spilled", stats["spilled_conv"] > 0, "the comb scenarios did not drive ConvergenceMap into its spill")
    if big:
        need_conv = any(n.startswith("spill_conv") or n == "spill_both" for (n, _) in big)
        ctx.oblige("coverage:braid-result-spilled", stats["spilled_braid"] > 0, "no history drove BraidResult into its spill")
        if need_conv:
            ctx.oblige("coverage:convergence-map-spilled", stats["spilled_conv"] > 0, "no history drove ConvergenceMap into its spill")
    if (stale or mism_names or layout_bad) and not violations:
        # correspondence broke without a property violation: name the first case as replay (no failing input)
        first = stale[0][2] if stale else {"coq_model_mismatch_cases": mism_names[:5], "layout_dependent_cases": layout_bad[:3]}
        ctx.violation("model/reference no longer corresponds to the implementation: %s" % (
            (stale[0][1] if stale else ("coq model mismatch on %r" % mism_names[:3] if mism_names else "layout-dependent observations %r" % layout_bad[:1]))),
            first, no_input=True)
