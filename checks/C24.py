"""C24 — policies the compiler accepts do not go wrong."""
import os
import sys

sys.path.insert(0, os.path.dirname(os.path.abspath(__file__)))
import vlib
import compiler_common as cc
import compiler_gen as cg

# the errors a well-typed program must never stop with (proofs/CompileMachine.v going_wrong)
GOING_WRONG = {"InvalidType", "UnresolvedTarget", "InvalidAddress", "StackUnderflow", "NotDefined", "AlreadyDefined",
               "InvalidStructMember", "InvalidSchema", "BadState", "CallStack", "InvalidInstruction", "Bug"}
ENVELOPE = ('T', 'Envelope', {})
# single edits after which a policy cannot be well-typed: the compiler has to reject it
MUST_REJECT = {'undefined-variable', 'call-arity', 'undefined-function', 'match-binding-in-alternation', 'struct-missing-field',
               'struct-duplicate-field', 'unknown-field', 'if-non-bool', 'check-non-bool', 'recall-arity', 'debug-assert-in-finish',
               'create-misplaced', 'emit-misplaced', 'let-in-finish', 'recall-misplaced', 'fact-literal-short', 'emit-non-effect'}


def gen_stream(ctx, n, depth):
    """(generator, policy, kind ('fn' | 'policy'), mutation kinds): two thirds function programs, one third command policies"""
    out = []
    while len(out) < n:
        if len(out) % 3 == 2:
            g = cg.CmdGen(ctx.rng.fork(), min(depth, 3))
            pol, kind = g.command_policy(), 'policy'
        else:
            g = cg.Gen(ctx.rng.fork(), depth, ffi=(len(out) % 2 == 0))
            pol, _main = g.policy()
            kind = 'fn'
        if len(cc.policy_text(pol)) > 7000:
            continue
        muts = []
        if ctx.rng.chance(1, 3):
            # one edit from the kinds that always make the policy ill-typed (the places where type checking had holes)
            for _ in range(80):
                m, k = cg.mutate(ctx.rng, pol)
                if k in MUST_REJECT:
                    pol, muts = m, [k]
                    break
        else:
            for _ in range(ctx.rng.choice([0, 1, 1, 2])):
                pol, k = cg.mutate(ctx.rng, pol)
                if k != 'none':
                    muts.append(k)
        out.append((g, pol, kind, tuple(muts)))
    return out


def map_family(rng, n):
    """text policies with a `map` statement in an action (map is not part of model/Lang.v): (text, must_reject, args, facts)"""
    out = []
    for i in range(n):
        v = rng.choice(['p', 'f', 'it', 'row'])
        fact, key, kt, val = rng.choice([('Own', 'who', 'int', 'n'), ('Pet', 'name', 'string', 'age')])
        klit = '3' if kt == 'int' else '"rex"'
        body = rng.choice(['let z = %s.%s' % (v, val), 'check %s.%s > -5 else todo()' % (v, val), 'let z = %s.%s\n        let y = %s' % (v, val, v), ''])
        c = rng.below(9)
        pre, params, args, bad = '', '', '-', False
        if c == 0:
            lit = '%s[%s:?]' % (fact, key)
        elif c == 1:
            lit = '%s[%s:%s]' % (fact, key, klit)
        elif c == 2:
            params, args = 'q %s' % kt, ('I3' if kt == 'int' else 'S' + b'rex'.hex())
            lit = '%s[%s:q]' % (fact, key)
        elif c == 3:
            pre = 'let q = %s\n    ' % klit
            lit = '%s[%s:q]=>{%s:?}' % (fact, key, val)
        elif c == 4:
            lit = '%s[%s:?]=>{%s:1}' % (fact, key, val)
        elif c == 5:      # the loop variable in its own key
            lit, bad = '%s[%s:%s.%s]' % (fact, key, v, key), True
        elif c == 6:      # the loop variable in its own value field
            lit, bad = '%s[%s:?]=>{%s:%s.%s}' % (fact, key, val, v, val), True
        elif c == 7:      # ... shadowing an outer variable of the same name
            pre, bad = 'let %s = %s\n    ' % (v, klit), True
            lit = '%s[%s:%s]' % (fact, key, v)
        else:             # the loop variable used after the map
            lit, bad = '%s[%s:?]' % (fact, key), True
            body = body + '\n    }\n    let after = %s.%s\n    if true {' % (v, val)
        text = ('fact Own[who int]=>{n int}\nfact Pet[name string]=>{age int}\naction a(%s) {\n    %smap %s as %s {\n        %s\n    }\n}\n'
                % (params, pre, lit, v, body))
        facts = "TOwn{who=I3}/TOwn{n=I7};TOwn{who=I4}/TOwn{n=I1};TPet{name=S%s}/TPet{age=I2}" % b'rex'.hex()
        out.append((text, bad, args, facts))
    return out


def run(ctx):
    vlib.regen(ctx)
    vlib.prove(ctx)
    binp = vlib.cargo_build(ctx, "hx-compiler", bin="c24")
    if not binp:
        return
    thorough = ctx.thorough
    n = 1500 if thorough else 120
    depth = 5 if thorough else 3
    inputs_per = 4 if thorough else 3

    stream = gen_stream(ctx, n, depth)
    res, err = cc.run_harness(vlib, binp, [cc.compile_line(p) for (g, p, k, m) in stream])
    if res is None:
        ctx.oblige("harness:run:l1", False, err)
        return
    usable, idx_of, bad_lines = [], [], []
    by_mut = {}
    for i, ((g, p, k, m), l) in enumerate(zip(stream, res)):
        if l.startswith("ok ") or l.startswith("err "):
            usable.append((p, l))
            idx_of.append(i)
            key = "+".join(m) or "unmutated"
            d = by_mut.setdefault(key, {"accepted": 0, "rejected": 0})
            d["accepted" if l.startswith("ok ") else "rejected"] += 1
        else:
            bad_lines.append(l[:200])

    # ---------------- direct oracle: an edit that makes a policy ill-typed must be rejected
    slipped = [(p, m) for ((g, p, k, m), l) in zip(stream, res) if l.startswith("ok ") and len(m) == 1 and m[0] in MUST_REJECT]
    for (p, m) in slipped[:3]:
        ctx.violation("the compiler accepted an ill-typed policy (edit: %s)" % m[0],
                      {"policy": cc.policy_text(p), "mutations": list(m),
                       "contradicts": "accepted_is_safe_full_stmt (coq/proofs/CompileMachine.v): acceptance must imply safety; Typing.v rejects this policy",
                       "replay_cmd": "echo '%s' | build/target/debug/c24" % cc.compile_line(p)})
    ctx.oblige("oracle:L1:ill-typed-edits-rejected", not slipped, "%d accepted" % len(slipped))

    # ---------------- L1: acceptance (and error class) of the real compiler = Typing.v, on the mutant stream
    mism, cerr = cc.coq_mismatches(vlib, ctx, "c24_l1", cc.COQ_HEADER, usable, cc.l1_render, shard=40)
    if mism is None:
        ctx.oblige("correspondence:L1:model-eval", False, cerr)
        return
    too_liberal = [j for j in mism if usable[j][1].startswith("ok ")]
    for j in too_liberal[:3]:
        p, l = usable[j]
        g, _, k, m = stream[idx_of[j]]
        ctx.violation("the compiler accepts a policy that the type rules (Typing.v, the transcription of lower.rs) reject or compile differently",
                      {"policy": cc.policy_text(p), "mutations": list(m),
                       "contradicts": "accepted_is_safe_partial (coq/props/C24.v): acceptance is Typing.check_function_like",
                       "replay_cmd": "echo '%s' | build/target/debug/c24" % cc.compile_line(p)})
    ctx.oblige("correspondence:L1:acceptance-and-error-class", not mism and len(bad_lines) <= len(res) // 20,
               "model and compiler differ on %d case(s), first: %s -> %s; unusable harness lines: %s" % (
                   len(mism), cc.policy_text(usable[mism[0]][0])[:2000] if mism else "", usable[mism[0]][1][:300] if mism else "", bad_lines[:3]))

    # ---------------- L3 (oracle): whatever the real compiler accepts is run; it must not go wrong
    cases = []
    for (g, p, k, m), l in zip(stream, res):
        if not l.startswith("ok "):
            continue
        for _ in range(inputs_per):
            if k == 'fn':
                main = [f for f in p['funs'] if f['name'] == 'main'][0]
                args = [g.value(t) for _, t in main['params']]
                fa = ctx.rng.choice([0, 0, 1, 2, 3]) if p['uses_ffi'] else 0
                cases.append((p, 'fn', args, fa, None, m))
            else:
                cases.append((p, 'policy', [g.this_value(), ENVELOPE], ctx.rng.choice([0, 0, 0, 1, 2, 4]), g.initial_facts(), m))
    lines = [cc.run_line(p, kind, "main" if kind == 'fn' else "C", fa, args, facts) for (p, kind, args, fa, facts, m) in cases]
    res3, err = cc.run_harness(vlib, binp, lines)
    if res3 is None:
        ctx.oblige("harness:run:l3", False, err)
        return
    wrong, exits, fn_runs, pol_runs = [], {}, [], []
    for c, l, line in zip(cases, res3, lines):
        p, kind, args, fa, facts, m = c
        head = l.split("|")[0]
        exits[head[:40]] = exits.get(head[:40], 0) + 1
        if l == "panic":
            wrong.append((c, l, line, "the VM panicked (a Rust panic, not an exit reason)"))
            continue
        if l.startswith("parse-err") or l.startswith("compile-err"):
            continue
        ex, top, depth_, log = cc.run_result(l)
        if ex.startswith("err:") and ex[4:] in GOING_WRONG:
            wrong.append((c, l, line, "the VM stopped with %s, an error type checking is there to exclude" % ex[4:]))
        if kind == 'fn':
            fn_runs.append((p, args, fa, (ex, top, log)))
        else:
            pol_runs.append((p, args[0], fa, facts, (ex, top, log)))
    for (c, l, line, why) in wrong[:3]:
        p, kind, args, fa, facts, m = c
        ctx.violation("an accepted policy went wrong: " + why,
                      {"policy": cc.policy_text(p), "entry": kind, "args": [cc.val_text(x) for x in args], "fail_at": fa,
                       "mutations": list(m), "impl": l[:400],
                       "contradicts": "accepted_is_safe_full_stmt (coq/proofs/CompileMachine.v); proved part: accepted_is_safe_partial (coq/props/C24.v)",
                       "replay_cmd": "echo '%s' | build/target/debug/c24" % line})
    ctx.oblige("oracle:L3:accepted-programs-do-not-go-wrong", not wrong, "%d runs" % len(wrong))
    # the same runs against the reference semantics: an OWrong outcome of Lang.v would show here
    mism3, cerr = cc.coq_mismatches(vlib, ctx, "c24_l3f", cc.COQ_HEADER, fn_runs, cc.l3_fn_render, shard=60)
    if mism3 is None:
        ctx.oblige("correspondence:L3:model-eval", False, cerr)
        return
    mism4, cerr = cc.coq_mismatches(vlib, ctx, "c24_l3p", cc.COQ_HEADER, pol_runs, cc.l3_policy_render, shard=40)
    if mism4 is None:
        ctx.oblige("correspondence:L3:model-eval", False, cerr)
        return
    for i in mism3[:2]:
        p, a, fa, (ex, top, log) = fn_runs[i]
        ctx.violation("a run of an accepted program differs from the reference semantics",
                      {"policy": cc.policy_text(p), "args": [cc.val_text(x) for x in a], "fail_at": fa,
                       "impl": {"exit": ex, "returned": top, "io_log": log}, "contradicts": "Lang.run_function (coq/model/Lang.v)",
                       "replay_cmd": "echo '%s' | build/target/debug/c24" % cc.run_line(p, "fn", "main", fa, a)})
    for i in mism4[:2]:
        p, this, fa, facts, (ex, top, log) = pol_runs[i]
        ctx.violation("a command-policy run of an accepted policy differs from the reference semantics",
                      {"policy": cc.policy_text(p), "this": cc.val_text(this), "fail_at": fa, "initial_facts": [str(f) for f in facts],
                       "impl": {"exit": ex, "io_log": log}, "contradicts": "Lang.run_policy (coq/model/Lang.v)",
                       "replay_cmd": "echo '%s' | build/target/debug/c24" % cc.run_line(p, "policy", "C", fa, [this, ENVELOPE], facts)})
    ctx.oblige("correspondence:L3:impl-run=reference-semantics", not mism3 and not mism4,
               "%d function runs, %d policy runs disagree" % (len(mism3), len(mism4)))

    # ---------------- the match-exhaustiveness family: option / result scrutinees whose sides have different cardinalities
    all_shapes = cg.match_shapes()
    shapes = all_shapes if thorough else [ctx.rng.choice(all_shapes) for _ in range(150)]
    fam = [(sh, cg.match_policy(sh, i % 2 == 0)) for i, sh in enumerate(shapes)]
    resm, err = cc.run_harness(vlib, binp, [cc.compile_line(p) for (sh, p) in fam])
    if resm is None:
        ctx.oblige("harness:run:match-family", False, err)
        return
    fam_usable = [(p, l) for ((sh, p), l) in zip(fam, resm) if l.startswith("ok ") or l.startswith("err ")]
    holes = [(sh, p) for ((sh, p), l) in zip(fam, resm) if l.startswith("ok ") and not sh[2]]
    for (sh, p) in holes[:3]:
        ctx.violation("the compiler accepted a match that does not cover its scrutinee type and has no default arm",
                      {"policy": cc.policy_text(p), "uncovered": "one side of the scrutinee type has fewer literal patterns than values and no binding",
                       "contradicts": "accepted_is_safe_full_stmt (coq/proofs/CompileMachine.v): a value no pattern matches has no rule in Lang.v (OWrong)",
                       "replay_cmd": "echo '%s' | build/target/debug/c24" % cc.compile_line(p)})
    ctx.oblige("oracle:L1:match-family-non-exhaustive-rejected", not holes, "%d accepted" % len(holes))
    mismm, cerr = cc.coq_mismatches(vlib, ctx, "c24_match_l1", cc.COQ_HEADER, fam_usable, cc.l1_render, shard=100)
    if mismm is None:
        ctx.oblige("correspondence:L1:model-eval", False, cerr)
        return
    for j in [j for j in mismm if fam_usable[j][1].startswith("ok ")][:2]:
        ctx.violation("the compiler accepts a match that the type rules (Typing.v) reject or compile differently",
                      {"policy": cc.policy_text(fam_usable[j][0]), "contradicts": "Typing.check_patterns_pre/post, missing_default (coq/model/Typing.v)",
                       "replay_cmd": "echo '%s' | build/target/debug/c24" % cc.compile_line(fam_usable[j][0])})
    ctx.oblige("correspondence:L1:match-family-acceptance", not mismm and len(fam_usable) == len(fam),
               "model and compiler differ on %d matches, first: %s -> %s" % (
                   len(mismm), cc.policy_text(fam_usable[mismm[0]][0])[-400:] if mismm else "", fam_usable[mismm[0]][1][:200] if mismm else ""))
    mcases = [(p, v) for ((sh, p), l) in zip(fam, resm) if l.startswith("ok ") for v in cg.scrutinee_values(sh[0])]
    resv, err = cc.run_harness(vlib, binp, [cc.run_line(p, "fn", "main", 0, [v]) for (p, v) in mcases])
    if resv is None:
        ctx.oblige("harness:run:match-family-l3", False, err)
        return
    mwrong, mruns = [], []
    for (p, v), l in zip(mcases, resv):
        if l == "panic":
            mwrong.append((p, v, l))
            continue
        if l.startswith("parse-err") or l.startswith("compile-err"):
            continue
        ex, top, depth_, log = cc.run_result(l)
        if ex != "normal" or top == "I99":
            mwrong.append((p, v, l))
        mruns.append((p, [v], 0, (ex, top, log)))
    for (p, v, l) in mwrong[:3]:
        ctx.violation("an accepted match went wrong on a value of its scrutinee type (no arm taken, or the VM stopped)",
                      {"policy": cc.policy_text(p), "scrutinee": cc.val_text(v), "impl": l[:300],
                       "contradicts": "accepted_is_safe_full_stmt (coq/proofs/CompileMachine.v)",
                       "replay_cmd": "echo '%s' | build/target/debug/c24" % cc.run_line(p, "fn", "main", 0, [v])})
    ctx.oblige("oracle:L3:match-family-every-value-takes-an-arm", not mwrong, "%d runs" % len(mwrong))
    sample = mruns if len(mruns) <= 1500 else [mruns[i] for i in range(0, len(mruns), len(mruns) // 1500 + 1)]
    mism5, cerr = cc.coq_mismatches(vlib, ctx, "c24_match_l3", cc.COQ_HEADER, sample, cc.l3_fn_render, shard=100)
    if mism5 is None:
        ctx.oblige("correspondence:L3:model-eval", False, cerr)
        return
    ctx.oblige("correspondence:L3:match-family-impl-run=reference-semantics", not mism5, "%d disagreeing runs" % len(mism5))

    # ---------------- `map` statements: the loop variable is in scope in the body only
    maps = map_family(ctx.rng, 600 if thorough else 60)
    resq, err = cc.run_harness(vlib, binp, ["C " + t.encode().hex() for (t, bad, a, f) in maps])
    if resq is None:
        ctx.oblige("harness:run:map-family", False, err)
        return
    map_slipped = [(t, l) for ((t, bad, a, f), l) in zip(maps, resq) if bad and l.startswith("ok ")]
    map_refused = [(t, l) for ((t, bad, a, f), l) in zip(maps, resq) if not bad and not l.startswith("ok ")]
    for (t, l) in map_slipped[:3]:
        ctx.violation("the compiler accepted a `map` whose fact literal (or the code after it) uses the map's own loop variable",
                      {"policy": t, "contradicts": "accepted_is_safe_full_stmt (coq/proofs/CompileMachine.v): the variable is defined by QueryNext, after the literal is evaluated",
                       "replay_cmd": "echo 'C %s' | build/target/debug/c24" % t.encode().hex()})
    ctx.oblige("oracle:L1:map-loop-variable-scope", not map_slipped and not map_refused,
               "%d ill-scoped maps accepted, %d well-formed maps rejected: %s" % (len(map_slipped), len(map_refused), map_refused[:1]))
    mapruns = [(t, a, f) for ((t, bad, a, f), l) in zip(maps, resq) if l.startswith("ok ")]
    resr, err = cc.run_harness(vlib, binp, ["R %s action a 0 %s %s" % (t.encode().hex(), a, f) for (t, a, f) in mapruns])
    if resr is None:
        ctx.oblige("harness:run:map-family-l3", False, err)
        return
    map_wrong = [(t, a, l) for ((t, a, f), l) in zip(mapruns, resr) if l == "panic" or not l.startswith("normal|")]
    for (t, a, l) in map_wrong[:3]:
        ctx.violation("an accepted action with a `map` statement did not run to completion",
                      {"policy": t, "args": a, "impl": l[:300], "contradicts": "accepted_is_safe_full_stmt (coq/proofs/CompileMachine.v)",
                       "replay_cmd": "echo 'R %s action a 0 %s <facts>' | build/target/debug/c24" % (t.encode().hex(), a)})
    ctx.oblige("oracle:L3:accepted-maps-run-to-completion", not map_wrong, "%d runs, first %s" % (len(map_wrong), [x[2][:120] for x in map_wrong[:1]]))

    accepted_mutants = sum(d["accepted"] for k, d in by_mut.items() if k != "unmutated")
    ctx.coverage.update({
        "traces_validated_against_impl": len(usable) + len(fn_runs) + len(pol_runs) + len(fam_usable) + len(mruns),
        "evaluations": len(usable) + len(fn_runs) + len(pol_runs) + len(fam_usable) + len(sample),
        "distinct_nontrivial": len({cc.policy_text(p) for (p, l) in usable if cc.count_nodes([p['funs'], p['cmds']]) > 40}),
        "rule": "case = one policy of the stream (function programs and command policies, 0-2 random type-, scope-, pattern- or context-breaking edits each); compiled by the real compiler and the model (L1); every policy the real compiler accepts is run on several inputs with I/O failures injected (L3); non-trivial = AST larger than 40 nodes; distinct by policy text",
        "distribution": {"programs": len(usable), "acceptance_by_mutation": by_mut, "accepted_mutants_run": accepted_mutants,
                         "runs": len(fn_runs) + len(pol_runs), "exit_reasons": exits, "unusable_harness_lines": len(bad_lines),
                         "nesting_depth": depth,
                         "map_family": {"policies": len(maps), "ill_scoped": sum(1 for m in maps if m[1]), "accepted_and_run": len(mapruns)},
                         "match_family": {"shapes": len(fam), "of": len(all_shapes), "accepted": sum(1 for l in resm if l.startswith("ok ")),
                                          "covered_by_construction": sum(1 for (sh, p) in fam if sh[2]), "runs": len(mruns),
                                          "runs_compared_with_lang": len(sample)}},
        "samples": [{"policy": cc.policy_text(p)[:500], "args": [cc.val_text(x) for x in a], "impl": {"exit": r[0], "top": r[1]}}
                    for (p, a, fa, r) in fn_runs[:3]],
    })
    ctx.assumptions += [
        "the machine-checked part is the safety that follows from the C22 simulation (the compiled code ends safely whenever the reference semantics is defined on the call); type soundness of Typing.v w.r.t. Lang.v is not proved - that accepted programs never reach an undefined case is checked on the generated stream only",
        "going wrong = the VM stops with InvalidType, UnresolvedTarget, InvalidAddress, StackUnderflow, NotDefined, AlreadyDefined, InvalidStructMember, InvalidSchema, BadState, CallStack, InvalidInstruction or Bug, or panics",
    ]
