"""C15 — file-backed graph storage survives crashes.

1. regenerate coq/gen/GenCrash.v from imp.rs and build/audit the proof cone of
   coq/props/C15.v (theorem crash_recovery and its invariants);
2. run real workloads on the libc FileManager (raw Writer API and ClientState)
   with the write-trace hook, and check inside Coq (vm_compute) that the model
   of the write protocol produces the same system-call trace (offsets, lengths,
   bytes, barrier positions, root records including the SipHash checksum);
3. materialise crash images from the recorded traces (prefix x lost/kept/torn
   pending writes), reopen each with the real open path, walk what is reachable,
   and decide with the theorem's allowed outcome set (the oracle below) whether
   the implementation violates the property; the model's `open` is evaluated on
   the same images and compared with the implementation's.
"""
import os
import shutil

import vlib

FREE_START = 12288
SLOTS = (4096, 8192)


# ---------------------------------------------------------------- postcard (python side, for the oracle only)

def take_varint(b, i):
    out = 0
    for k in range(10):
        if i >= len(b):
            return None
        v = b[i]
        i += 1
        out |= (v & 0x7F) << (7 * k)
        if v & 0x80 == 0:
            if k == 9 and v > 1:
                return None
            return out, i
    return None


def take_opt(b, i):
    if i >= len(b):
        return None
    if b[i] == 0:
        return None, i + 1
    if b[i] == 1:
        r = take_varint(b, i + 1)
        return r
    return None


def parse_root(b):
    r = take_varint(b, 0)
    if r is None:
        return None
    gen, i = r
    if i < len(b) and b[i] == 0:
        heads, i = None, i + 1
    else:
        r = take_opt(b, i)
        if r is None:
            return None
        heads, i = r
    if i < len(b) and b[i] == 0:
        fc, i = None, i + 1
    else:
        r = take_opt(b, i)
        if r is None:
            return None
        fc, i = r
    r = take_varint(b, i)
    if r is None:
        return None
    zz, i = r
    free = (zz >> 1) ^ -(zz & 1)
    r = take_varint(b, i)
    if r is None:
        return None
    ck, i = r
    return {"gen": gen, "heads": heads, "fc": fc, "free": free, "ck": ck}


M64 = (1 << 64) - 1


def siphash24(data):
    """SipHash-2-4 with a zero key (python side: only to craft well-formed root records for the malformed stream)"""
    v0, v1, v2, v3 = 0x736f6d6570736575, 0x646f72616e646f6d, 0x6c7967656e657261, 0x7465646279746573

    def rotl(x, b):
        return ((x << b) | (x >> (64 - b))) & M64

    def rnd(v0, v1, v2, v3):
        v0 = (v0 + v1) & M64; v1 = rotl(v1, 13); v1 ^= v0; v0 = rotl(v0, 32)
        v2 = (v2 + v3) & M64; v3 = rotl(v3, 16); v3 ^= v2
        v0 = (v0 + v3) & M64; v3 = rotl(v3, 21); v3 ^= v0
        v2 = (v2 + v1) & M64; v1 = rotl(v1, 17); v1 ^= v2; v2 = rotl(v2, 32)
        return v0, v1, v2, v3
    n = len(data)
    for i in range(0, n - n % 8, 8):
        m = int.from_bytes(data[i:i + 8], "little")
        v3 ^= m
        v0, v1, v2, v3 = rnd(*rnd(v0, v1, v2, v3))
        v0 ^= m
    b = int.from_bytes(data[n - n % 8:], "little") | ((n & 0xff) << 56)
    v3 ^= b
    v0, v1, v2, v3 = rnd(*rnd(v0, v1, v2, v3))
    v0 ^= b
    v2 ^= 0xff
    for _ in range(4):
        v0, v1, v2, v3 = rnd(v0, v1, v2, v3)
    return v0 ^ v1 ^ v2 ^ v3


def varint(n):
    out = bytearray()
    while n >= 128:
        out.append((n & 0x7f) | 0x80)
        n >>= 7
    out.append(n)
    return bytes(out)


def ser_root(gen, heads, fc, free, ck=None):
    inp = gen.to_bytes(8, "little")
    for o in (heads, fc):
        inp += b"\x00" if o is None else b"\x01" + o.to_bytes(8, "little")
    inp += (free & M64).to_bytes(8, "little")
    if ck is None:
        ck = siphash24(inp)
    zz = (free << 1) ^ (free >> 63) if free >= 0 else ((-free) << 1) - 1
    body = varint(gen)
    for o in (heads, fc):
        body += b"\x00" if o is None else b"\x01" + varint(o)
    body += varint(zz & M64) + varint(ck)
    return body


def gen_raw_cases(r, count):
    """The malformed stream for `open`: random garbage, well-formed roots in every slot/generation
    combination, and well-formed roots damaged in every way the decoder distinguishes."""
    cases = []

    def rand_root():
        gen = r.choice([0, 1, 2, 127, 128, 300, 2 ** 32, 2 ** 63, 2 ** 64 - 2, 2 ** 64 - 1, r.below(1000)])
        heads = r.choice([None, 12288, 12300, 2 ** 21, 2 ** 64 - 1, r.below(1 << 24)])
        fc = r.choice([None, 0, 127, 128, 2 ** 64 - 1, r.below(1 << 24)])
        free = r.choice([12288, 12289, 16384, 2 ** 22, 2 ** 62, 2 ** 63 - 1, -1, -(2 ** 63), 0, r.below(1 << 24)])
        return gen, heads, fc, free

    def slot(body, ln=None):
        ln = len(body) if ln is None else ln
        return (ln & 0xffffffff).to_bytes(4, "big") + body

    def damage(body):
        k = r.below(12)
        b = bytearray(body)
        if k == 0 and b:
            i = r.below(len(b)); b[i] ^= 1 << r.below(8); return slot(bytes(b))
        if k == 1:
            return slot(body, len(body) + r.choice([1, 2, 50, 200]))          # trailing bytes are ignored
        if k == 2:
            return slot(body, max(0, len(body) - r.range(1, 3)))              # truncated
        if k == 3:
            return slot(body, r.choice([0, 255, 256, 300, 2 ** 24, 2 ** 31, 2 ** 32 - 1]))   # (a successful 64 KiB read is quadratic in the model evaluator)
        if k == 4:
            return slot(bytes([0x80 | body[0]]) + b"\x00" + body[1:]) if body[0] < 0x80 else slot(body)   # non-canonical varint
        if k == 5:
            return slot(b"\xff" * 9 + b"\x02" + body[1:])                      # varint overflow
        if k == 6:
            return slot(b"\xff" * 10 + b"\x00" + body[1:])                     # varint too long
        if k == 7:
            i = 1 if body[0] < 0x80 else 2
            return slot(body[:i] + b"\x02" + body[i + 1:])                     # bad option tag (when it lands on the tag)
        if k == 8:
            return bytes([r.below(2), 0, 0]) + slot(body)[3:]                  # first prefix byte damaged
        if k == 9:
            return slot(body)[:4] + bytes(r.below(256) for _ in range(len(body)))
        return slot(body)
    for i in range(count):
        k = r.below(8)
        size = r.choice([20000, 12288 + 4194304, 12288, 8192 + 30, 8192 + 3, 4096 + 40, 4100, 4096, 0, 300000]) if r.chance(1, 4) else 4206592
        if k == 0:
            a = bytes(r.below(256) for _ in range(r.below(80)))
            b = bytes(r.below(256) for _ in range(r.below(80)))
        else:
            ra, rb = rand_root(), rand_root()
            if k == 1:
                rb = (ra[0],) + rb[1:]                       # equal generations
            elif k == 2:
                rb = ((ra[0] + 1) & M64,) + rb[1:]
            elif k == 3:
                ra = ((rb[0] + 1) & M64,) + ra[1:]
            a = slot(ser_root(*ra))
            b = slot(ser_root(*rb))
            if k >= 4:
                if r.chance(1, 2):
                    a = damage(ser_root(*ra))
                if r.chance(1, 2):
                    b = damage(ser_root(*rb))
                if r.chance(1, 6):
                    a = b""
                if r.chance(1, 6):
                    b = b""
        cases.append((size, a, b))
    return cases


def fnv(b):
    h = 0xcbf29ce484222325
    for x in b:
        h ^= x
        h = (h * 0x100000001b3) & ((1 << 64) - 1)
    return "%016x" % h


def unhex(s):
    return b"" if s == "-" else bytes.fromhex(s)


# ---------------------------------------------------------------- workloads

def gen_api_workload(r, big=False, thorough=False):
    ops = []
    n = r.range(6, 14) if not thorough else r.range(8, 22)
    fcs = [0, 1, 127, 128, 300, 16383, 16384, 2 ** 21, 2 ** 32, 2 ** 63 - 1, 2 ** 64 - 1]
    commits = 0
    for i in range(n):
        k = r.below(10)
        if k < 5:
            ln = r.choice([0, 1, 2, 5, 17, 100, 127, 128, 129, 300, 511, 512, 513, 1000, 4096])
            ops.append("a%d.%d" % (ln, r.below(1 << 30)))
        elif k < 8 or commits == 0:
            ops.append("c%d.%d" % (r.choice([0, 1, 1, 2, 3]), r.choice(fcs) if r.chance(1, 2) else r.below(1 << 20)))
            commits += 1
        else:
            ops.append("r")
    if big:
        # cross the preallocation boundary inside one epoch: ~4.3 MiB of appends
        pos = r.below(len(ops) + 1)
        bigs = ["a%d.%d" % (r.choice([1100000, 1500000, 2100000]), r.below(256)) for _ in range(3)]
        bigs.insert(r.below(3), "c1.%d" % r.below(1000))
        ops[pos:pos] = bigs
    if not any(o.startswith("c") for o in ops):
        ops.append("c1.7")
    ops.append("a3.1")           # an uncommitted tail
    if r.chance(1, 2):
        ops.append("c1.9")
    return ops


def gen_client_workload(r, thorough=False):
    ops = ["i%d" % r.range(1, 1000)]
    known = 1                    # commands whose address the harness knows
    n = r.range(5, 9) if not thorough else r.range(8, 16)
    for i in range(n):
        k = r.below(10)
        if k < 4:
            ops.append("s%d.%d" % (r.range(1, 6), r.below(100)))
            known += 1
        elif k < 5:
            ops.append("d%d" % r.range(1, 6))
            known += 1
        elif k < 6:
            ops.append("n%d" % r.below(1000))
            known += 1
        elif k < 9:
            parts = []
            for _ in range(r.choice([1, 1, 2])):
                parts.append("x%d.%d.%d.%d" % (r.below(known), r.range(1, 6), r.below(100), r.below(5)))
                known += 1
            ops.append("+".join(parts))
        else:
            ops.append("r")
    ops.append("s1.%d" % r.below(100))
    return ops


class Trace:
    """A recorded write trace, split into records, commits and epochs."""

    def __init__(self, wid, kind, ops, lines):
        self.wid, self.kind, self.ops = wid, kind, ops
        self.ev = []          # dicts
        self.oplog = []
        hdr = lines[0].split()
        self.status = hdr[3]
        self.replay_equals_file = hdr[4].endswith("=1")
        for l in lines[1:]:
            t = l.split()
            if t[0] == "P":
                data = None
                fill = None
                if t[5].startswith("fill:"):
                    fill = int(t[5][5:])
                else:
                    data = unhex(t[5])
                self.ev.append({"k": "P", "file": int(t[1]), "off": int(t[2]), "len": int(t[3]), "hash": int(t[4]), "data": data, "fill": fill})
            elif t[0] in ("D", "S"):
                self.ev.append({"k": t[0], "file": int(t[1])})
            elif t[0] == "F":
                self.ev.append({"k": "F", "file": int(t[1]), "mode": int(t[2]), "off": int(t[3]), "len": int(t[4])})
            elif t[0] == "M":
                self.ev.append({"k": "M", "tag": int(t[1]), "digest": t[2]})
            elif t[0] == "O":
                self.oplog.append(t[1:])
        self.structure()

    def structure(self):
        """records (length prefix + body), commits (root writes + their sync)."""
        ev = self.ev
        self.records = []     # {off, len, first, last (event indexes), payload|None}
        self.commits = []     # {slot, begin, sync, root, body, rec (index of heads record)}
        self.problems = []
        i = 0
        while i < len(ev):
            e = ev[i]
            if e["k"] == "P" and e["len"] == 4 and e["data"] is not None:
                ln = int.from_bytes(e["data"], "big")
                body = None
                last = i
                j = i + 1
                while j < len(ev) and ev[j]["k"] == "M":
                    j += 1
                if ln > 0:
                    if j < len(ev) and ev[j]["k"] == "P" and ev[j]["off"] == e["off"] + 4 and ev[j]["len"] == ln:
                        body = ev[j]
                        last = j
                    else:
                        self.problems.append("length prefix at event %d not followed by its body" % i)
                        i += 1
                        continue
                if e["off"] in SLOTS:
                    sync = None
                    k = last + 1
                    while k < len(ev) and ev[k]["k"] == "M":
                        k += 1
                    if k < len(ev) and ev[k]["k"] in ("D", "S"):
                        sync = k
                    root = parse_root(body["data"]) if body is not None else None
                    ret = None
                    for k2 in range(last + 1, len(ev)):
                        if ev[k2]["k"] == "M":
                            ret = k2
                            break
                    self.commits.append({"slot": e["off"], "begin": i, "last": last, "sync": sync, "ret": ret, "root": root,
                                         "body": body["data"] if body else b"", "nrec": len(self.records)})
                else:
                    self.records.append({"off": e["off"], "len": ln, "first": i, "last": last,
                                         "payload": (body["data"] if body else b"") if (body is None or body["data"] is not None) else None,
                                         "fill": body["fill"] if body else None})
                i = last + 1
            else:
                if e["k"] == "P":
                    self.problems.append("unexpected pwrite at event %d" % i)
                i += 1

    def pending(self, n):
        """indexes of the un-synced P/F events of the prefix of length n"""
        last = 0
        for i in range(n):
            if self.ev[i]["k"] in ("D", "S"):
                last = i + 1
        return [i for i in range(last, n) if self.ev[i]["k"] in ("P", "F")]

    def is_completed(self, c, n):
        """the commit's barrier completed, or commit() returned, inside the prefix of length n"""
        return (c["sync"] is not None and c["sync"] < n) or (c["ret"] is not None and c["ret"] < n)

    def completed(self, n):
        return [c for c in self.commits if self.is_completed(c, n)]

    def started(self, n):
        return [c for c in self.commits if c["begin"] < n and not self.is_completed(c, n)]


# ---------------------------------------------------------------- Coq rendering

def coq_z(v):
    return "(%d)" % v if v < 0 else "%d" % v


def render_ops(tr):
    """The logical workload handed to the model.  api: from the harness' own op log
    (payloads it generated); client: reconstructed from the records of the trace."""
    out = []
    if tr.kind == "api":
        for o in tr.oplog:
            if o[0] == "a":
                ln = int(o[2])
                if o[4].startswith("fill:"):
                    out.append("SA (repeat %d%%N (N.to_nat %d%%N))" % (int(o[4][5:]), ln))
                else:
                    out.append("SA %s" % cb(unhex(o[4])))
            elif o[0] == "c":
                out.append("SC %s %d%%N" % (cb(unhex(o[1])), int(o[2])))
            elif o[0] == "r":
                out.append("SR")
            else:
                out.append("SR")      # an error line: will show as a mismatch
    else:
        # client: every record is an append, except the record right before a root write,
        # which is the head-set record of a commit (fc is read from the root record).
        heads_rec = {c["nrec"] - 1: c for c in tr.commits}
        # a reopen happened where the workload says so (the mark of an `r` op); the identity of the
        # open file in the trace is an address that the allocator may reuse, so it is not used
        reopen_marks = [i for i, e in enumerate(tr.ev) if e["k"] == "M" and e["tag"] < len(tr.ops) and tr.ops[e["tag"]] == "r"]
        last_first = -1
        for idx, rec in enumerate(tr.records):
            if any(last_first < mi < rec["first"] for mi in reopen_marks):
                out.append("SR")
            last_first = rec["first"]
            if idx in heads_rec:
                c = heads_rec[idx]
                fc = c["root"]["fc"] if c["root"] and c["root"]["fc"] is not None else 0
                out.append("SC %s %d%%N" % (cb(rec["payload"]), fc))
            else:
                out.append("SA %s" % cb(rec["payload"]))
    return out


def render_expected(tr):
    out = []
    for e in tr.ev:
        if e["k"] == "P":
            bs = "None" if e["data"] is None else "(Some %s)" % cb(e["data"])
            out.append("(0%%N, %s, %d, %d%%N, %s)" % (coq_z(e["off"]), e["len"], e["hash"], bs))
        elif e["k"] == "D":
            out.append("(1%N, 0, 0, 0%N, None)")
        elif e["k"] == "S":
            out.append("(2%N, 0, 0, 0%N, None)")
        elif e["k"] == "F":
            out.append("(3%%N, %s, %s, %d%%N, None)" % (coq_z(e["off"]), coq_z(e["len"]), e["mode"]))
    return out


def render_results(tr):
    """append offsets / committed roots as the implementation reported them"""
    out = []
    if tr.kind == "api":
        ci = 0
        for o in tr.oplog:
            if o[0] == "a":
                out.append("(0%%N, %d, 0%%N, 0%%N, 0)" % int(o[1]))
            elif o[0] == "c":
                # a commit appends the head set (an EAppended) and then commits
                c = tr.commits[ci] if ci < len(tr.commits) else None
                ci += 1
                root = c["root"] if c else None
                out.append("(0%%N, %d, 0%%N, 0%%N, 0)" % int(o[3]))
                if root:
                    out.append("(1%%N, %d, %d%%N, %d%%N, %d)" % (int(o[3]), root["gen"], int(o[2]), root["free"]))
    else:
        heads_rec = {c["nrec"] - 1: c for c in tr.commits}
        for idx, rec in enumerate(tr.records):
            out.append("(0%%N, %d, 0%%N, 0%%N, 0)" % rec["off"])
            if idx in heads_rec and heads_rec[idx]["root"]:
                root = heads_rec[idx]["root"]
                out.append("(1%%N, %d, %d%%N, %d%%N, %d)" % (root["heads"] if root["heads"] is not None else -1, root["gen"],
                                                        root["fc"] or 0, root["free"]))
    return out


HEADER = ("From Aranya Require Import base.Tactics base.Harness gen.GenCrash model.Crash model.CrashRun.\n"
          "Open Scope Z_scope.\n")


def cb(bs):
    """bytes as a `list N` literal (the cases files are in Z scope)"""
    return "(%s)%%N" % vlib.coq_bytes(bs)


# ---------------------------------------------------------------- harness session

class Session:
    def __init__(self, ctx, binp, tmp):
        import subprocess
        self.p = subprocess.Popen([binp, tmp], stdin=subprocess.PIPE, stdout=subprocess.PIPE, stderr=subprocess.DEVNULL,
                                  text=True, bufsize=1)

    def run(self, wid, kind, ops):
        self.p.stdin.write("RUN %s %s %s\n" % (wid, kind, ",".join(ops)))
        self.p.stdin.flush()
        lines = []
        while True:
            l = self.p.stdout.readline()
            if not l:
                raise RuntimeError("harness died during RUN")
            l = l.rstrip("\n")
            if l == "END":
                break
            lines.append(l)
        return Trace(wid, kind, ops, lines)

    def images(self, reqs):
        """reqs: list of (wid, n, spec, cont); returns result lines"""
        import threading
        out = []

        def reader():
            for _ in reqs:
                l = self.p.stdout.readline()
                if not l:
                    return
                out.append(l.rstrip("\n"))
        t = threading.Thread(target=reader)
        t.start()
        for (wid, n, spec, cont) in reqs:
            self.p.stdin.write("IMG %s %d %s %d\n" % (wid, n, spec, 1 if cont else 0))
        self.p.stdin.flush()
        t.join()
        if len(out) != len(reqs):
            raise RuntimeError("harness died during IMG (%d of %d results)" % (len(out), len(reqs)))
        return out

    def raw(self, cases):
        import threading
        out = []

        def reader():
            for _ in cases:
                l = self.p.stdout.readline()
                if not l:
                    return
                out.append(l.rstrip("\n"))
        t = threading.Thread(target=reader)
        t.start()
        for (size, a, b) in cases:
            self.p.stdin.write("RAW %d %s %s\n" % (size, a.hex() or "-", b.hex() or "-"))
        self.p.stdin.flush()
        t.join()
        if len(out) != len(cases):
            raise RuntimeError("harness died during RAW")
        return out

    def drop(self, wid):
        self.p.stdin.write("DROP %s\n" % wid)
        self.p.stdin.flush()
        self.p.stdout.readline()

    def close(self):
        try:
            self.p.stdin.close()
            self.p.wait(timeout=60)
        except Exception:
            self.p.kill()


def dbg_info(res):
    """(generation, write frontier, next root slot) of the recovered writer, when the harness could read them"""
    try:
        return {"gen": int(res["gen"]), "free": int(res["free"]), "nr": int(res["nr"])}
    except (KeyError, ValueError):
        return None


def parse_result(line):
    """'R open=ok ho=.. fc=.. heads=.. recs=..|walk=.. [cont=..] size=..' -> dict"""
    d = {"raw": line}
    for tok in line.split()[1:]:
        if "=" in tok:
            k, v = tok.split("=", 1)
            d[k] = v
        else:
            d[tok] = True
    return d


# ---------------------------------------------------------------- crash images

def mask_hex(bits):
    """bits: list of 0/1, chunk i kept iff bits[i]; -> hex of the integer with bit i set"""
    v = 0
    for i, b in enumerate(bits):
        if b:
            v |= 1 << i
    return "%x" % v


def nchunks(off, ln, g):
    return (off + ln - 1) // g - off // g + 1 if ln > 0 else 0


def specs_for(tr, n, r, cap, thorough):
    """Crash specs for prefix n: list of (spec string, per-pending decision list).
    A decision is 'k', 'd', ('z', size) or ('g', granularity, bits)."""
    pend = tr.pending(n)
    if not pend:
        return [("K", [])]
    evs = [tr.ev[i] for i in pend]
    out = []

    def add(dec):
        toks = []
        for e, d in zip(evs, dec):
            if d in ("k", "d"):
                toks.append(d)
            elif d[0] == "z":
                toks.append("z%d" % d[1])
            elif d[0] in ("p", "s"):
                toks.append("%s%d:%d" % (d[0], d[1], d[2]))
            else:
                toks.append("g%d:%s" % (d[1], mask_hex(d[2])))
        s = ",".join(toks)
        if all(x != s for x, _ in out):
            out.append((s, dec))

    k = len(evs)
    add(["d"] * k)
    add(["k"] * k)
    # subsets: exhaustive when <= 6 pending, sampled otherwise
    if k <= 6:
        subsets = list(range(1, (1 << k) - 1))
        r.shuffle(subsets)
    else:
        subsets = [r.below(1 << k) for _ in range(24)]
    # reorderings that matter most first: later kept, earlier lost
    prio = []
    for j in range(1, k):
        prio.append(((1 << k) - 1) & ~((1 << j) - 1))     # first j lost, rest kept
        prio.append((1 << j) - 1)                          # first j kept, rest lost
    root_idx = [j for j, e in enumerate(evs) if e["k"] == "P" and any(s <= e["off"] < s + 512 for s in SLOTS)]
    budget_sub = max(4, cap // 3) if root_idx else max(4, cap - 10)
    for m in (prio + subsets)[:budget_sub]:
        add(["k" if (m >> j) & 1 else "d" for j in range(k)])
    # tearing of data writes at 1, 8, 512 bytes and partial fallocate
    for _ in range(6 if not thorough else 12):
        dec = []
        for e in evs:
            if e["k"] == "F":
                dec.append(r.choice(["k", "d", ("z", r.below(e["off"] + e["len"] + 1))]))
            else:
                g = r.choice([1, 8, 512])
                nc = nchunks(e["off"], e["len"], g)
                mode = r.below(4)
                if mode == 0 or (nc > 4096 and mode < 3):
                    dec.append(("p", g, r.below(nc + 1)))        # a prefix reached the disk
                elif mode == 1 or nc > 4096:
                    dec.append(("s", g, r.below(nc + 1)))        # a suffix reached the disk
                else:
                    dec.append(("g", g, [r.below(2) for _ in range(nc)]))
        add(dec)
    # every byte boundary inside root records (the other pending writes kept)
    for j in root_idx:
        e = evs[j]
        L = e["len"]
        others = ["k"] * k
        cuts = list(range(0, L + 1))
        variants = []
        for c in cuts:
            variants.append([1] * c + [0] * (L - c))
            variants.append([0] * c + [1] * (L - c))
        for c in range(L):
            variants.append([0 if x == c else 1 for x in range(L)])      # one byte lost
            variants.append([1 if x == c else 0 for x in range(L)])      # one byte kept
        for _ in range(8):
            variants.append([r.below(2) for _ in range(L)])
        if not thorough:
            r.shuffle(variants)
            variants = variants[:max(6, cap // 2)]
        for bits in variants:
            dec = list(others)
            dec[j] = ("g", 1, bits)
            # the companion root write (prefix or body) kept or lost at random
            for j2 in root_idx:
                if j2 != j:
                    dec[j2] = r.choice(["k", "d", "k"])
            add(dec)
    if not thorough and len(out) > cap:
        head, tail = out[:2], out[2:]
        r.shuffle(tail)
        out = head + tail[:cap - 2]
    return out


def image_bytes(tr, n, dec, lo, ln):
    """Bytes [lo, lo+ln) and the file size of the crash image (python replica, used
    only to hand the slot contents to the model's `open`)."""
    buf = bytearray(ln)
    size = 0

    def put(off, data_len, get, keep):
        nonlocal size
        for i in range(data_len):
            if keep(i):
                x = off + i
                if lo <= x < lo + ln:
                    buf[x - lo] = get(i)
                if x + 1 > size:
                    size = x + 1

    pend = tr.pending(n)
    first_pending = pend[0] if pend else n
    last_sync = 0
    for i in range(n):
        if tr.ev[i]["k"] in ("D", "S"):
            last_sync = i + 1
    for i in range(last_sync):
        e = tr.ev[i]
        if e["k"] == "P":
            apply_p(e, buf, lo, ln, None)
            size = max(size, e["off"] + e["len"])
        elif e["k"] == "F":
            size = max(size, e["off"] + e["len"])
    for i, d in zip(pend, dec):
        e = tr.ev[i]
        if d == "d":
            continue
        if e["k"] == "F":
            size = max(size, e["off"] + e["len"] if d == "k" else d[1])
            continue
        if d == "k":
            apply_p(e, buf, lo, ln, None)
            size = max(size, e["off"] + e["len"])
        else:
            g = d[1]
            first = e["off"] // g
            if d[0] == "g":
                keep = lambda j, e=e, g=g, bits=d[2], first=first: bits[(e["off"] + j) // g - first] == 1
            elif d[0] == "p":
                keep = lambda j, e=e, g=g, c=d[2], first=first: (e["off"] + j) // g - first < c
            else:
                keep = lambda j, e=e, g=g, c=d[2], first=first: (e["off"] + j) // g - first >= c
            hi = apply_p(e, buf, lo, ln, keep)
            size = max(size, hi)
    return bytes(buf), size


def apply_p(e, buf, lo, ln, keep):
    """apply pwrite e to buf (window [lo,lo+ln)); returns one past the highest byte written"""
    off, L = e["off"], e["len"]
    hi = 0
    if keep is None:
        hi = off + L
        a, b = max(off, lo), min(off + L, lo + ln)
        if a < b:
            if e["data"] is not None:
                buf[a - lo:b - lo] = e["data"][a - off:b - off]
            else:
                buf[a - lo:b - lo] = bytes([e["fill"] & 0xff]) * (b - a)
        return hi
    for j in range(L):
        if keep(j):
            x = off + j
            hi = max(hi, x + 1)
            if lo <= x < lo + ln:
                buf[x - lo] = e["data"][j] if e["data"] is not None else (e["fill"] & 0xff)
    return hi


# ---------------------------------------------------------------- the oracle

def oracle(tr, n, res, ref_digest):
    """The property, evaluated on what the implementation returned for a crash image of
    the prefix of length n.  Returns (why|None, which commit index was recovered|None)."""
    done = tr.completed(n)
    started = tr.started(n)
    allowed = ([done[-1]] if done else []) + started
    if res.get("panic"):
        return "reopening the crash image panicked", None
    op = res.get("open", "")
    if op != "ok":
        if op.startswith("err"):
            if done:
                return "open failed although commit #%d had completed before the crash" % (tr.commits.index(done[-1]) + 1), None
            return None, None
        return "unexpected harness result %r" % res["raw"][:200], None
    if not allowed:
        return "open returned a state although no commit had completed or started", None
    got = None
    for c in allowed:
        root = c["root"]
        if root and str(root["heads"]) == res.get("ho") and str(root["fc"]) == res.get("fc"):
            got = c
    if got is None:
        return ("recovered state (heads record @%s, fact cache @%s) is neither the last completed commit nor the commit in progress (allowed: %s)"
                % (res.get("ho"), res.get("fc"), [(c["root"] or {}).get("heads") for c in allowed])), None
    ci = tr.commits.index(got)
    # the rest of the recovered root and what the writer will do next
    root = got["root"]
    if res.get("gen", "").isdigit() and int(res["gen"]) != root["gen"]:
        return "recovered generation %s differs from generation %d of recovered commit #%d" % (res["gen"], root["gen"], ci + 1), ci
    if res.get("free", "").lstrip("-").isdigit() and int(res["free"]) != root["free"]:
        return "recovered write frontier %s differs from the frontier %d of recovered commit #%d" % (res["free"], root["free"], ci + 1), ci
    if res.get("nr", "").isdigit() and int(res["nr"]) == got["slot"]:
        return "the next commit would overwrite slot %d, which holds the recovered commit #%d" % (got["slot"], ci + 1), ci
    # the head set itself
    hrec = tr.records[got["nrec"] - 1]
    if hrec["payload"] is not None and res.get("heads") != fnv(hrec["payload"]):
        return "recovered head set differs from the one committed by commit #%d" % (ci + 1), ci
    # everything reachable is readable, nothing later is visible
    if tr.kind == "api":
        bits = res.get("recs", "")
        need = got["nrec"]
        if bits == "-":
            bits = ""
        # a record is part of the committed state if it lies below the commit's frontier and no later record
        # (appended after a reopen discarded it, still before this commit) overwrote its place
        free = got["root"]["free"] if got["root"] else 0
        live = [i for i in range(need)
                if tr.records[i]["off"] + 4 + tr.records[i]["len"] <= free      # discarded by an earlier reopen otherwise
                and not any(tr.records[j]["off"] < tr.records[i]["off"] + 4 + tr.records[i]["len"]
                           and tr.records[i]["off"] < tr.records[j]["off"] + 4 + tr.records[j]["len"]
                           for j in range(i + 1, need))]
        bad = [i for i in live if i < len(bits) and bits[i] != "1"]
        if bad or len(bits) < need:
            r0 = tr.records[bad[0]] if bad else None
            return ("record #%d (offset %s) appended before recovered commit #%d is not readable / has different bytes"
                    % (bad[0] if bad else -1, r0["off"] if r0 else "?", ci + 1)), ci
    else:
        want = ref_digest.get(ci)
        if want is not None and res.get("walk") != want:
            return ("state reachable from recovered commit #%d differs: walk %s, expected %s"
                    % (ci + 1, res.get("walk"), want)), ci
    return None, ci


def cont_oracle(res, recovered_root):
    """Continuation on the recovered writer: one append + one commit, every prefix of its
    trace with lost/kept/torn pending writes, reopened."""
    c = res.get("cont")
    if c is None:
        return None, None
    parts = c.split(";")
    if len(parts) != 3:
        return "continuation on the recovered writer failed: %s" % c[:200], None
    kinds, detail, outs = parts
    first_r = kinds.find("R")
    final_d = kinds.rfind("D")
    info = {}
    pw = [x.split(":") for x in detail.split("/") if x]
    for off, hx in pw:
        if int(off) in SLOTS and len(unhex(hx)) != 4:
            info["slot"] = int(off)
            info["root"] = parse_root(unhex(hx))
    data_pw = [int(off) for off, hx in pw if int(off) >= FREE_START]
    info["append_off"] = data_pw[0] if data_pw else None
    for o in outs.split(","):
        j, v, oc = o.split(":")
        j, v = int(j), int(v)
        if j > final_d:
            ok = oc == "n"
        elif j > first_r:
            ok = oc in ("o", "n") and not (v == 0 and oc != "o")
        else:
            ok = oc == "o"
        if not ok:
            return ("after recovery, a crash at step %d of the next commit (variant %d) reopened as %r "
                    "(o=recovered commit, n=new commit, e=error, x=something else)" % (j, v, oc)), info
    return None, info


# ---------------------------------------------------------------- run

def run(ctx):
    vlib.regen(ctx)
    vlib.prove(ctx, extra_targets=["model/CrashRun.vo"])
    binp = vlib.cargo_build(ctx, "hx-crash", bin="c15")
    if not binp:
        return
    tmp = os.path.join(vlib.BUILD, "tmp-c15-%d-%d" % (os.getpid(), ctx.seed))
    shutil.rmtree(tmp, ignore_errors=True)
    try:
        _run(ctx, binp, tmp)
    finally:
        shutil.rmtree(tmp, ignore_errors=True)


def _run(ctx, binp, tmp):
    r = ctx.rng
    thorough = ctx.thorough
    plan = []
    if thorough:
        for i in range(18):
            plan.append(("api", gen_api_workload(r, big=(i % 9 == 0), thorough=True)))
        for i in range(12):
            plan.append(("client", gen_client_workload(r, thorough=True)))
    else:
        plan.append(("api", gen_api_workload(r)))
        plan.append(("api", gen_api_workload(r)))
        plan.append(("client", gen_client_workload(r)))
        plan.append(("api", ["a5.1", "c1.1234", "a0.2", "a300.3", "c2.99999999999", "r", "a7.4", "c0.5", "c1.6", "a1.1"]))
    cap = 32
    ses = Session(ctx, binp, tmp)
    traces = []
    n_img = n_cont = 0
    violations = []
    stale = []
    open_cases = []        # (size, slotA bytes, slotB bytes, impl summary)
    raw_cases = []
    dist = {"crash_points": 0, "images": 0, "open_err": 0, "recovered_last_completed": 0, "recovered_in_progress": 0,
            "torn_root_images": 0, "continuations": 0, "continuation_subimages": 0, "exhaustive_points": 0}
    distinct = set()
    try:
        for wi, (kind, ops) in enumerate(plan):
            wid = "w%d" % wi
            tr = ses.run(wid, kind, ops)
            traces.append(tr)
            if tr.status != "ok" or tr.problems or not tr.replay_equals_file:
                ctx.oblige("harness:workload:%s" % wid, False,
                           "status=%s problems=%s replay_equals_file=%s ops=%s" % (tr.status, tr.problems[:3], tr.replay_equals_file, ops))
                continue
            # reference digests (client): clean reopen right after each commit's barrier
            ref = {}
            if kind == "client":
                reqs = [(wid, c["sync"] + 1, "K", False) for c in tr.commits if c["sync"] is not None]
                for c, line in zip([c for c in tr.commits if c["sync"] is not None], ses.images(reqs)):
                    ref[tr.commits.index(c)] = parse_result(line).get("walk")
                # cross-check: clean reopen == live state at the marks
                for i, e in enumerate(tr.ev):
                    if e["k"] == "M" and e["digest"] not in ("-",):
                        done = tr.completed(i)
                        if done and ref.get(tr.commits.index(done[-1])) != e["digest"]:
                            stale.append("w%d: live walk at mark %d (%s) differs from clean reopen (%s)" % (
                                wi, e["tag"], e["digest"], ref.get(tr.commits.index(done[-1]))))
            # crash points: every prefix that ends at a system call
            points = [n for n in range(0, len(tr.ev) + 1) if n == 0 or tr.ev[n - 1]["k"] != "M"]
            if not thorough and len(points) > 70:
                # keep all points around root writes and barriers, sample the rest
                key = set()
                for c in tr.commits:
                    for x in range(c["begin"] - 2, (c["sync"] or c["last"]) + 3):
                        key.add(x)
                pts = [n for n in points if n in key]
                rest = [n for n in points if n not in key]
                r.shuffle(rest)
                points = sorted(set(pts[:50] + rest[:20] + [len(tr.ev)]))
            reqs, meta = [], []
            for n in points:
                specs = specs_for(tr, n, r.fork(), cap, thorough)
                dist["crash_points"] += 1
                if len(tr.pending(n)) <= 6:
                    dist["exhaustive_points"] += 1
                for si, (spec, dec) in enumerate(specs):
                    pend = tr.pending(n)
                    torn_root = any(isinstance(d, tuple) and d[0] in "gps" and tr.ev[i]["k"] == "P" and tr.ev[i]["off"] < FREE_START for i, d in zip(pend, dec))
                    reqs.append((wid, n, spec, False))
                    meta.append((n, spec, dec, torn_root))
            # continuation commits on recovered writers: a sample spread over the whole trace,
            # mostly on images with a torn root record (each costs a real fallocate+fsync and ~60 sub-images)
            torn_idx = [i for i, mm in enumerate(meta) if mm[3] and tr.completed(mm[0])]
            other_idx = [i for i, mm in enumerate(meta) if not mm[3] and tr.completed(mm[0])]
            r.shuffle(torn_idx)
            r.shuffle(other_idx)
            for i in torn_idx[:(16 if thorough else 9)] + other_idx[:3]:
                reqs[i] = reqs[i][:3] + (True,)
            lines = ses.images(reqs)
            for (n, spec, dec, torn_root), line in zip(meta, lines):
                res = parse_result(line)
                n_img += 1
                dist["images"] += 1
                if torn_root:
                    dist["torn_root_images"] += 1
                why, ci = oracle(tr, n, res, ref)
                if res.get("open", "").startswith("err"):
                    dist["open_err"] += 1
                elif ci is not None:
                    done = tr.completed(n)
                    if done and tr.commits[ci] is done[-1]:
                        dist["recovered_last_completed"] += 1
                    else:
                        dist["recovered_in_progress"] += 1
                distinct.add((wid, n, res.get("open", "")[:3], res.get("ho")))
                info = None
                if why is None and "cont" in res:
                    dist["continuations"] += 1
                    dist["continuation_subimages"] += res["cont"].count(":") // 2
                    why, info = cont_oracle(res, ci)
                    if why is None and info and ci is not None and tr.commits[ci]["root"]:
                        # what the recovered writer continued from: frontier, generation, slot
                        want = tr.commits[ci]["root"]
                        if info.get("append_off") is not None and info["append_off"] != want["free"]:
                            why = "recovered write frontier %s differs from the frontier %s of recovered commit #%d" % (
                                info["append_off"], want["free"], ci + 1)
                        elif info.get("root") and info["root"]["gen"] != want["gen"] + 1:
                            why = "recovered generation %s differs from generation %s of recovered commit #%d" % (
                                info["root"]["gen"] - 1, want["gen"], ci + 1)
                        elif info.get("slot") is not None and info["slot"] == tr.commits[ci]["slot"]:
                            why = "the commit after recovery overwrote the slot (%d) holding recovered commit #%d" % (info["slot"], ci + 1)
                if why:
                    violations.append((why, wi, kind, ops, n, spec, res["raw"][:600]))
                # model's open on the same image (slots only)
                if len(open_cases) < (4000 if thorough else 360) and (torn_root or r.chance(1, 4)):
                    a, size = image_bytes(tr, n, dec, SLOTS[0], 300)
                    b, _ = image_bytes(tr, n, dec, SLOTS[1], 300)
                    if res.get("open", "").startswith("err"):
                        impl = None
                    elif res.get("open") == "ok":
                        impl = (res.get("ho"), res.get("fc"), dbg_info(res))
                    else:
                        impl = "?"
                    open_cases.append((size, a, b, impl, (wi, n, spec), int(res.get("size", -1))))
            ses.drop(wid)
            ctx.log("%s %s: %d syscalls, %d commits, %d crash points, %d images so far" % (
                wid, kind, sum(1 for e in tr.ev if e["k"] != "M"), len(tr.commits), len(points), n_img))
        # malformed stream for the recovery path: crafted / damaged / random slot contents
        raw = gen_raw_cases(r.fork(), 1500 if thorough else 240)
        n_raw_ok = 0
        for (size, a, b), line in zip(raw, ses.raw(raw)):
            res = parse_result(line)
            if res.get("open", "").startswith("err"):
                impl = None
            elif res.get("open") == "ok":
                impl = (res.get("ho"), res.get("fc"), dbg_info(res))
                n_raw_ok += 1
            else:
                impl = "?"
            pa = (a + bytes(300))[:300]
            pb = (b + bytes(300))[:300]
            # the harness clips the slot bytes at the file size; mirror that
            pa = bytes(x if 4096 + i < size else 0 for i, x in enumerate(pa))
            pb = bytes(x if 8192 + i < size else 0 for i, x in enumerate(pb))
            raw_cases.append((size, pa, pb, impl, ("raw", a.hex(), b.hex()), int(res.get("size", -1))))
        dist["raw_open_cases"] = len(raw)
        dist["raw_open_cases_valid"] = n_raw_ok
    finally:
        ses.close()
    open_cases += raw_cases

    # ---- correspondence 1: write protocol, model trace == recorded trace
    good = [t for t in traces if t.status == "ok" and not t.problems]

    def render(chunk):
        out = []
        for i, tr in enumerate(chunk):
            out.append("Definition wl_%d : list sop := %s.\nDefinition expected_%d : list cev := %s.\n"
                       "Definition expres_%d : list (N * Z * N * N * Z) := %s.\n" % (
                           i, vlib.coq_list(render_ops(tr)), i, vlib.coq_list(render_expected(tr)), i, vlib.coq_list(render_results(tr))))
        out.append("Eval vm_compute in %s.\n" % vlib.coq_list(["check_trace wl_%d expected_%d expres_%d" % (i, i, i) for i in range(len(chunk))]))
        return "".join(out)
    mism = []
    if good:
        # big workloads (MiB payloads) get a file of their own, the others share files
        bigs = [t for t in good if any(e["k"] == "P" and e["len"] > 100000 for e in t.ev)]
        small = [t for t in good if t not in bigs]
        groups = [[t] for t in bigs] + [small[i:i + 4] for i in range(0, len(small), 4)]
        outs, chunks = vlib.coq_eval_sharded(ctx, "c15_trace", HEADER, groups, lambda ch: render(ch[0]), shard=1, timeout=1500)
        for (rc, o), ch in zip(outs, chunks):
            grp = ch[0]
            v = vlib.parse_coq_value(o) if rc == 0 else None
            if v is None or len(v) != len(grp):
                ctx.oblige("correspondence:model-eval:%s" % grp[0].wid, False, o[-1500:])
                continue
            for tr, res in zip(grp, v):
                d1, d2, ok = res
                if d1 or d2 or ok is not True:
                    mism.append("%s (%s %s): first differing syscall %s, first differing result %s, reopen ok=%s" % (
                        tr.wid, tr.kind, ",".join(tr.ops)[:300], d1, d2, ok))
    ctx.oblige("correspondence:write-protocol:model=impl", not mism, "; ".join(mism[:3]))

    # ---- correspondence 2: open on crash images, model == impl
    def render_open(chunk):
        items = []
        for (size, a, b, impl, _, _) in chunk:
            if impl is None:
                want = "None"
                items.append("(%d, %s, %s, None, false)" % (size, cb(a), cb(b)))
            else:
                ho, fc, info = impl
                full = info is not None
                gen = info["gen"] if full else 0
                free = info["free"] if full else 0
                nr = info["nr"] if full else 0
                items.append("(%d, %s, %s, Some (%d%%N, %s, %s, %s, %d), %s)" % (
                    size, cb(a), cb(b), gen,
                    coq_z(int(ho)) if ho and ho.isdigit() else "(-1)", coq_z(int(fc)) if fc and fc.isdigit() else "(-1)",
                    coq_z(free), nr, "true" if full else "false"))
        return ("Definition cases : list (Z * list N * list N * option (N * Z * Z * Z * Z) * bool) := %s.\n"
                "Definition chk (c : Z * list N * list N * option (N * Z * Z * Z * Z) * bool) : bool :=\n"
                "  let '(size, a, b, want, full) := c in\n"
                "  match open_summary size a b, want with\n"
                "  | None, None => true\n"
                "  | Some (g, h, f, fr, nr), Some (g', h', f', fr', nr') =>\n"
                "      Z.eqb h h' && Z.eqb f f' && (negb full || (N.eqb g g' && Z.eqb fr fr' && Z.eqb nr nr'))\n"
                "  | _, _ => false end.\n"
                "Eval vm_compute in (mismatches chk cases).\n" % vlib.coq_list(items))
    omism = []
    usable = [c for c in open_cases if c[3] != "?"]
    size_bad = [c for c in usable if c[0] != c[5]]
    if usable:
        outs, chunks = vlib.coq_eval_sharded(ctx, "c15_open", HEADER, usable, render_open, shard=(300 if not ctx.thorough else 250), timeout=1500)
        base = 0
        for (rc, o), ch in zip(outs, chunks):
            v = vlib.parse_coq_value(o) if rc == 0 else None
            if v is None:
                ctx.oblige("correspondence:model-eval:open", False, o[-1500:])
                break
            omism += [base + j for j in v]
            base += len(ch)
    ctx.oblige("correspondence:open-on-crash-images:model=impl", not omism,
               "model open differs from the implementation on images %s" % [usable[i][4] for i in omism[:3]])
    ctx.oblige("harness:image-size-replica", not size_bad, str([(c[4], c[0], c[5]) for c in size_bad[:3]]))
    ctx.oblige("harness:clean-reopen=live-state", not stale, "; ".join(stale[:3]))

    n_commits = sum(len(t.commits) for t in traces)
    ctx.coverage.update({
        "traces_validated_against_impl": len(good),
        "evaluations": n_img,
        "distinct_nontrivial": len(distinct),
        "rule": "a trace = the recorded pwrite/fdatasync/fsync/fallocate sequence of one real multi-commit workload (raw Writer API or ClientState) "
                "compared event by event with the model's; an evaluation = one crash image (trace prefix + lost/kept/torn choice for every un-synced write) "
                "reopened with the real FileManager::open and walked; distinct = distinct (workload, crash point, outcome, recovered head-set offset)",
        "distribution": dict(dist, workloads=len(traces), commits=n_commits,
                             syscalls=sum(1 for t in traces for e in t.ev if e["k"] != "M"),
                             api_workloads=sum(1 for t in traces if t.kind == "api"),
                             client_workloads=sum(1 for t in traces if t.kind == "client"),
                             open_cases_checked_in_coq=len(usable)),
        "samples": [{"kind": t.kind, "ops": ",".join(t.ops)[:400], "syscalls": sum(1 for e in t.ev if e["k"] != "M"),
                     "commits": len(t.commits)} for t in traces[:3]],
    })
    ctx.assumptions += [
        "OS contract (Section hypothesis of the model): a completed fsync/fdatasync makes every earlier pwrite/fallocate of the file durable; "
        "un-synced writes may be lost or torn at byte granularity, in issue order; nothing else changes the file",
        "checksum idealisation (premise tear_free of crash_recovery): a torn root-record write validates only as the new root, as what the slot validated to before, or not at all",
        "durability of the directory entry of a newly created graph file is outside the model (create does not fsync the directory)",
    ]
    for (why, wi, kind, ops, n, spec, raw) in violations[:3]:
        ctx.violation("crash recovery violated: " + why,
                      {"workload": {"kind": kind, "ops": ",".join(ops)}, "crash_point": n, "pending_spec": spec,
                       "impl": raw, "contradicts": "crash_recovery (coq/props/C15.v)",
                       "replay_cmd": "printf 'RUN w %s %s\\nIMG w %d %s 1\\n' | build/target/debug/c15 build/tmp-c15-replay" % (
                           kind, ",".join(ops), n, spec)})
    ctx.oblige("oracle:crash-images", not violations, "%d violating crash images; first: %s" % (len(violations), violations[0][0] if violations else ""))
