"""C25 — the VM never panics on any bytecode.

Proof: coq/props/C25.v (step_total, step_total_release, run_total, calls_total, module_run_total,
ledger_complete) over the executable model coq/model/Vm.v, whose data types are regenerated from the
Rust source (tools/gen_vm.py).  Correspondence ("L2", machine-step equality): the real
aranya_policy_vm Machine/RunState under a scripted logging MachineIO (harness/hx-vm, bin c25), in
the dev profile and in a profile with debug assertions off, against the model evaluated by
vm_compute on the same cases: (i) hostile instruction sequences over every instruction kind,
(ii) programs compiled by the real compiler from small policies.
"""
import os
import sys

import vlib

sys.path.insert(0, os.path.join(vlib.ROOT, "tools"))

# ------------------------------------------------------------------ s-expressions


def sx_str(x):
    if isinstance(x, list):
        return "(" + " ".join(sx_str(y) for y in x) + ")"
    return str(x)


def sx_parse(s):
    toks = s.replace("(", " ( ").replace(")", " ) ").split()
    pos = [0]

    def go():
        t = toks[pos[0]]
        pos[0] += 1
        if t == "(":
            out = []
            while toks[pos[0]] != ")":
                out.append(go())
            pos[0] += 1
            return out
        return t
    return go()


def hx(b):
    return b.hex() if b else "-"


def unhx(s):
    return b"" if s == "-" else bytes.fromhex(s)


# ------------------------------------------------------------------ rendering to Coq

def cq_str(b):
    if isinstance(b, str):
        b = b.encode()
    if all(32 <= c < 127 and c != 34 for c in b):
        return '"%s"' % b.decode()
    return "(bs [%s])" % "; ".join(str(c) for c in b)


def cq_list(xs):
    return "[" + "; ".join(xs) + "]"


def cq_z(n):
    n = int(n)
    return "(%d)%%Z" % n


def cq_id(hexs):
    return str(int.from_bytes(unhx(hexs), "big"))


def cq_fields_sorted(kvs, f):
    """BTreeMap<Identifier, _> built from (k v) pairs: sorted by key bytes, last duplicate wins."""
    d = {}
    for kv in kvs:
        d[kv[0]] = kv[1]
    return cq_list(["(%s, %s)" % (cq_str(k), f(d[k])) for k in sorted(d, key=lambda s: s.encode())])


def cq_hv(v):
    h, a = v[0], v[1:]
    if h == "int":
        return "(HV_Int %s)" % cq_z(a[0])
    if h == "bool":
        return "(HV_Bool %s)" % ("true" if a[0] == "1" else "false")
    if h == "str":
        return "(HV_String %s)" % cq_str(unhx(a[0]))
    if h == "id":
        return "(HV_Id %s)" % cq_id(a[0])
    if h == "enum":
        return "(HV_Enum %s %s)" % (cq_str(a[0]), cq_z(a[1]))
    raise ValueError("hashable %r" % (v,))


def cq_keys(ks):
    return cq_list(["(mkFactKey %s %s)" % (cq_str(k[0]), cq_hv(k[1])) for k in ks])


def cq_fvalues(vs):
    return cq_list(["(mkFactValue %s %s)" % (cq_str(k[0]), cq_value(k[1])) for k in vs])


def cq_struct(v):
    assert v[0] == "struct"
    return "(mkStruct %s %s)" % (cq_str(v[1]), cq_fields_sorted(v[2:], cq_value))


def cq_value(v):
    h, a = v[0], v[1:]
    if h == "unit":
        return "V_Unit"
    if h == "int":
        return "(V_Int %s)" % cq_z(a[0])
    if h == "bool":
        return "(V_Bool %s)" % ("true" if a[0] == "1" else "false")
    if h == "str":
        return "(V_String %s)" % cq_str(unhx(a[0]))
    if h == "bytes":
        return "(V_Bytes %s)" % cq_list([str(c) for c in unhx(a[0])])
    if h == "struct":
        return "(V_Struct %s)" % cq_struct(v)
    if h == "fact":
        return "(V_Fact (mkFact %s %s %s))" % (cq_str(a[0]), cq_keys(a[1]), cq_fvalues(a[2]))
    if h == "id":
        return "(V_Id %s)" % cq_id(a[0])
    if h == "enum":
        return "(V_Enum %s %s)" % (cq_str(a[0]), cq_z(a[1]))
    if h == "ident":
        return "(V_Identifier %s)" % cq_str(a[0])
    if h == "none":
        return "(V_Option None)"
    if h == "some":
        return "(V_Option (Some %s))" % cq_value(a[0])
    if h == "ok":
        return "(V_Result (ROk %s))" % cq_value(a[0])
    if h == "err":
        return "(V_Result (RErr %s))" % cq_value(a[0])
    raise ValueError("value %r" % (v,))


def cq_const(v):
    h, a = v[0], v[1:]
    if h == "unit":
        return "CV_Unit"
    if h == "int":
        return "(CV_Int %s)" % cq_z(a[0])
    if h == "bool":
        return "(CV_Bool %s)" % ("true" if a[0] == "1" else "false")
    if h == "str":
        return "(CV_String %s)" % cq_str(unhx(a[0]))
    if h == "struct":
        return "(CV_Struct (mkConstStruct %s %s))" % (cq_str(a[0]), cq_fields_sorted(a[1:], cq_const))
    if h == "enum":
        return "(CV_Enum %s %s)" % (cq_str(a[0]), cq_z(a[1]))
    if h == "none":
        return "(CV_Option None)"
    if h == "some":
        return "(CV_Option (Some %s))" % cq_const(a[0])
    if h == "ok":
        return "(CV_Result (ROk %s))" % cq_const(a[0])
    if h == "err":
        return "(CV_Result (RErr %s))" % cq_const(a[0])
    raise ValueError("const %r" % (v,))


def cq_tk(t):
    if isinstance(t, str):
        return {"unit": "TK_Unit", "string": "TK_String", "bytes": "TK_Bytes", "int": "TK_Int", "bool": "TK_Bool",
                "id": "TK_Id", "never": "TK_Never"}[t]
    h, a = t[0], t[1:]
    if h == "struct":
        return "(TK_Struct %s)" % cq_str(a[0])
    if h == "enum":
        return "(TK_Enum %s)" % cq_str(a[0])
    if h == "opt":
        return "(TK_Optional %s)" % cq_tk(a[0])
    if h == "result":
        return "(TK_Result %s %s)" % (cq_tk(a[0]), cq_tk(a[1]))
    raise ValueError("typekind %r" % (t,))


LT = {"action": "LT_Action", "policy": "LT_CommandPolicy", "recall": "LT_CommandRecall", "seal": "LT_CommandSeal",
      "open": "LT_CommandOpen", "temp": "LT_Temporary", "fn": "LT_Function"}
ER = {"normal": "ER_Normal", "yield": "ER_Yield", "check": "ER_Check", "panic": "ER_Panic"}
WR = {"ok": "W_Ok", "err": "W_Err", "some": "W_Some"}


def cq_label(name, lt):
    return "(mkLabel %s %s)" % (cq_str(name), LT[lt])


def cq_target(t):
    if t[0] == "r":
        return "(T_Resolved %s)" % t[1]
    return "(T_Unresolved %s)" % cq_label(t[1], t[2])


def cq_instr(i):
    if isinstance(i, str):
        return "I_" + i
    h, a = i[0], i[1:]
    if h == "Const":
        return "(I_Const %s)" % cq_const(a[0])
    if h in ("Identifier", "Def", "Get", "FactNew", "FactKeySet", "FactValueSet", "StructNew", "StructSet", "StructGet",
             "Cast", "QueryNext"):
        return "(I_%s %s)" % (h, cq_str(a[0]))
    if h in ("Jump", "Branch", "Call", "Recall"):
        return "(I_%s %s)" % (h, cq_target(a[0]))
    if h == "ExtCall":
        return "(I_ExtCall %s %s)" % (a[0], a[1])
    if h == "Exit":
        return "(I_Exit %s)" % ER[a[0]]
    if h in ("MStructSet", "MStructGet"):
        return "(I_%s %s)" % (h, a[0])
    if h in ("Wrap", "Is", "Unwrap"):
        return "(I_%s %s)" % (h, WR[a[0]])
    if h == "FactCount":
        return "(I_FactCount %s)" % cq_z(a[0])
    if h == "Meta":
        mm = a[0]
        if mm[0] == "finish":
            return "(I_Meta (M_Finish %s))" % ("true" if mm[1] == "1" else "false")
        return "(I_Meta (M_FFI %s %s))" % (cq_str(mm[1]), cq_str(mm[2]))
    raise ValueError("instruction %r" % (i,))


def cq_fieldlist(fs):
    return cq_list(["(mkField %s %s)" % (cq_str(f[0]), cq_tk(f[1])) for f in fs])


def by_name(ds):
    """AutoMap built by insert: sorted by name, last wins."""
    d = {}
    for x in ds:
        d[x[0]] = x
    return [d[k] for k in sorted(d, key=lambda s: s.encode())]


import threading

_HOIST = threading.local()      # per cases file (rendered on a worker thread): long repeated sub-terms are defined once


def hoist(t):
    table = getattr(_HOIST, "table", None)
    if table is None or len(t) < 150:
        return t
    return table.setdefault(t, "h%d" % len(table))


def with_hoisting(render_items):
    """render_items() -> list of term texts; returns the vernacular defining the hoisted sub-terms and the items"""
    _HOIST.table = {}
    try:
        items = render_items()
        defs = "".join("Definition %s := %s.\n" % (n, t) for (t, n) in _HOIST.table.items())
    finally:
        _HOIST.table = None
    return defs, items


def cq_machine(parts):
    via = "viamodule" in parts      # through Machine::from_module: definitions in the order given, duplicates kept
    order = (lambda ds: ds) if via else by_name
    prog = cq_list([cq_instr(i) for i in parts["prog"]])
    labels = cq_list(["(%s, %s)" % (cq_label(l[0], l[1]), l[2]) for l in parts["labels"]])
    acts = cq_list(["(mkActionDef %s P_Persistent %s TK_Unit)" % (cq_str(d[0]), cq_fieldlist(d[1:])) for d in order(parts["actiondefs"])])
    cmds = cq_list(["(mkCommandDef %s P_Persistent [] %s)" % (cq_str(d[0]), cq_fieldlist(d[1:])) for d in order(parts["commanddefs"])])
    facts = cq_list(["(mkFactDef %s %s %s false)" % (cq_str(d[0]), cq_fieldlist(d[1]), cq_fieldlist(d[2])) for d in order(parts["factdefs"])])
    structs = cq_list(["(mkStructDef %s %s)" % (cq_str(d[0]), cq_fieldlist(d[1:])) for d in order(parts["structdefs"])])
    enums = cq_list(["(mkEnumDef %s %s)" % (cq_str(d[0]), cq_list(["(%s, %s)" % (cq_str(v[0]), cq_z(v[1])) for v in d[1:]]))
                     for d in order(parts.get("enumdefs", []))])
    if "codemap" in parts:
        cm = parts["codemap"]
        cmt = "(Some (mkCodeMap %s %s))" % (cq_list([str(c) for c in unhx(cm[0])]),
                                             cq_list(["(%s, (%s, %s))" % (e[0], e[1], e[2]) for e in cm[1:]]))
    else:
        cmt = "None"
    glob = cq_fields_sorted(parts["globals"], cq_const)
    acts, cmds, facts, structs, cmt, glob = (hoist(x) for x in (acts, cmds, facts, structs, cmt, glob))
    if via:
        return "(from_module (mkModuleV0 %s %s %s %s %s %s %s %s %s))" % (prog, labels, acts, cmds, facts, structs, enums, cmt, glob)
    return "(mkMachine %s %s %s %s %s %s %s %s %s)" % (prog, labels, acts, cmds, facts, structs, enums, cmt, glob)


CMD_ID = int.from_bytes(bytes([7] * 32), "big")
AUTHOR = int.from_bytes(bytes([9] * 32), "big")
VERSION = int.from_bytes(bytes([3] * 32), "big")


def cq_ctx(c):
    kind, name = c
    n = cq_str(name)
    if kind == "action":
        return "(CC_Action (mkActionContext %s %d))" % (n, CMD_ID)
    if kind == "seal":
        return "(CC_Seal (mkSealContext %s %d))" % (n, CMD_ID)
    if kind == "open":
        return "(CC_Open (mkOpenContext %s))" % n
    pc = "(mkPolicyContext %s %d %d %d)" % (n, CMD_ID, AUTHOR, VERSION)
    return "(CC_%s %s)" % ("Policy" if kind == "policy" else "Recall", pc)


IOE = {"FactExists": "IOE_FactExists", "FactNotFound": "IOE_FactNotFound", "Internal": "IOE_Internal", "Bug": '(IOE_Bug "")'}


def cq_errtype(e):
    h, a = e[0], e[1:]
    if h in ("StackUnderflow", "StackOverflow", "IntegerOverflow", "InvalidInstruction", "CallStack", "ContextMismatch"):
        return "ME_" + h
    if h in ("AlreadyDefined", "InvalidStructMember", "InvalidFact", "InvalidSchema", "InvalidAddress"):
        return "(ME_%s %s)" % (h, cq_str(a[0]))
    if h in ("NotDefined", "BadState", "Unknown", "Bug"):
        return "(ME_%s %s)" % (h, cq_str(unhx(a[0])))
    if h == "InvalidType":
        return "(ME_InvalidType %s %s %s)" % tuple(cq_str(unhx(x)) for x in a)
    if h == "UnresolvedTarget":
        return "(ME_UnresolvedTarget %s)" % cq_label(a[0], a[1])
    if h == "IO":
        return "(ME_IO %s)" % IOE[a[0]]
    if h == "FfiModuleNotDefined":
        return "(ME_FfiModuleNotDefined %s)" % a[0]
    if h == "FfiProcedureNotDefined":
        return "(ME_FfiProcedureNotDefined %s %s)" % (cq_str(a[0]), a[1])
    if h == "Serialize":
        return "(ME_Serialize 0)"
    if h == "Deserialize":
        return "(ME_Deserialize 0)"
    raise ValueError("error %r" % (e,))


def cq_answer(a):
    # (ans RES (rows ROW..) (ops OP..) FAIL)
    res = "None" if a[1] == "ok" else "(Some %s)" % IOE[a[1]]
    rows = []
    for r in a[2][1:]:
        if r[0] == "row":
            rows.append("(ROk (%s, %s))" % (cq_keys(r[1]), cq_fvalues(r[2])))
        else:
            rows.append("(RErr %s)" % IOE[r[1]])
    ops = []
    for o in a[3][1:]:
        if o[0] == "push":
            ops.append("(SO_Push %s)" % cq_value(o[1]))
        elif o[0] == "pop":
            ops.append("SO_Pop")
        else:
            ops.append("(SO_Replace %s)" % cq_value(o[1]))
    fail = "None" if a[4] == "nofail" else "(Some %s)" % cq_errtype(a[4])
    return "(mkAnswer %s %s %s %s)" % (res, cq_list(rows), cq_list(ops), fail)


def cq_entry(e, steps):
    k = e[0]
    if k == "step":
        return "(EStep %d%%nat)" % steps
    if k == "action":
        return "(EAction %s %s)" % (cq_str(e[1]), cq_list([cq_value(v) for v in e[2:]]))
    if k == "policy":
        return "(EPolicy %s %s)" % (cq_struct(e[1]), cq_struct(e[2]))
    if k == "seal":
        return "(ESeal %s %s)" % (cq_struct(e[1]), cq_list([str(c) for c in unhx(e[2])]))
    if k == "open":
        return "(EOpen %s %s %s)" % (cq_struct(e[1]), cq_list([str(c) for c in unhx(e[2])]), cq_struct(e[3]))
    raise ValueError("entry %r" % (e,))


def parts_of(sx):
    return {p[0]: p[1:] for p in sx[1:]}


def cq_event(e):
    k = e[0]
    if k == "insert":
        return "(EvInsert %s %s %s)" % (cq_str(e[1]), cq_keys(e[2]), cq_fvalues(e[3]))
    if k == "delete":
        return "(EvDelete %s %s)" % (cq_str(e[1]), cq_keys(e[2]))
    if k == "query":
        return "(EvQuery %s %s)" % (cq_str(e[1]), cq_keys(e[2]))
    if k == "effect":
        return "(EvEffect %s %s %s %s)" % (cq_str(e[1]), cq_list(["(%s, %s)" % (cq_str(f[0]), cq_value(f[1])) for f in e[2]]),
                                           cq_id(e[3]), "true" if e[4] == "1" else "false")
    if k == "call":
        return "(EvCall %s %s %d)" % (e[1], e[2], ["action", "seal", "open", "policy", "recall"].index(e[3]))
    raise ValueError("event %r" % (e,))


def cq_observation(res):
    """res = parsed (res STATUS (pc N) (stack ..) (locals ..) (depth N) (log ..) (codec ..) (kinds ..) [machine])"""
    st = res[1]
    if st[0] == "executing":
        s = "XExecuting"
    elif st[0] == "exited":
        s = "(XExited %s)" % ER[st[1]]
    elif st[0] == "panic":
        s = "XPanic"
    else:
        src = st[2]
        srct = "None" if src[0] == "nosrc" else "(Some ((%s, %s), %s))" % (src[1], src[2], cq_list([str(c) for c in unhx(src[3])]))
        s = "(XError (mkMachineError %s %s))" % (cq_errtype(st[1]), srct)
    p = {x[0]: x[1:] for x in res[2:]}
    return "(mkObs %s %s %s %s %s %s)" % (
        s, p["pc"][0], cq_list([cq_value(v) for v in p["stack"]]),
        cq_list(["(%s, %s)" % (cq_str(kv[0]), cq_value(kv[1])) for kv in p["locals"]]),
        p["depth"][0], cq_list([cq_event(e) for e in p["log"]]))


def cq_case(case_sx, res):
    parts = parts_of(case_sx)
    p = {x[0]: x[1:] for x in res[2:]}
    if "machine" in p:      # compiled program: the machine is what the real compiler produced
        mp = {x[0]: x[1:] for x in p["machine"]}
        if "nocodemap" in mp:
            del mp["nocodemap"]
        mparts = mp
    else:
        mparts = parts
    codec = cq_list(["(Some %s)" % cq_value(c[1]) if c[0] == "ok" else "None" for c in p["codec"]])
    return "(mkCase %s %s %s %s %s %s %s, %s)" % (
        cq_machine(mparts), cq_ctx(parts["ctx"]), cq_list([cq_value(v) for v in parts["stack"]]), parts["pc"][0],
        hoist(cq_list([hoist(cq_answer(a)) for a in parts["io"]])), codec, cq_entry(parts["entry"], int(parts["steps"][0])),
        cq_observation(res))


# ------------------------------------------------------------------ generators

I64_MAX = (1 << 63) - 1
I64_MIN = -(1 << 63)
USIZE_MAX = (1 << 64) - 1
STRUCTS = [["S", ["a", "int"], ["b", "bool"]], ["T", ["a", "int"], ["b", "bool"], ["c", ["opt", "string"]]],
           ["E", ["x", "int"]], ["Cmd", ["a", "int"], ["s", ["struct", "S"]]], ["Empty"]]
FACTS = [["F", [["k", "int"], ["j", "string"]], [["v", "int"], ["w", "bool"]]],
         ["G", [], [["x", "int"]]],
         ["H", [["i", "id"]], [["o", ["opt", "int"]], ["s", ["struct", "S"]]]]]
IDENTS = ["a", "b", "c", "x", "y", "v", "w", "k", "j", "s", "S", "T", "E", "F", "G", "H", "Cmd", "Empty", "nope", "g1", "g2", "this"]
TEXTS = [b"", b"a", b"hello", "é€".encode(), b"x y", b"Struct S"]
INTS = [0, 1, -1, 2, 5, 7, 100, I64_MAX, I64_MIN, I64_MAX - 1, I64_MIN + 1, 1 << 40]


class Gen:
    def __init__(self, rng):
        self.r = rng

    def ident(self):
        return self.r.choice(IDENTS)

    def int(self):
        return self.r.choice(INTS) if self.r.chance(3, 4) else self.r.range(-50, 50)

    def idhex(self):
        return bytes([self.r.below(3)] * 32).hex()

    def hashable(self):
        k = self.r.below(5)
        if k == 0:
            return ["int", str(self.int())]
        if k == 1:
            return ["bool", str(self.r.below(2))]
        if k == 2:
            return ["str", hx(self.r.choice(TEXTS))]
        if k == 3:
            return ["id", self.idhex()]
        return ["enum", self.r.choice(["Color", "S"]), str(self.r.below(3))]

    def struct(self, depth=0, name=None):
        d = self.r.choice(STRUCTS)
        name = name or d[0]
        fs = []
        for f in d[1:]:
            if self.r.chance(5, 6):
                fs.append([f[0], self.value_of(f[1], depth + 1) if self.r.chance(4, 5) else self.value(depth + 1)])
        if self.r.chance(1, 8):
            fs.append([self.ident(), self.value(depth + 1)])
        seen = set()
        fs = [f for f in fs if not (f[0] in seen or seen.add(f[0]))]
        return ["struct", name] + fs

    def fact(self, depth=0):
        d = self.r.choice(FACTS)
        ks = [[f[0], self.hashable_of(f[1]) if self.r.chance(4, 5) else self.hashable()] for f in d[1] if self.r.chance(4, 5)]
        vs = [[f[0], self.value_of(f[1], depth + 1) if self.r.chance(4, 5) else self.value(depth + 1)] for f in d[2] if self.r.chance(3, 5)]
        name = d[0] if self.r.chance(9, 10) else self.ident()
        return ["fact", name, ks, vs]

    def hashable_of(self, ty):
        if ty == "int":
            return ["int", str(self.int())]
        if ty == "bool":
            return ["bool", str(self.r.below(2))]
        if ty == "string":
            return ["str", hx(self.r.choice(TEXTS))]
        if ty == "id":
            return ["id", self.idhex()]
        return self.hashable()

    def value_of(self, ty, depth=0):
        if ty == "int":
            return ["int", str(self.int())]
        if ty == "bool":
            return ["bool", str(self.r.below(2))]
        if ty == "string":
            return ["str", hx(self.r.choice(TEXTS))]
        if ty == "bytes":
            return ["bytes", hx(bytes(self.r.below(256) for _ in range(self.r.below(4))))]
        if ty == "id":
            return ["id", self.idhex()]
        if ty == "unit":
            return ["unit"]
        if isinstance(ty, list) and ty[0] == "opt":
            return ["none"] if self.r.chance(1, 3) else ["some", self.value_of(ty[1], depth + 1)]
        if isinstance(ty, list) and ty[0] == "struct":
            return self.struct(depth + 1, name=ty[1]) if depth < 3 else ["struct", ty[1]]
        if isinstance(ty, list) and ty[0] == "result":
            return ["ok", self.value_of(ty[1], depth + 1)] if self.r.chance(1, 2) else ["err", self.value_of(ty[2], depth + 1)]
        return self.value(depth + 1)

    def value(self, depth=0):
        k = self.r.below(14 if depth < 3 else 9)
        if k == 0:
            return ["unit"]
        if k in (1, 2):
            return ["int", str(self.int())]
        if k == 3:
            return ["bool", str(self.r.below(2))]
        if k == 4:
            return ["str", hx(self.r.choice(TEXTS))]
        if k == 5:
            return ["bytes", hx(bytes(self.r.below(256) for _ in range(self.r.below(4))))]
        if k == 6:
            return ["id", self.idhex()]
        if k == 7:
            return ["enum", self.r.choice(["Color", "S"]), str(self.r.below(3))]
        if k == 8:
            return ["ident", self.ident()]
        if k == 9:
            return ["none"] if self.r.chance(1, 2) else ["some", self.value(depth + 1)]
        if k == 10:
            return [self.r.choice(["ok", "err"]), self.value(depth + 1)]
        if k == 11:
            return self.fact(depth + 1)
        return self.struct(depth + 1)

    def const(self, depth=0):
        k = self.r.below(9 if depth < 2 else 5)
        if k in (0, 1):
            return ["int", str(self.int())]
        if k == 2:
            return ["bool", str(self.r.below(2))]
        if k == 3:
            return ["str", hx(self.r.choice(TEXTS))]
        if k == 4:
            return ["unit"] if self.r.chance(1, 2) else ["enum", "Color", str(self.r.below(3))]
        if k == 5:
            return ["none"] if self.r.chance(1, 2) else ["some", self.const(depth + 1)]
        if k == 6:
            return [self.r.choice(["ok", "err"]), self.const(depth + 1)]
        d = self.r.choice(STRUCTS)
        return ["struct", d[0]] + [[f[0], self.const(depth + 1)] for f in d[1:] if self.r.chance(3, 4)]

    def target(self, n):
        k = self.r.below(10)
        if k < 6:
            return ["r", str(self.r.below(n + 1))]
        if k == 6:
            return ["r", str(self.r.choice([n, n + 1, USIZE_MAX, USIZE_MAX - 1, 1 << 32]))]
        if k == 7:
            return ["u", self.ident(), self.r.choice(list(LT))]
        return ["r", str(self.r.below(max(n, 1)))]

    # one instruction of a given kind with hostile/random operands; n = program length
    def instr(self, kind, n):
        r = self.r
        if kind == "Const":
            return ["Const", self.const()]
        if kind in ("Identifier", "Def", "Get", "FactNew", "FactKeySet", "FactValueSet", "StructNew", "StructSet", "StructGet", "Cast", "QueryNext"):
            return [kind, self.ident()]
        if kind in ("Jump", "Branch", "Call", "Recall"):
            return [kind, self.target(n)]
        if kind == "ExtCall":
            return ["ExtCall", str(r.choice([0, 1, 7, USIZE_MAX])), str(r.choice([0, 1, 3, USIZE_MAX]))]
        if kind == "Exit":
            return ["Exit", r.choice(list(ER))]
        if kind in ("MStructSet", "MStructGet"):
            return [kind, str(r.choice([1, 1, 2, 2, 3, 50, 101, 1 << 40, USIZE_MAX]))]
        if kind in ("Wrap", "Is", "Unwrap"):
            return [kind, r.choice(list(WR))]
        if kind == "FactCount":
            return ["FactCount", str(r.choice([0, 1, 2, 3, 10, -1, I64_MAX, I64_MIN]))]
        if kind == "Meta":
            return ["Meta", ["finish", str(r.below(2))] if r.chance(1, 2) else ["ffi", self.ident(), self.ident()]]
        return kind     # nullary

    NULLARY = {"Dup", "Pop", "Block", "End", "Next", "Last", "Return", "Add", "Sub", "SaturatingAdd", "SaturatingSub", "Not",
               "Gt", "Lt", "Eq", "Publish", "Create", "Delete", "Update", "Emit", "Query", "QueryStart", "Serialize",
               "Deserialize", "SaveSP", "RestoreSP"}
    OPERAND = {"Const", "Identifier", "Def", "Get", "Jump", "Branch", "Call", "Recall", "ExtCall", "Exit", "FactNew",
               "FactKeySet", "FactValueSet", "StructNew", "StructSet", "StructGet", "MStructSet", "MStructGet", "Cast", "Wrap",
               "Is", "Unwrap", "FactCount", "QueryNext", "Meta"}

    # "gadgets": short sequences that usually satisfy the preconditions of one instruction kind
    def const_hashable_of(self, ty):
        """a hashable value that Const can push (ConstValue has no Id / Bytes)"""
        hv = self.hashable_of(ty)
        return ["int", str(self.int())] if hv[0] == "id" else hv

    def push_fact(self, complete=True):
        d = self.r.choice(FACTS)
        out = [["FactNew", d[0]]]
        for f in d[1]:
            if complete or self.r.chance(2, 3):
                hv = self.const_hashable_of(f[1])
                out += [["Const", hv], ["FactKeySet", f[0]]]
        for f in d[2]:
            if self.r.chance(2, 3):
                out += [["Const", self.const_of(f[1])], ["FactValueSet", f[0]]]
        return out

    def const_of(self, ty):
        if ty == "int":
            return ["int", str(self.int())]
        if ty == "bool":
            return ["bool", str(self.r.below(2))]
        if ty == "string":
            return ["str", hx(self.r.choice(TEXTS))]
        if isinstance(ty, list) and ty[0] == "opt":
            return ["none"] if self.r.chance(1, 2) else ["some", self.const_of(ty[1])]
        if isinstance(ty, list) and ty[0] == "struct":
            d = [s for s in STRUCTS if s[0] == ty[1]][0]
            return ["struct", d[0]] + [[f[0], self.const_of(f[1])] for f in d[1:]]
        return self.const()

    def push_struct(self, name=None, complete=True):
        d = [s for s in STRUCTS if s[0] == name][0] if name else self.r.choice(STRUCTS)
        out = [["StructNew", d[0]]]
        for f in d[1:]:
            if complete or self.r.chance(2, 3):
                out += [["Const", self.const_of(f[1])], ["StructSet", f[0]]]
        return out

    def gadget(self, kind, base, n):
        """instructions exercising `kind`; `base` = address of the first one, n = planned length"""
        r = self.r
        ci = lambda: ["Const", ["int", str(self.int())]]
        if kind in ("Add", "Sub", "SaturatingAdd", "SaturatingSub", "Gt", "Lt"):
            return [ci(), ci(), kind]
        if kind == "Eq":
            v = ["Const", self.const()]
            return [v, v if r.chance(1, 2) else ["Const", self.const()], "Eq"]
        if kind == "Not":
            return [["Const", ["bool", str(r.below(2))]], "Not"]
        if kind in ("Def", "Get"):
            x = r.choice(["x", "y", "v", "g1"])
            return [["Const", self.const()], ["Def", x], ["Get", x if r.chance(4, 5) else self.ident()]]
        if kind in ("Dup", "Pop", "Const"):
            return [["Const", self.const()], "Dup", "Pop"]
        if kind == "Identifier":
            return [["Identifier", self.ident()]]
        if kind in ("Block", "End"):
            return ["Block", ["Const", self.const()], ["Def", r.choice(["x", "y", "w"])], "End"] + (["End"] if r.chance(1, 6) else [])
        if kind == "Jump":
            return [["Jump", ["r", str(base + 2)]], "Last", ["Meta", ["finish", "1"]]]
        if kind == "Branch":
            return [["Const", ["bool", str(r.below(2))]], ["Branch", ["r", str(base + 3)]], ["Const", ["int", "1"]], ["Meta", ["finish", "0"]]]
        if kind in ("Call", "Return"):
            # call over a small function placed right after: call f; jump over; f: ...; return
            return [["Call", ["r", str(base + 2)]], ["Jump", ["r", str(base + 5)]], ["Const", self.const()], ["Def", "x"], "Return"]
        if kind == "Recall":
            return [["Recall", ["r", str(base + 2)]], ["Jump", ["r", str(base + 4)]], ["Const", self.const()], "Return"]
        if kind in ("SaveSP", "RestoreSP"):
            k = r.below(4)
            return ["SaveSP"] + [ci() for _ in range(k)] + ["RestoreSP"]
        if kind == "Exit":
            return [["Exit", r.choice(list(ER))]]
        if kind in ("Next", "Last"):
            return [kind]
        if kind in ("StructNew", "StructSet"):
            return self.push_struct(complete=r.chance(1, 2))
        if kind == "StructGet":
            d = r.choice(STRUCTS[:4])
            return self.push_struct(d[0]) + [["StructGet", r.choice(d[1:])[0] if r.chance(4, 5) else self.ident()]]
        if kind == "MStructSet":
            d = r.choice(STRUCTS[:3])
            fs = [f for f in d[1:] if r.chance(3, 4)] or [d[1]]
            out = [["StructNew", d[0]]]
            for f in fs:
                out += [["Identifier", f[0]], ["Const", self.const_of(f[1]) if r.chance(5, 6) else self.const()]]
            return out + [["MStructSet", str(len(fs) if r.chance(4, 5) else r.choice([1, len(fs) + 1, 60, USIZE_MAX]))]]
        if kind == "MStructGet":
            d = r.choice(STRUCTS[:3])
            fs = [f for f in d[1:] if r.chance(3, 4)] or [d[1]]
            out = self.push_struct(d[0])
            # the struct must be below the identifiers
            out += [["Identifier", f[0]] for f in fs]
            return out + [["MStructGet", str(len(fs) if r.chance(4, 5) else r.choice([1, len(fs) + 1, USIZE_MAX]))]]
        if kind == "Cast":
            return self.push_struct(r.choice(["S", "T", "E"])) + [["Cast", r.choice(["S", "T", "E", "nope"])]]
        if kind in ("Wrap", "Is", "Unwrap"):
            w = r.choice(list(WR))
            return [["Const", self.const()], ["Wrap", w], "Dup", ["Is", r.choice(list(WR))], "Pop", ["Unwrap", w if r.chance(3, 4) else r.choice(list(WR))]]
        if kind in ("FactNew", "FactKeySet", "FactValueSet"):
            return self.push_fact(complete=r.chance(1, 2))
        if kind in ("Create", "Delete", "Query", "QueryStart"):
            return self.push_fact() + [kind]
        if kind == "FactCount":
            return self.push_fact() + [["FactCount", str(r.choice([0, 1, 2, 3, I64_MAX, -1]))]]
        if kind == "QueryNext":
            return self.push_fact() + ["QueryStart", ["QueryNext", "x"], "Pop", "Block", ["QueryNext", r.choice(["x", "y"])], ["QueryNext", "w"]]
        if kind == "Update":
            d = r.choice(FACTS)
            a = [["FactNew", d[0]]]
            for f in d[1]:
                a += [["Const", self.const_hashable_of(f[1])], ["FactKeySet", f[0]]]
            b = list(a)
            for f in d[2]:
                if r.chance(1, 2):
                    a += [["Const", self.const_of(f[1])], ["FactValueSet", f[0]]]
                b += [["Const", self.const_of(f[1])], ["FactValueSet", f[0]]]
            return a + b + ["Update"]
        if kind in ("Emit", "Publish"):
            return self.push_struct(r.choice(["E", "S", "Cmd"]), complete=r.chance(4, 5)) + [kind]
        if kind == "ExtCall":
            return [ci(), ["ExtCall", str(r.below(2)), str(r.below(3))]]
        if kind == "Serialize":
            return self.push_struct("Cmd") + ["Serialize"]
        if kind == "Deserialize":
            return self.push_struct("Cmd") + ["Serialize", "Deserialize"] if r.chance(1, 2) else [["Const", ["int", "1"]], "Deserialize"]
        if kind == "Meta":
            return [self.instr("Meta", n)]
        return [self.instr(kind, n)]

    def row(self):
        d = self.r.choice(FACTS)
        ks = [[f[0], self.hashable_of(f[1])] for f in d[1]]
        vs = [[f[0], self.value_of(f[1])] for f in d[2] if self.r.chance(9, 10)]
        return ["row", ks, vs]

    def answer(self):
        r = self.r
        res = "ok" if r.chance(4, 5) else r.choice(["FactExists", "FactNotFound", "Internal"])
        rows = ["rows"] + [self.row() if r.chance(9, 10) else ["rowerr", r.choice(["Internal", "FactNotFound"])] for _ in range(r.choice([0, 1, 1, 2, 3, 5]))]
        ops = ["ops"]
        for _ in range(r.choice([0, 0, 1, 2, 4])):
            k = r.below(4)
            ops.append(["push", self.value()] if k < 2 else (["pop"] if k == 2 else ["replace", self.value()]))
        if r.chance(1, 30):
            ops += [["push", ["int", "1"]]] * 101
        fail = "nofail"
        if r.chance(1, 6):
            fail = r.choice([["Unknown", hx(b"ffi failed")], ["FfiModuleNotDefined", str(r.choice([0, 5, USIZE_MAX]))], ["IO", "Internal"],
                             ["StackUnderflow"], ["InvalidInstruction"]])
        return ["ans", res, rows, ops, fail]

    def machine_parts(self, prog):
        r = self.r
        out = [["prog"] + prog,
               ["structdefs"] + [s for s in STRUCTS if r.chance(9, 10)],
               ["factdefs"] + [f for f in FACTS if r.chance(9, 10)],
               ["actiondefs"], ["commanddefs"],
               ["globals"] + ([["g1", self.const()]] if r.chance(1, 3) else []) + ([["g2", ["int", "9"]]] if r.chance(1, 3) else []),
               ["labels"]]
        if r.chance(1, 3):
            out.append(["viamodule"])
            sd = out[1][1:] + ([["S", ["a", "bool"]]] if r.chance(1, 2) else []) + ([["T", ["zz", "int"]]] if r.chance(1, 3) else [])
            fd = out[2][1:] + ([["F", [["k", "int"]], [["v", "bool"]]]] if r.chance(1, 2) else [])
            r.shuffle(sd)
            r.shuffle(fd)
            out[1] = ["structdefs"] + sd
            out[2] = ["factdefs"] + fd
        if r.chance(1, 2):
            text = r.choice([b"", b"ab\ncd", "l1\né€ x\nl3".encode(), b"x" * 7, b"\n\n\n"])
            n = len(prog)
            ents = []
            # sorted instruction indexes (map_instruction ignores a decreasing index); spans in and out of range
            idxs = sorted({r.below(n + 2) for _ in range(r.below(4) + 1)})
            for i in idxs:
                a = r.below(len(text) + 2)
                b = a + r.below(len(text) + 2 - a) if r.chance(7, 8) else r.below(len(text) + 2)
                if r.chance(1, 4):
                    a, b = len(text), len(text)
                if a > b and r.chance(1, 2):
                    a, b = b, a
                if a > b:
                    continue        # Span::new debug-asserts start <= end; only decoding can build such a span
                ents.append([str(i), str(a), str(b)])
            out.append(["codemap", hx(text)] + ents)
        return out

    def hostile_case(self, kinds, focus):
        r = self.r
        prog = []
        planned = 30
        tame = r.chance(2, 3)      # the focus gadget first, from a small stack: the focus instruction is reached
        seq = [r.choice(kinds) for _ in range(r.choice([0, 1, 2, 3, 5]))]
        if tame:
            seq = [focus] + seq
        else:
            seq.append(focus)
            r.shuffle(seq)
        for n, k in enumerate(seq):
            if r.chance(1, 4) and not (tame and n == 0):
                prog.append(self.instr(r.choice(kinds), planned))       # a stray hostile instruction
            if r.chance(3, 4) or (tame and n == 0 and r.chance(5, 6)):
                prog += self.gadget(k, len(prog), planned)
            else:
                prog.append(self.instr(k, planned))
        if r.chance(1, 2):
            prog.append(r.choice(["Return", ["Exit", "normal"], ["Exit", "check"], ["Jump", ["r", "0"]]]))
        nstack = r.choice([0, 0, 1, 2]) if tame else r.choice([0, 0, 0, 1, 2, 3, 5, 5, 98, 99, 100])
        stack = [self.value() if nstack < 10 or r.chance(1, 10) else ["int", "0"] for _ in range(nstack)]
        ctx_kind = r.choice(["action", "seal", "open", "policy", "policy", "recall"])
        if tame and focus in ("Emit", "Recall"):
            ctx_kind = r.choice(["policy", "policy", "recall"])
        if tame and focus in ("Serialize", "Deserialize"):
            ctx_kind = {"Serialize": "seal", "Deserialize": r.choice(["open", "seal"])}[focus]
        ctx = ["ctx", ctx_kind, r.choice(["Cmd", "Cmd", "S", "a"])]
        pc = 0 if (tame or r.chance(5, 6)) else r.choice([1, 2, len(prog), len(prog) + 1, USIZE_MAX])
        steps = r.choice([40, 40, 60]) if tame else r.choice([1, 2, 3, 5, 8, 13, 40, 40, 60])
        return ["case"] + self.machine_parts(prog) + [ctx, ["stack"] + stack, ["pc", str(pc)],
                                                      ["io"] + [self.answer() for _ in range(r.choice([0, 2, 4, 6]))],
                                                      ["steps", str(steps)], ["entry", "step"]]

    # ---------------------------------------------------------------- exhaustive small-scope sweep
    def sweep_cases(self, kinds, thorough):
        """every instruction kind x a fixed family of stacks (x every context in the thorough tier), one step"""
        sS = ["struct", "S", ["a", ["int", "1"]], ["b", ["bool", "1"]]]
        fF = ["fact", "F", [["k", ["int", "1"]], ["j", ["str", hx(b"a")]]], [["v", ["int", "2"]]]]
        fG = ["fact", "G", [], [["x", ["int", "1"]]]]
        stacks = [[], [["int", "5"]], [["int", "5"], ["int", "7"]], [["int", str(I64_MAX)], ["int", str(I64_MIN)]], [["bool", "1"]], [sS],
                  [fF], [sS, ["ident", "a"], ["int", "3"]], [sS, ["ident", "a"]], [fG, fG], [["some", ["int", "1"]]],
                  [["ok", ["int", "1"]]], [["err", ["unit"]]], [["bytes", hx(b"\x00\x01")]], [["str", hx(b"a")]], [fF, ["int", "4"]],
                  [["struct", "Cmd", ["a", ["int", "1"]], ["s", sS]]], [["int", "0"]] * 100, [["int", "0"]] * 99 + [sS]]
        operands = {
            "Const": [["int", "1"], ["struct", "S", ["a", ["int", "1"]]], ["some", ["none"]]],
            "Jump": [["r", "0"], ["r", str(USIZE_MAX)], ["u", "x", "temp"]], "Branch": [["r", "0"], ["u", "x", "fn"]],
            "Call": [["r", "0"], ["u", "x", "action"]], "Recall": [["r", "0"], ["u", "x", "recall"]],
            "Exit": ["normal", "yield", "check", "panic"], "Wrap": list(WR), "Is": list(WR), "Unwrap": list(WR),
            "MStructSet": ["1", "2", str(USIZE_MAX)], "MStructGet": ["1", "2", str(USIZE_MAX)],
            "FactCount": ["0", "1", "-1", str(I64_MAX)], "Meta": [["finish", "1"], ["ffi", "a", "b"]],
        }
        ctxs = [["action", "a"], ["seal", "Cmd"], ["open", "Cmd"], ["policy", "Cmd"], ["recall", "S"]]
        ans = ["ans", "ok", ["rows", ["row", fF[2], fF[3]], ["row", fF[2], [["v", ["int", "9"]]]]], ["ops", ["push", ["int", "1"]], ["pop"], ["replace", ["unit"]]], "nofail"]
        out = []
        for ki, k in enumerate(kinds):
            if k in ("Identifier", "Def", "Get", "FactNew", "FactKeySet", "FactValueSet", "StructNew", "StructSet", "StructGet", "Cast", "QueryNext"):
                ops = [[k, x] for x in ("a", "S", "F", "nope")]
            elif k == "ExtCall":
                ops = [[k, "0", "0"], [k, str(USIZE_MAX), "1"]]
            elif k in operands:
                ops = [[k, x] for x in operands[k]]
            else:
                ops = [k]
            for oi, op in enumerate(ops):
                for si, st in enumerate(stacks):
                    if not thorough and (si + ki + oi) % 3:
                        continue
                    for ci, c in enumerate(ctxs):
                        if not thorough and ci != (ki + si + oi) % len(ctxs):
                            continue
                        out.append(["case", ["prog", op, ["Exit", "normal"]], ["structdefs"] + STRUCTS, ["factdefs"] + FACTS,
                                    ["actiondefs"], ["commanddefs"], ["globals", ["g1", ["int", "3"]]], ["labels"],
                                    ["ctx"] + c, ["stack"] + st, ["pc", "0"], ["io", ans, ans], ["steps", "1"], ["entry", "step"]])
        return out

    # ---------------------------------------------------------------- the struct codec behind Serialize / Deserialize
    def codec_value(self, ty, depth=0):
        """a value of type ty (s-expression) for the codec family"""
        r = self.r
        if ty == "int":
            return ["int", str(r.choice([0, 1, -1, 63, 64, -65, 127, 128, 300, I64_MAX, I64_MIN, 1 << 35]))]
        if ty == "bool":
            return ["bool", str(r.below(2))]
        if ty == "string":
            return ["str", hx(r.choice([b"", b"a", b"hello", "\u00e9\u20ac".encode(), b"x" * 130]))]
        if ty == "bytes":
            return ["bytes", hx(bytes(r.below(256) for _ in range(r.choice([0, 1, 3, 32, 130]))))]
        if ty == "id":
            return ["id", bytes(r.choice([0, 1, 32, 0x7f, 0x80, 0xff, r.below(256)]) for _ in range(32)).hex()]
        if ty == "unit":
            return ["unit"]
        if ty[0] == "opt":
            return ["none"] if r.chance(1, 3) else ["some", self.codec_value(ty[1], depth + 1)]
        if ty[0] == "result":
            return ["ok", self.codec_value(ty[1], depth + 1)] if r.chance(1, 2) else ["err", self.codec_value(ty[2], depth + 1)]
        if ty[0] == "enum":
            return ["enum", ty[1], str(r.below(3))]
        if ty[0] == "struct":
            d = [x for x in CODEC_STRUCTS if x[0] == ty[1]][0]
            return ["struct", d[0]] + [[f[0], self.codec_value(f[1], depth + 1)] for f in d[1:]]
        raise ValueError(ty)

    def codec_cases(self, instances):
        """Deserialize on byte strings derived from valid encodings (every truncation, extensions, every structural
        byte mutated, short ids, random bytes) and Serialize on valid and malformed struct values."""
        r = self.r
        out = []

        def mk(prog, ctx, stack, steps=2, drop_defs=False):
            return ["case", ["prog"] + prog, ["structdefs"] + ([] if drop_defs else CODEC_STRUCTS), ["factdefs"], ["actiondefs"],
                    ["commanddefs"], ["globals"], ["labels"], ["enumdefs"] + ([] if drop_defs else CODEC_ENUMS),
                    ["ctx"] + ctx, ["stack"] + stack, ["pc", "0"], ["io"], ["steps", str(steps)], ["entry", "step"]]

        def de(name, b, **kw):
            return mk(["Deserialize", ["Exit", "normal"]], ["open", name], [["bytes", hx(bytes(b))]], **kw)
        for n in range(instances):
            d = CODEC_STRUCTS[n % len(CODEC_STRUCTS)]
            v = self.codec_value(["struct", d[0]])
            marks, ids = [], []
            enc = codec_encode(["struct", d[0]], v, marks, ids)
            L = len(enc)
            out.append(de(d[0], enc))
            out.append(mk(["Serialize", ["Exit", "normal"]], ["seal", d[0]], [v]))
            out.append(mk(["Serialize", "Deserialize"], ["seal", d[0]], [v]))
            for k in range(L):                                  # every truncation
                out.append(de(d[0], enc[:k]))
            for k in (1, 2, 3):                                 # extension
                out.append(de(d[0], enc + bytes(r.choice([0, 1, 0x20, 0xff]) for _ in range(k))))
            for o in marks:                                     # every length / varint / tag byte
                for nb in {(enc[o] + 1) & 0xff, (enc[o] - 1) & 0xff, 0, 0x7f, 0x80, 0xff} - {enc[o]}:
                    out.append(de(d[0], enc[:o] + bytes([nb]) + enc[o + 1:]))
            for o in ids:                                       # id: length byte 32, then 0..31 bytes
                for k in range(32):
                    out.append(de(d[0], enc[:o + 1 + k] + enc[o + 33:]))
                    if r.chance(1, 4):
                        out.append(de(d[0], enc[:o + 1 + k]))
            for _ in range(12):                                 # random bytes / random splices
                k = r.below(L + 1)
                out.append(de(d[0], enc[:k] + bytes(r.below(256) for _ in range(r.below(40)))))
            out.append(de(r.choice(["Nope", "S"]), enc))       # unknown struct
            out.append(de(d[0], enc, drop_defs=True))
            out.append(mk(["Deserialize"], [r.choice(["seal", "action", "policy"]), d[0]], [["bytes", hx(enc)]], steps=1))
            # Serialize: malformed values
            fs = v[2:]
            bad = [v[:2] + fs[1:], v[:2] + fs + [["zz", ["int", "1"]]], v[:2] + [[fs[0][0], ["ident", "a"]]] + fs[1:],
                   v[:2] + [[fs[0][0], ["fact", "F", [], []]]] + fs[1:], v[:2] + [[f[0], ["bool", "1"]] for f in fs],
                   ["struct", "Nope"] + fs]
            for b in bad:
                out.append(mk(["Serialize", ["Exit", "normal"]], ["seal", b[1]], [b]))
            out.append(mk(["Serialize"], ["seal", "Other"], [v], steps=1))
        return out

    # ---------------------------------------------------------------- compiled programs
    def policy_case(self):
        r = self.r
        c1, c2, c3 = (str(r.range(0, 20)) for _ in range(3))
        big = str(r.choice([I64_MAX, I64_MAX - 3, 5, 100]))
        text = POLICY_TEMPLATE.replace("@C1", c1).replace("@C2", c2).replace("@C3", c3).replace("@BIG", big)
        which = r.below(8)
        sv = lambda: ["struct", "S0", ["a", ["int", str(self.int())]], ["b", ["bool", str(r.below(2))]]]
        if which == 0:
            entry, ctx = ["entry", "action", "arith", ["int", str(self.int())], ["int", str(self.int())]], ["ctx", "action", "arith"]
        elif which == 1:
            entry, ctx = ["entry", "action", "pick", ["int", str(r.choice([0, 1, 2, 5, 6, 7]))], r.choice([["none"], ["some", ["int", str(self.int())]]])], ["ctx", "action", "pick"]
        elif which == 2:
            entry, ctx = ["entry", "action", "facts", ["int", str(r.below(4))], ["str", hx(r.choice(TEXTS[1:3]))]], ["ctx", "action", "facts"]
        elif which == 3:
            entry, ctx = ["entry", "action", "structs", sv()], ["ctx", "action", "structs"]
        elif which == 4:
            this = ["struct", "Set", ["a", ["int", str(self.int())]], ["s", sv()]]
            entry, ctx = ["entry", "policy", this, ["struct", "Envelope"]], ["ctx", "policy", "Set"]
        elif which == 5:
            this = ["struct", "Bump", ["k", ["int", str(r.below(3))]]]
            entry, ctx = ["entry", "policy", this, ["struct", "Envelope"]], ["ctx", "policy", "Bump"]
        elif which == 6:
            # wrong arguments / wrong context: the entry points' own error paths
            entry = r.choice([["entry", "action", "arith", ["int", "1"]], ["entry", "action", "arith", ["bool", "1"], ["int", "2"]],
                              ["entry", "action", "nosuch"], ["entry", "policy", ["struct", "Set", ["a", ["bool", "1"]], ["s", sv()]], ["struct", "Envelope"]],
                              ["entry", "policy", ["struct", "Set", ["a", ["int", "1"]]], ["struct", "Envelope"]],
                              ["entry", "seal", ["struct", "Set", ["a", ["int", "1"]], ["s", sv()]], hx(b"\x01\x02")],
                              ["entry", "open", ["struct", "Set"], hx(b"\x01"), ["struct", "Envelope"]]])
            nm = {"action": entry[2] if entry[1] == "action" else "", "policy": "Set", "seal": "Set", "open": "Set"}[entry[1]]
            ctx = ["ctx", entry[1] if r.chance(5, 6) else "action", nm or "arith"]
        else:
            entry, ctx = ["entry", "action", "loops", ["int", str(r.below(3))]], ["ctx", "action", "loops"]
        nstack = r.choice([0, 0, 0, 1, 97, 99])
        return ["case", ["policy", hx(text.encode())], ctx, ["stack"] + [["int", "0"]] * nstack, ["pc", "0"],
                ["io"] + [self.answer_for_policy() for _ in range(r.choice([0, 3, 6]))], ["steps", "0"], entry]

    def answer_for_policy(self):
        r = self.r
        res = "ok" if r.chance(5, 6) else r.choice(["FactExists", "FactNotFound", "Internal"])
        rows = ["rows"]
        for _ in range(r.choice([0, 1, 2, 3])):
            if r.chance(9, 10):
                rows.append(["row", [["k", ["int", str(r.below(3))]], ["j", ["str", hx(r.choice(TEXTS[1:3]))]]],
                             [["v", ["int", str(r.choice([0, 1, 5, I64_MAX]))]], ["w", ["bool", str(r.below(2))]]]])
            else:
                rows.append(["rowerr", "Internal"])
        return ["ans", res, rows, ["ops"], "nofail"]


CODEC_ENUMS = [["Color", ["Red", "0"], ["Green", "1"], ["Blue", "2"]]]
CODEC_STRUCTS = [
    ["P1", ["i", "id"], ["n", "int"]],
    ["P2", ["n", "int"], ["i", "id"]],
    ["P3", ["t", "string"], ["b", "bytes"], ["o", ["opt", "int"]], ["e", ["enum", "Color"]], ["r", ["result", "int", "string"]],
     ["s", ["struct", "P1"]], ["u", "unit"], ["k", "bool"]],
    ["P4", ["o", ["opt", ["struct", "P2"]]], ["oo", ["opt", ["opt", "id"]]], ["i", "id"], ["j", "id"], ["t", "string"]],
]


def _varint(n):
    out = bytearray()
    while True:
        b = n & 0x7f
        n >>= 7
        if n:
            out.append(b | 0x80)
        else:
            out.append(b)
            return bytes(out)


def _zigzag(i):
    return ((i << 1) ^ (i >> 63)) & ((1 << 64) - 1)


def codec_encode(ty, v, marks, ids, base=0):
    """postcard-style encoding of serialize.rs; marks = offsets of length / varint / tag bytes, ids = offsets of id length bytes"""
    out = bytearray()

    def mark(nbytes=1):
        marks.extend(range(base + len(out), base + len(out) + nbytes))
    if ty == "unit":
        pass
    elif ty == "int" or (isinstance(ty, list) and ty[0] == "enum"):
        vb = _varint(_zigzag(int(v[1] if ty == "int" else v[2])))
        mark(len(vb))
        out += vb
    elif ty == "bool":
        mark()
        out.append(int(v[1]))
    elif ty in ("string", "bytes"):
        b = unhx(v[1])
        lb = _varint(len(b))
        mark(len(lb))
        out += lb + b
    elif ty == "id":
        ids.append(base + len(out))
        mark()
        out += b"\x20" + unhx(v[1])
    elif ty[0] == "opt":
        mark()
        if v[0] == "none":
            out.append(0)
        else:
            out.append(1)
            out += codec_encode(ty[1], v[1], marks, ids, base + len(out))
    elif ty[0] == "result":
        mark()
        out.append(0 if v[0] == "ok" else 1)
        out += codec_encode(ty[1] if v[0] == "ok" else ty[2], v[1], marks, ids, base + len(out))
    elif ty[0] == "struct":
        d = [x for x in CODEC_STRUCTS if x[0] == ty[1]][0]
        fv = {f[0]: f[1] for f in v[2:]}
        for f in d[1:]:
            out += codec_encode(f[1], fv[f[0]], marks, ids, base + len(out))
    else:
        raise ValueError(ty)
    return bytes(out)


POLICY_TEMPLATE = """
struct S0 { a int, b bool }
fact F[k int, j string]=>{v int, w bool}
effect Eff { x int, s struct S0 }
effect Cnt { n int, more bool }

command Set {
    fields { a int, s struct S0 }
    seal { return todo() }
    open { return todo() }
    policy {
        let t = saturating_add(this.a, @C1)
        check this.s.b else recall undo(t)
        finish {
            create F[k: t, j: "x"]=>{v: this.s.a, w: this.s.b}
            emit Eff{x: t, s: this.s}
        }
    }
    recall undo(n int) {
        finish {
            emit Cnt{n: n, more: false}
        }
    }
}

command Bump {
    fields { k int }
    seal { return todo() }
    open { return todo() }
    policy {
        let f = query F[k: this.k, j: ?]=>{v: ?, w: ?} or test_fail("nofact")
        let nv = add(f.v, @BIG) or test_fail("ovf")
        let n = count_up_to 3 F[k: this.k, j: ?]=>{v: ?, w: ?}
        let more = exists F[k: this.k, j: "a"]=>{v: ?, w: ?}
        finish {
            update F[k: f.k, j: f.j]=>{v: f.v, w: f.w} to {v: nv, w: true}
            emit Cnt{n: n, more: more}
        }
    }
}

function twice(x int) int {
    return saturating_add(x, x)
}

action arith(a int, b int) {
    let s = add(a, b)
    let d = saturating_sub(a, @C3)
    let m = if a > b { :twice(d) } else { :b }
    if s is Some {
        publish Set{a: s or 0, s: S0{a: m, b: a < b}}
    } else {
        publish Bump{k: @C1}
    }
}

action pick(x int, o option[int]) {
    match x {
        5 => { publish Bump{k: x} }
        6 | 7 => { publish Bump{k: twice(x)} }
        _ => {
            match o {
                None => { publish Bump{k: @C2} }
                Some(y) => { publish Bump{k: y} }
            }
        }
    }
}

action facts(k int, j string) {
    let e = exists F[k: k, j: j]=>{v: ?, w: ?}
    let q = query F[k: k, j: ?]=>{v: ?, w: ?}
    if q is Some {
        let f = q or test_fail("none")
        publish Set{a: f.v, s: S0{a: f.k, b: e}}
    } else {
        publish Bump{k: k}
    }
}

action structs(s struct S0) {
    let t = S0{a: saturating_add(s.a, 1), b: !s.b}
    let u = S0{a: @C3, ...t}
    publish Set{a: u.a, s: u}
}

action loops(k int) {
    map F[k: k, j: ?]=>{v: ?, w: ?} as f {
        publish Bump{k: f.v}
    }
}
"""


# ------------------------------------------------------------------ the check

def instruction_kinds():
    import gen_vm
    return gen_vm.enum_variant_names(vlib.REPO, gen_vm.MOD + "instructions.rs", "Instruction")


def status_class(res):
    st = res[1]
    if st[0] == "error":
        return "error:" + st[1][0]
    if st[0] == "exited":
        return "exited:" + st[1]
    return st[0]


def regen_vm(ctx):
    """Regenerate coq/gen/GenVm.v and GenVmPanics.v from the current tree (this unit's generators
    only: a structural surprise in another unit's translator plug-in is that unit's obligation)."""
    import gen
    import gen_vm
    problems = []
    with vlib.Lock("coq"):
        outdir = os.path.join(vlib.COQ, "gen")
        os.makedirs(outdir, exist_ok=True)
        for g in (gen_vm.gen_vm, gen_vm.gen_vm_panics):
            try:
                name, text, probs = g(vlib.REPO)
            except Exception as e:  # structural surprise
                problems.append("%s: %r" % (g.__name__, e))
                continue
            problems += probs
            path = os.path.join(outdir, name)
            old = open(path).read() if os.path.exists(path) else None
            if old != text:
                with open(path, "w") as f:
                    f.write(text)
    ctx.oblige("translator:regen", not problems, "; ".join(problems))
    return not problems


def run(ctx):
    regen_ok = regen_vm(ctx)
    proved = vlib.prove(ctx, extra_targets=["model/VmHarness.vo"])
    kinds = instruction_kinds()
    ctx.oblige("translator:instruction-kinds", bool(kinds), "Instruction enum not found")
    known_kinds = Gen.NULLARY | Gen.OPERAND
    new_kinds = [k for k in kinds if k not in known_kinds]
    ctx.oblige("generator:knows-every-instruction-kind", not new_kinds,
               "instruction kinds without a generator/model rule: %s" % new_kinds)

    bins = {}
    for prof in ("dev", "nodebug"):
        bins[prof] = vlib.cargo_build(ctx, "hx-vm", profile=prof, bin="c25")
    if not all(bins.values()):
        return

    # when the proof or the translator no longer checks, search harder for a concrete failing input
    scale = 1 if (proved and regen_ok) else 5
    per_kind = (80 if ctx.thorough else 10) * scale
    n_policy = (300 if ctx.thorough else 60) * scale
    g = Gen(ctx.rng)
    gen_kinds = [k for k in kinds if k in known_kinds]
    cases = []
    for k in gen_kinds:
        for _ in range(per_kind):
            cases.append(g.hostile_case(gen_kinds, k))
    sweep = g.sweep_cases(gen_kinds, ctx.thorough)
    cases += sweep
    codec = g.codec_cases((16 if ctx.thorough else 4) * scale)
    codec_lo = len(cases)
    cases += codec
    n_hostile = len(cases)
    for _ in range(n_policy):
        cases.append(g.policy_case())
    lines = [sx_str(c) for c in cases]
    inp = "\n".join(lines) + "\n"

    outs = {}
    for prof, b in bins.items():
        rc, out, err = vlib.run_bin(b, input=inp, timeout=1800)
        ol = out.splitlines()
        if rc != 0 or len(ol) != len(cases):
            # the process died (abort / stack overflow are not caught by catch_unwind): find the case
            bad = len(ol)
            ctx.oblige("harness:run:" + prof, False, "rc=%s after %d of %d cases; stderr: %s" % (rc, bad, len(cases), err[-1500:]))
            if bad < len(cases):
                ctx.violation("the VM host process died (rc=%s) while running a case in the %s profile" % (rc, prof),
                              {"case": lines[bad], "profile": prof, "contradicts": "run_total (coq/props/C25.v)",
                               "replay_cmd": "echo '<case>' | %s" % b})
            return
        outs[prof] = ol
    results = []
    harness_err = []
    for i, l in enumerate(outs["dev"]):
        r = sx_parse(l)
        if r[0] != "res":
            harness_err.append((i, l[:300]))
        results.append(r)
    ctx.oblige("harness:cases-well-formed", not harness_err, str(harness_err[:3]))
    if harness_err:
        return

    # ---- oracle: the property itself on the implementation's output, both profiles
    panics = []
    for prof in ("dev", "nodebug"):
        for i, l in enumerate(outs[prof]):
            if l.startswith("(res (panic)"):
                panics.append((prof, i))
    for (prof, i) in panics[:3]:
        ctx.violation("the real VM panicked (%s profile)" % prof,
                      {"case": lines[i], "profile": prof, "impl_output": outs[prof][i][:2000],
                       "contradicts": "step_total / run_total (coq/props/C25.v)",
                       "replay_cmd": "echo '<case>' | %s" % bins[prof]})
    ctx.oblige("oracle:no-panic-on-any-case", not panics, "%d panicking runs, first %s" % (len(panics), panics[:3]))
    differ = [i for i in range(len(cases)) if outs["dev"][i] != outs["nodebug"][i]]
    ctx.oblige("oracle:profiles-agree", not differ,
               "dev and nodebug builds differ on case %s: %s" % (differ[:1], [(outs["dev"][i][:300], outs["nodebug"][i][:300]) for i in differ[:1]]))

    # ---- known finding F25vm: unbounded value nesting (recursion depth is outside the model)
    deep = vlib.cargo_build(ctx, "hx-vm", profile="dev", bin="c25deep")
    if deep:
        import json
        rc, out, err = vlib.run_bin(deep, args=["100000"], timeout=600)
        fpath = os.path.join(vlib.ROOT, "known_findings.d", "F25vm.json")
        entry = None
        if os.path.exists(fpath):
            entry = next((f for f in json.load(open(fpath)).get("findings", []) if f.get("id") == "F25vm" and f.get("status") == "open"), None)
        if rc == 0 and "dropped" in out:
            ctx.log("known finding F25vm no longer reproduces (the host survived a value nested 100000 deep)")
        elif "run: Ok(Normal)" in out and "overflowed its stack" in err and entry is not None:
            ctx.report_known(entry, "a looping module nests a Value 100000 deep and exits normally; dropping it overflows the host stack (F25vm, recursion depth is outside the model)")
        else:
            ctx.violation("the deep-nesting probe failed in a way not covered by known finding F25vm",
                          {"cmd": "%s 100000" % deep, "rc": rc, "stdout": out[-800:], "stderr": err[-800:],
                           "contradicts": "run_total (coq/props/C25.v) / known_findings.d/F25vm.json"})
        ctx.coverage["known_finding_probe"] = {"cmd": "c25deep 100000", "rc": rc, "stdout": out[-200:]}

    # ---- model = implementation, compared inside Coq
    header = ("From Aranya Require Import base.Harness model.VmBase gen.GenVm model.Vm model.VmHarness.\n"
              "Open Scope N_scope.\nOpen Scope string_scope.\n")
    # the codec family's verdict is the oracle above (the codec is an oracle of the model whose answers are
    # read off the implementation): only a sample of it is also evaluated on the model
    codec_every = 2 if ctx.thorough else 4
    pairs = [(c, r) for i, (c, r) in enumerate(zip(cases, results))
             if r[1][0] != "panic" and not (codec_lo <= i < codec_lo + len(codec) and (i - codec_lo) % codec_every)]
    # the generator's valid encodings must still be what the implementation decodes (else the derived
    # mutations no longer sit next to valid inputs)
    valid_idx = [i for i in range(codec_lo, codec_lo + len(codec))
                 if cases[i][1][1:] == ["Deserialize", ["Exit", "normal"]] and i + 1 < len(cases) and cases[i + 1][1][1] == "Serialize"]
    not_decoded = [i for i in valid_idx if results[i][1] != ["exited", "normal"]]
    ctx.oblige("generator:valid-struct-encodings-decode", bool(valid_idx) and not not_decoded,
               "the generator's encoding of a valid struct is rejected: %s" % [outs["dev"][i][:300] for i in not_decoded[:2]])

    def render(chunk):
        defs, items = with_hoisting(lambda: [cq_case(c, r) for (c, r) in chunk])
        return (defs + "Definition cases : list (vcase * observation) := %s.\n"
                "Eval vm_compute in (mismatches (chk_case true 5000) cases).\n" % cq_list(items))
    mism = []
    cdir = os.path.join(vlib.BUILD, "cases", ctx.pid)
    if os.path.isdir(cdir):          # generated cases files of earlier runs
        for fn in os.listdir(cdir):
            try:
                os.remove(os.path.join(cdir, fn))
            except OSError:
                pass
    ctx.log("implementation ran %d cases in 2 profiles; evaluating the model" % len(cases))
    if proved or os.path.exists(os.path.join(vlib.COQ, "model", "VmHarness.vo")):
        couts, chunks = vlib.coq_eval_sharded(ctx, "c25", header, pairs, render, shard=100)
        base = 0
        for (rc, o), ch in zip(couts, chunks):
            v = vlib.parse_coq_value(o) if rc == 0 else None
            if v is None:
                ctx.oblige("correspondence:model-eval", False, o[-2500:])
                break
            mism += [base + j for j in v]
            base += len(ch)
        detail = ""
        if mism:
            c, r = pairs[mism[0]]
            rc, o = vlib.coq_eval(ctx, "c25_mismatch", header + "Definition c := %s.\nEval vm_compute in (run_case true 5000 (fst c)).\n" % cq_case(c, r))
            detail = "case: %s\nimpl: %s\nmodel: %s" % (sx_str(c)[:1500], sx_str(r)[:1500], o[-2500:])
        ctx.oblige("correspondence:model=impl", not mism, "model and implementation differ on %d cases %s\n%s" % (len(mism), mism[:8], detail))
    else:
        ctx.oblige("correspondence:model=impl", False, "model does not build; see coq:build")

    # ---- coverage
    per_kind_exec = {k: 0 for k in kinds}
    for r in results:
        p = {x[0]: x[1:] for x in r[2:]}
        for k in p.get("kinds", []):
            per_kind_exec[k] = per_kind_exec.get(k, 0) + 1
    # compiled programs run inside call_*: count their instruction kinds from the compiled machine
    compiled_kinds = {}
    for r in results[n_hostile:]:
        p = {x[0]: x[1:] for x in r[2:]}
        for i in dict((x[0], x[1:]) for x in p.get("machine", [])).get("prog", []):
            k = i if isinstance(i, str) else i[0]
            compiled_kinds[k] = compiled_kinds.get(k, 0) + 1
    need = 100 if ctx.thorough else 10
    low = {k: n for k, n in per_kind_exec.items() if n < need}
    ctx.oblige("coverage:every-instruction-kind-executed", not low, "kinds executed fewer than %d times: %s" % (need, low))
    dist = {}
    for r in results:
        c = status_class(r)
        dist[c] = dist.get(c, 0) + 1
    steps_total = sum(len({x[0]: x[1:] for x in r[2:]}.get("kinds", [])) for r in results)
    ctx.coverage.update({
        "traces_validated_against_impl": len(pairs),
        "evaluations": 2 * len(cases),
        "distinct_nontrivial": len({l for (l, r) in zip(lines, results) if len({x[0]: x[1:] for x in r[2:]}.get("kinds", [])) >= 3 or r[1][0] == "exited"}),
        "rule": "hostile case = 1-6 gadgets/stray instructions over every instruction kind with random operands, targets, "
                "labels, initial stack (0..100 values), context, code map and I/O script, run for 1..60 steps; compiled case = "
                "sweep = every instruction kind (each with 1-4 fixed operands) x 19 fixed stacks (x all 5 contexts in the thorough tier), one step; "
                "codec = Deserialize (open context) on byte strings derived from valid encodings of 4 struct schemas with id/bytes/"
                "string/optional/nested-struct/enum/result fields: every truncation, extension by 1-3 bytes, every length/varint/tag "
                "byte set to +-1,0,0x7f,0x80,0xff, id length 32 followed by 0..31 bytes, random splices; Serialize (seal context) on "
                "valid and malformed struct values; "
                "a policy compiled by the real compiler, entered through call_action/call_command_policy/call_seal/call_open; "
                "non-trivial = at least 3 instructions executed or a policy exit; distinct by case text",
        "hostile_cases": n_hostile - len(sweep) - len(codec),
        "sweep_cases": len(sweep),
        "codec_cases": len(codec),
        "codec_cases_by_result": {k: sum(1 for i in range(codec_lo, codec_lo + len(codec)) if status_class(results[i]) == k)
                                  for k in {status_class(results[i]) for i in range(codec_lo, codec_lo + len(codec))}},
        "compiled_cases": len(cases) - n_hostile,
        "instructions_executed_step_mode": steps_total,
        "executions_per_instruction_kind": per_kind_exec,
        "instruction_kinds_in_compiled_programs": compiled_kinds,
        "distribution": dist,
        "profiles": ["dev (debug-assertions on, overflow-checks on)", "nodebug (debug-assertions off, overflow-checks on)"],
        "panics": len(panics),
        "samples": [{"case": lines[i][:600], "impl": outs["dev"][i][:600]} for i in (0, n_hostile // 2, len(cases) - 1)],
    })
    ctx.assumptions += [
        "query iterators are finite sequences fixed at query time; FFI procedures act on the stack only through push/pop/peek",
        "Machine::serialize_struct / deserialize_struct (serialize.rs, property C26) are an oracle of the model",
        "recursion depth of Value clone/eq/drop is not modelled (Gallina has no stack); non-termination is not a panic",
        "a Vec<Instruction> / String has fewer than usize::MAX elements; FactCount's operand is an i64",
    ]
