"""C36 — wrapped keys are authenticated and bound to their type."""
import vlib

import crypto_common as cc

TYPES = {"sign": 5, "enc": 1, "group": 4, "psk": 3}


def run(ctx):
    cc.regen_mine(ctx)
    vlib.prove(ctx, extra_targets=["model/CryptoCases.vo"])
    binp = vlib.cargo_build(ctx, "hx-crypto", bin="c36")
    if not binp:
        return
    r = ctx.rng
    n = 60 if ctx.thorough else 8
    cases = []
    for _ in range(n):
        for ty in TYPES:
            cases.append((bytes(r.below(256) for _ in range(8)), bytes(r.below(256) for _ in range(8)), ty))
    lines = []
    for (es, ks, ty) in cases:
        lines.append("frame %s %s %s" % (es.hex(), ks.hex(), ty))
        lines.append("sweep %s %s %s" % (es.hex(), ks.hex(), ty))
    ol = cc.run_lines(ctx, binp, lines)
    if ol is None:
        return
    items, bad, nmut, kinds = [], [], 0, {}
    for i, (es, ks, ty) in enumerate(cases):
        head, wlog, ulog = ol[2 * i].split(" | ")
        kv = dict(x.split("=") for x in head.split())
        enc = cc.unhex(kv["wrapped"])
        if kv["back"] != kv["id"]:
            bad.append((i, "frame", "unwrap(wrap(key)) has another id"))
        wl, ul = cc.parse_log(wlog), cc.parse_log(ulog)
        S = [e for e in wl if e[0] == "S"]
        O = [e for e in ul if e[0] == "O"]
        th = [(e[1], e[2]) for e in wl + ul if e[0] == "H"]
        wrapped = (enc[1:33], enc[33:45], enc[45], enc[46:-16], enc[-16:]) if enc and enc[0] == 0x20 else (b"", b"", 99, b"", b"")
        items.append((i, [cc.unhex(x) for x in kv["oids"].split(",")], cc.unhex(kv["alg"]), TYPES[ty], cc.unhex(kv["id"]), th,
                      S[-1] if S else None, O[0] if O else None, wrapped))
        sw = dict(x.split("=", 1) for x in ol[2 * i + 1].split())
        m, k = cc.sweep_oracle(sw, {"base": "ok"}, bad, i)
        nmut += m
        for a, b in k.items():
            kinds[a] = kinds.get(a, 0) + b
    H = cc.coq_hex

    def render(chunk):
        its = []
        for (i, oids, alg, kc, kid, th, s, o, w) in chunk:
            sl = "(%s, %s, %s, %s, %s)" % (H(s[1]), H(s[2]), H(s[3]), H(s[5]), H(s[6])) if s else "([], [], [], [], [])"
            olg = "(%s, %s, %s, %s, %s)" % (H(o[1]), H(o[2]), H(o[3]), H(o[6]), H(o[4])) if o else "([], [], [], [], [])"
            its.append("(%s, %s, %d, %s, %s, %s, %s, (%s, %s, %d, %s, %s))" % (
                vlib.coq_list([H(x) for x in oids]), H(alg), kc, H(kid), vlib.coq_list(["(%s, %s)" % (H(a), H(b)) for a, b in th]),
                sl, olg, H(w[0]), H(w[1]), w[2], H(w[3]), H(w[4])))
        return "Definition cases : list c36_case := %s.\nEval vm_compute in (mismatches c36_chk cases).\n" % vlib.coq_list(its)
    mism = cc.eval_mismatches(ctx, "c36", items, render, shard=40)
    if mism is None:
        return
    ctx.coverage.update({
        "traces_validated_against_impl": len(cases),
        "evaluations": nmut + len(cases),
        "distinct_nontrivial": len({(c[0], c[1], c[2]) for c in cases}),
        "rule": "case = (engine key seed, key seed, key type in {SigningKey, EncryptionKey, GroupKey, PskSeed} = AlgId kinds Signing, Decap, Seed, Prk); "
                "`frame` wraps with the recording suite: the AD hash input, the AEAD call and the serialised WrappedKey fields must equal the model's; "
                "`sweep` unwraps under another engine key, as each other key type, and after a bit flip in every byte of the serialised wrapped key "
                "(id, nonce, variant tag, ciphertext, tag) and truncations; every case is non-trivial; distinct by seeds and type",
        "distribution": {"cases": len(cases), "by_type": {t: sum(1 for c in cases if c[2] == t) for t in TYPES},
                         "mutations_checked": nmut, "mutations_by_kind": kinds},
        "samples": [{"case": lines[2 * i], "wrapped": ol[2 * i].split()[3][:120]} for i in range(2)],
    })
    ctx.assumptions += ["hash collision-free (H injective)", "AEAD is an ideal (free-constructor) AEAD: open succeeds exactly on what seal produced under the same key, nonce, AD"]
    for (i, label, why) in bad[:3]:
        ctx.violation("wrapped key binding broken: " + why,
                      {"case": lines[2 * i + 1], "mutation": label, "contradicts": "wrapped_key_binds (coq/props/C36.v)",
                       "replay_cmd": "echo '%s' | %s   # look at `%s=`" % (lines[2 * i + 1], binp, label)})
    ctx.oblige("correspondence:wrap-framing=model", not mism, "model differs from the logged wrap on cases %s, first: %s" % (mism[:5], lines[2 * mism[0]] if mism else ""))
    ctx.oblige("oracle:mutations-fail", not bad, str(bad[:3]))
