"""C44 — channel loans are exclusive and freed exactly once.

Proof: coq/props/C44.v (counting invariant over every schedule of model/BiArc.v).
Correspondence: schedule replay of the real Lender/Loan (hooks at the swap / load /
free sites of lender.rs, tracking allocator with quarantine) against the model,
state digest after every event compared inside Coq.
"""
import itertools

import conc_util
import vlib

OPS = "lsgdDe"


def ev_code(tok):
    return 8 * int(tok[:-1]) + OPS.index(tok[-1])


def gen_cases(ctx):
    r = ctx.rng
    th = ctx.thorough
    cases = []
    alpha2 = ["%d%s" % (t, o) for t in (0, 1) for o in OPS]
    # (0) every accessor of the Loan (get_mut = g, get_ref = e) racing with the lender's drop:
    #     all interleavings of the accessor's steps with the drop's steps, both accessors
    for acc in "ge":
        for seq in itertools.product(["0" + acc, "1D", "0d", "1s"], repeat=6 if th else 5):
            cases.append(("ex-accessor-vs-lender-drop", "ex 2 " + " ".join(["0l", "0l"] + list(seq))))
    # (a) exhaustive prefixes over every (thread, op) pair, 2 threads, from the initial state
    for seq in itertools.product(alpha2, repeat=4 if th else 3):
        cases.append(("ex-2threads", "ex 2 " + " ".join(seq)))
    # (b) exhaustive after a prelude in which a loan is live and an access is in progress
    preludes = [["0l", "0l"], ["0l", "0l", "0g", "0g"], ["1l", "1l", "0D"], ["0l", "0l", "0e", "0e"]]
    for prelude in (preludes if th else preludes[1:]):
        for seq in itertools.product(alpha2, repeat=4 if th else 3):
            cases.append(("ex-prelude", "ex 2 " + " ".join(prelude + list(seq))))
    # (c) 3 threads, exhaustive short prefixes
    alpha3 = ["%d%s" % (t, o) for t in (0, 1, 2) for o in OPS]
    for seq in itertools.product(alpha3, repeat=3 if th else 2):
        cases.append(("ex-3threads", "ex 3 " + " ".join(["0l", "0l", "1g"] + list(seq))))
    # (d) random long runs, 2-4 threads
    for i in range(5000 if th else 300):
        n = r.choice([2, 2, 3, 3, 4])
        cases.append(("random", "rnd %d %d %d" % (n, r.next() >> 1, r.choice([20, 40, 80, 160]))))
    return cases


HEADER = """From Aranya Require Import base.Tactics base.Harness base.Interleave model.BiArc.
Open Scope N_scope.
Definition dec_op (n : N) : bop :=
  match n with 0 => OLend | 1 => OShared | 2 => OGet | 3 => ODropLoan | 4 => ODropLender | _ => OGetRef end.
Definition dec_ev (n : N) : bevent := BEv (N.to_nat (n / 8)) (dec_op (n mod 8)).
Definition chk (c : nat * list N * N * N) : bool :=
  let '(n, evs, d, f) := c in
  let '(d', f') := bdigest (map dec_ev evs) (binit n) in N.eqb d d' && N.eqb f f'.
"""

WHAT = {"dfree": "the shared data was freed twice", "uaf": "an operation used the data after it was freed",
        "excl": "two mutable accesses through loans in progress at once", "twoloans": "two live loans at once",
        "revoked": "a loan still got access after the lender's drop", "early": "the data was freed while a handle was still live",
        "leak": "both handles are gone but the data was never freed", "badval": "an access read a wrong (poisoned) value",
        "panic": "a client thread panicked", "hang": "a thread stopped reaching yield points"}


MEM_HEADER = """From Aranya Require Import base.Tactics base.Harness base.Interleave model.BiArc.
Open Scope N_scope.
(* one channel entry = the Lender; a seal/open context = a Loan (thread 0 of the model) *)
Definition pc0 (g : bstate) : bpc := match nth_error (th g) 0 with Some l => bpc_of l | None => BIdle end.
Definition res0 (g : bstate) : N := match nth_error (th g) 0 with Some l => res l | None => 0 end.
Definition finish_op (g : bstate) : bstate :=
  Nat.iter 4 (fun g => match pc0 g with BIdle => g | _ => exec btid bstep g (BEv 0%nat OGet) end) g.
Definition seq_op (o : N) (g : bstate) : N * bstate :=
  let op := match o with 0 => OLend | 1 => OGet | 2 => ODropLoan | _ => ODropLender end in
  if enabled btid bstep (BEv 0%nat op) g
  then let g' := finish_op (exec btid bstep g (BEv 0%nat op)) in
       (match o with
        | 0 => if res0 g' =? 1 then 1 else 0
        | 1 => if (res0 g' =? 3) || (res0 g' =? 8) then 1 else 0
        | _ => 1 end, g')
  else (match o with 0 => 0 | 1 => 2 | 2 => 2 | _ => 1 end, g).
Fixpoint seq_run (os : list N) (g : bstate) : list N :=
  match os with [] => [] | o :: r => let '(c, g') := seq_op o g in c :: seq_run r g' end.
Definition chk (c : list N * list N) : bool := lN_eqb (seq_run (fst c) (binit 1)) (snd c).
"""


def mem_oracle(ops, codes):
    """The property on the implementation's answers: once the entry is removed no context,
    old or new, reaches the channel; before that exactly one context at a time works."""
    removed, nctx = False, 0
    for o, c in zip(ops, codes):
        if o == "S":
            want = 1 if (not removed and nctx == 0) else 0
            if c == 1:
                nctx += 1
        elif o == "U":
            want = 2 if nctx == 0 else (0 if removed else 1)
        elif o == "D":
            want = 2 if nctx == 0 else 1
            if nctx:
                nctx -= 1
        else:
            want = 1
            removed = True
        if c != want:
            return "op %s answered %d, the contract requires %d" % (o, c, want)
    return None


def run_mem(ctx):
    """memory::State: setup_*_ctx -> remove / remove_all / remove_if -> seal/open through the old ctx."""
    binm = vlib.cargo_build(ctx, "hx-conc", bin="c44mem")
    if not binm:
        return {"built": False}
    lines = []
    depth = 6 if ctx.thorough else 5
    for kind in ("seal", "open"):
        for n in range(1, depth + 1):
            for seq in itertools.product("SUDRAF", repeat=n):
                lines.append(kind + " " + " ".join(seq))
    rc, out, err = conc_util.run_parallel(binm, lines)
    if rc != 0 or len(out) != len(lines):
        ctx.oblige("harness:run-mem", False, "rc=%d lines=%d/%d %s" % (rc, len(out), len(lines), err[-800:]))
        return {"built": True, "ran": False}
    items, bad = [], []
    for line, l in zip(lines, out):
        ops = line.split()[1:]
        if l.startswith("panic") or "|" not in l:
            bad.append((line, "panic", l))
            continue
        left, right = l.split("|", 1)
        codes = [int(x) for x in left.split()]
        why = mem_oracle(ops, codes)
        if "bystander=1" not in right:
            why = why or "an unrelated channel stopped working"
        if "after_remove_all=0" not in right:
            why = why or "a context still reached its channel after remove_all"
        if "!" in right:
            why = why or "unexpected error " + right
        if why:
            bad.append((line, why, l))
        items.append(([{"S": 0, "U": 1, "D": 2}.get(o, 3) for o in ops], codes))
    bad.sort(key=lambda b: (not b[1].startswith("op "), len(b[0])))
    for (line, why, l) in bad[:3]:
        ctx.violation("memory::State: a context kept (or lost) access against the contract: " + why,
                      {"case_line": line, "impl_answers": l, "why": why,
                       "legend": "ops: S setup ctx, U use newest ctx (seal/open), D drop ctx, R remove, A remove every test channel, F remove_if; "
                                 "codes: S 1 ok/0 NotFound; U 1 ok/0 NotFound/2 no ctx; D 1/2; removals 1",
                       "replay_cmd": "echo '%s' | build/target/debug/c44mem" % line,
                       "contradicts": "revoked_after_lender_drop / lend_exclusive (coq/props/C44.v)"})
    ctx.oblige("oracle:memory-state-ctx-revoked-after-remove", not bad, str(bad[:3]))

    def render(chunk):
        body = vlib.coq_list(chunk, lambda c: "(%s, %s)" % (vlib.coq_list(c[0]), vlib.coq_list(c[1])))
        return "Definition cases : list (list N * list N) := %s.\nEval vm_compute in (mismatches chk cases).\n" % body
    outs, chunks = vlib.coq_eval_sharded(ctx, "c44mem", MEM_HEADER, items, render, shard=max(500, (len(items) + 3) // 4), timeout=900)
    mism, base = [], 0
    for (rc3, o), ch in zip(outs, chunks):
        v = vlib.parse_coq_value(o) if rc3 == 0 else None
        if v is None:
            ctx.oblige("correspondence:mem-model-eval", False, o[-1500:])
            return {"built": True, "ran": True}
        mism += [base + j for j in v]
        base += len(ch)
    ctx.oblige("correspondence:mem-model=impl", not mism, "%d of %d op sequences differ; first: %s" % (len(mism), len(items), items[mism[0]] if mism else ""))
    return {"op_sequences": len(lines), "ops": sum(len(i[0]) for i in items), "mismatches": len(mism),
            "with_use_after_removal": sum(1 for ln in lines if any(a in "RAF" and "U" in ln.split()[1:][k + 1:] for k, a in enumerate(ln.split()[1:])))}


def run(ctx):
    vlib.regen(ctx)
    proved = vlib.prove(ctx)
    binp = vlib.cargo_build(ctx, "hx-conc", bin="c44")
    if not binp:
        return
    cases = gen_cases(ctx)
    rc, lines, err = conc_util.run_parallel(binp, [line for (_, line) in cases])
    out = ""
    if (rc not in (0, 3)) or (rc == 0 and len(lines) != len(cases)) or not lines:
        ctx.oblige("harness:run", False, "rc=%d lines=%d/%d %s" % (rc, len(lines), len(cases), (out[-600:] + err[-1500:])))
        return
    results, bad = [], []
    for i, l in enumerate(lines):
        parts = l.split()
        if len(parts) < 4:
            ctx.oblige("harness:output", False, l[:200])
            return
        results.append((int(parts[0]), int(parts[1]), parts[2], [int(x) for x in parts[3].split(":")], parts[4:]))
        if parts[2] != "ok":
            bad.append(i)
    cases = cases[:len(results)]

    def replay_of(i):
        fam, line = cases[i]
        rc2, out2, _ = vlib.run_bin(binp, args=["--trace"], input=line + "\n", timeout=120)
        tr = [l[2:] for l in out2.splitlines() if l.startswith("# ")]
        return {"family": fam, "case_line": line, "executed_events": " ".join(results[i][4]), "flags": results[i][2],
                "stats(events:lend_some:lend_none:get_some:get_none:drop_freed:drop_kept:shared)": results[i][3],
                "impl_trace(freed; per thread: site loans result)": tr[-40:],
                "replay_cmd": "echo '%s' | build/target/debug/c44 --trace" % line}, tr
    for i in bad[:3]:
        msg = "; ".join(WHAT.get(f, f) for f in results[i][2].split(","))
        rp, _ = replay_of(i)
        ctx.violation("lender/loan violates its contract under a replayed schedule: " + msg,
                      dict(rp, contradicts="lend_exclusive / revoked_after_lender_drop / freed_exactly_once (coq/props/C44.v)"))
    ctx.oblige("oracle:exclusive-revoked-freed-once-on-impl", not bad, str([(cases[i][1][:80], results[i][2]) for i in bad[:3]]))

    items = []
    for (fam, line), res in zip(cases, results):
        items.append((int(line.split()[1]), [ev_code(e) for e in res[4]], res[0], res[1]))

    def render(chunk):
        body = vlib.coq_list(chunk, lambda c: "(%d%%nat, %s, %d, %d)" % (c[0], vlib.coq_list(c[1]), c[2], c[3]))
        return "Definition cases : list (nat * list N * N * N) := %s.\nEval vm_compute in (mismatches chk cases).\n" % body
    shard = max(300, (len(items) + 5) // 6)
    outs, chunks = vlib.coq_eval_sharded(ctx, "c44", HEADER, items, render, shard=shard, timeout=1500)
    mism, base = [], 0
    for (rc3, o), ch in zip(outs, chunks):
        v = vlib.parse_coq_value(o) if rc3 == 0 else None
        if v is None:
            ctx.oblige("correspondence:model-eval", False, o[-2000:])
            return
        mism += [base + j for j in v]
        base += len(ch)
    detail = ""
    if mism:
        i = mism[0]
        n, codes, _, _ = items[i]
        body = "Eval vm_compute in (map bobs_digits (trace btid bstep (map dec_ev %s) (binit %d%%nat))).\n" % (vlib.coq_list(codes), n)
        rc4, o4 = vlib.coq_eval(ctx, "c44_trace", HEADER + body)
        mt = vlib.parse_coq_value(o4) if rc4 == 0 else None
        rp, tr = replay_of(i)
        full = [[int(x) for x in l.split()] for l in tr]
        step = next((k for k in range(min(len(full), len(mt or []))) if full[k] != mt[k]), None)
        detail = "case %d (%s): first divergence at event %s: impl %s vs model %s" % (
            i, cases[i][1][:120], step, full[step] if step is not None else None, mt[step] if (mt and step is not None) else None)
        if not bad:
            ctx.violation("schedule replay: the implementation no longer performs the model's steps (" + detail + ")",
                          dict(rp, model_trace=(mt or [])[:60], first_divergence=step), no_input=True)
    ctx.oblige("correspondence:model=impl", not mism, "%d of %d schedules differ; %s" % (len(mism), len(cases), detail))

    mem_info = run_mem(ctx)

    fams = {}
    names = ["events", "lend_some", "lend_none", "get_some", "get_none", "drop_freed", "drop_kept", "shared_reads"]
    for (fam, _), res in zip(cases, results):
        f = fams.setdefault(fam, dict({"cases": 0}, **{k: 0 for k in names}))
        f["cases"] += 1
        for k, v in zip(names, res[3]):
            f[k] += v
    nontrivial = {res[0] for res in results if res[3][2] or res[3][4] or (res[3][1] and res[3][3])}
    ctx.coverage.update({
        "traces_validated_against_impl": len(cases),
        "evaluations": sum(res[3][0] for res in results),
        "distinct_nontrivial": len(nontrivial),
        "rule": "a case is one schedule of client operations (lend / shared / get / drop loan / drop lender on 2-4 threads) "
                "replayed step by step on the real Lender/Loan and completed by a clean-up to quiescence; evaluations = events "
                "executed and compared; non-trivial = a lend was refused, a get was refused after revocation, or a loan was used; "
                "distinct by state-sequence digest",
        "distribution": fams,
        "memory_state_sequential": mem_info,
        "samples": [{"case": cases[i][1][:120], "events": len(results[i][4]), "stats": results[i][3], "flags": results[i][2]} for i in (0, len(cases) // 2, len(cases) - 1)],
    })
    ctx.assumptions += [
        "sequentially consistent interleaving of the swap / load / free steps (AcqRel/Acquire strength is not modelled)",
        "clients obey Rust's ownership rules (modelled as ghost state: a Loan is used by its owner, the Lender is not dropped during a &Lender call); each Loan is used by one thread at a time",
        "handing out &mut X through UnsafeCell is argued from lend_exclusive, not mechanised against Rust's aliasing model",
    ]
