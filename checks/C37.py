"""C37 — encryption round-trips and is bound to its context."""
import vlib

import crypto_common as cc

LABELS = ["l", "lab", "chat", "group_label", "x9"]


def run(ctx):
    cc.regen_mine(ctx)
    vlib.prove(ctx, extra_targets=["model/CryptoCases.vo"])
    binp = vlib.cargo_build(ctx, "hx-crypto", bin="c37")
    if not binp:
        return
    r = ctx.rng
    n = 120 if ctx.thorough else 12
    cases = []
    for _ in range(n):
        seed = bytes(r.below(256) for _ in range(8))
        label = r.choice(LABELS)
        parent = bytes(r.below(256) for _ in range(32))
        group = bytes(r.below(256) for _ in range(32))
        pt = bytes(r.below(256) for _ in range(r.choice([0, 1, 5, 16, 33, 64])))
        cases.append((seed, label, parent, group, pt))
    lines = []
    for (seed, label, parent, group, pt) in cases:
        args = "%s %s %s %s %s" % (seed.hex(), label.encode().hex(), parent.hex(), group.hex(), pt.hex() or "-")
        lines += ["frame " + args, "sweep " + args]
    # APQ topic keys: (seed, version, topic, plaintext)
    tcases = []
    for _ in range(n):
        tcases.append((bytes(r.below(256) for _ in range(8)),
                       r.choice([0, 1, 2, 255, 256, 65535, 0x01020304, 0x7FFFFFFF, 0xFFFFFFFF, r.below(1 << 32)]),
                       bytes(r.below(256) for _ in range(16)),
                       bytes(r.below(256) for _ in range(r.choice([0, 1, 5, 16, 33, 64])))))
    nbase = len(lines)
    for (seed, ver, topic, pt) in tcases:
        args = "%s %d %s %s" % (seed.hex(), ver, topic.hex(), pt.hex() or "-")
        lines += ["tframe " + args, "tsweep " + args]
    ol = cc.run_lines(ctx, binp, lines)
    if ol is None:
        return
    gk_items, hp_items, bad, nmut, kinds = [], [], [], 0, {}
    tm_items, tr_items = [], []
    for j, (seed, ver, topic, pt) in enumerate(tcases):
        li = nbase + 2 * j
        parts = ol[li].split(" || ")
        kv = dict(x.split("=") for x in parts[0].split())
        oids = [cc.unhex(x) for x in kv["oids"].split(",")]
        if kv["back"] != (pt.hex() or "-") or kv["same"] != "true":
            bad.append((li // 2, "tframe", "topic key round trip did not return the plaintext / topic key"))
        l0, l1, l2 = cc.parse_log(parts[1]), cc.parse_log(parts[2]), cc.parse_log(parts[3])
        th = [(e[1], e[2]) for e in l1 + l2 if e[0] == "H"]
        tx = [(e[2], e[3]) for e in l0 if e[0] == "X"]
        te = [(e[1] + e[2], e[3]) for e in l0 if e[0] == "E"]
        K1, S1 = [e for e in l1 if e[0] == "K"], [e for e in l1 if e[0] == "S"]
        K2, O2 = [e for e in l2 if e[0] == "K"], [e for e in l2 if e[0] == "O"]
        tseed = tx[0][0][-64:] if tx else b""
        if K1 and S1 and K2 and O2:
            tm_items.append((li // 2, oids, ver, topic, cc.unhex(kv["enc_id"]), cc.unhex(kv["sign_id"]), tseed, pt, cc.unhex(kv["sealed"]),
                             th, tx, te, (K1[-1][1], S1[-1][1], S1[-1][2], S1[-1][3], S1[-1][5], S1[-1][6]),
                             (K2[-1][1], O2[-1][1], O2[-1][2], O2[-1][3], O2[-1][6], O2[-1][4])))
        else:
            bad.append((li // 2, "tframe", "no AEAD call logged for TopicKey::seal_message / open_message"))
        for part, is_open in ((4, False), (5, True)):
            lg = cc.parse_log(parts[part])
            ikms = [e[2] for e in lg if e[0] == "X"]
            ads = [e[2] for e in lg if e[0] in ("S", "O")]
            tr_items.append((li // 2, oids, ver, topic, ikms, ads[0] if ads else b"", is_open))
        sw = dict(x.split("=", 1) for x in ol[li + 1].split())
        m, k = cc.sweep_oracle(sw, {"tm.base": "ok", "tr.base": "ok"}, bad, li // 2)
        nmut += m
        for a, b in k.items():
            kinds[a] = kinds.get(a, 0) + b
    for i, (seed, label, parent, group, pt) in enumerate(cases):
        parts = ol[2 * i].split(" || ")
        kv = dict(x.split("=") for x in parts[0].split())
        oids = [cc.unhex(x) for x in kv["oids"].split(",")]
        if kv["back"] != (pt.hex() or "-") or kv["same"] != "true":
            bad.append((i, "frame", "round trip did not return the plaintext / group key"))
        l1 = cc.parse_log(parts[1])
        th = [(e[1], e[2]) for e in l1 if e[0] == "H"]
        tx = [(e[2], e[3]) for e in l1 if e[0] == "X"]
        te = [(e[1] + e[2], e[3]) for e in l1 if e[0] == "E"]
        K = [e for e in l1 if e[0] == "K"]
        S = [e for e in l1 if e[0] == "S"]
        gseed = tx[0][0][-64:] if tx else b""
        if K and S:
            gk_items.append((i, oids, label.encode(), parent, cc.unhex(kv["author"]), gseed, pt, cc.unhex(kv["sealed"]), th, tx, te,
                             (K[-1][1], S[-1][1], S[-1][2], S[-1][3], S[-1][5], S[-1][6])))
        else:
            bad.append((i, "frame", "no AEAD call logged for GroupKey::seal"))
        for which, (a, b) in enumerate(((3, 4), (5, 6))):
            for part in (a, b):
                lg = cc.parse_log(parts[part])
                ikms = [e[2] for e in lg if e[0] == "X"]
                ads = [e[2] for e in lg if e[0] in ("S", "O")]
                hp_items.append((i, oids, group, ikms, ads[-1] if ads else b"", which))
        sw = dict(x.split("=", 1) for x in ol[2 * i + 1].split())
        m, k = cc.sweep_oracle(sw, {"gk.base": "ok", "sgk.base": "ok", "psk.base": "ok"}, bad, i)
        nmut += m
        for a, b in k.items():
            kinds[a] = kinds.get(a, 0) + b
    H = cc.coq_hex

    def tabs(t):
        return vlib.coq_list(["(%s, %s)" % (H(a), H(b)) for (a, b) in t])

    def render_gk(chunk):
        its = ["(%s, %s, %s, %s, %s, %s, %s, %s, %s, %s, (%s, %s, %s, %s, %s, %s))" % (
            vlib.coq_list([H(x) for x in oids]), H(label), H(parent), H(author), H(gseed), H(pt), H(sealed), tabs(th), tabs(tx), tabs(te),
            H(k[0]), H(k[1]), H(k[2]), H(k[3]), H(k[4]), H(k[5])) for (_, oids, label, parent, author, gseed, pt, sealed, th, tx, te, k) in chunk]
        return "Definition cases : list c37_gk_case := %s.\nEval vm_compute in (mismatches c37_gk_chk cases).\n" % vlib.coq_list(its)

    def render_hp(chunk):
        its = ["(%s, %s, %s, %s, %d)" % (vlib.coq_list([H(x) for x in oids]), H(group), vlib.coq_list([H(x) for x in ikms]), H(ad), which)
               for (_, oids, group, ikms, ad, which) in chunk]
        return "Definition cases : list c37_hpke_case := %s.\nEval vm_compute in (mismatches c37_hpke_chk cases).\n" % vlib.coq_list(its)
    def render_tm(chunk):
        its = []
        for (_, oids, ver, topic, enc_id, sign_id, tseed, pt, sealed, th, tx, te, k, o) in chunk:
            its.append("(%s, %d, %s, %s, %s, %s, %s, %s, %s, %s, %s, (%s), (%s))" % (
                vlib.coq_list([H(x) for x in oids]), ver, H(topic), H(enc_id), H(sign_id), H(tseed), H(pt), H(sealed), tabs(th), tabs(tx), tabs(te),
                ", ".join(H(x) for x in k), ", ".join(H(x) for x in o)))
        return "Definition cases : list c37_tmsg_case := %s.\nEval vm_compute in (mismatches c37_tmsg_chk cases).\n" % vlib.coq_list(its)

    def render_tr(chunk):
        its = ["(%s, %d, %s, %s, %s, %s)" % (vlib.coq_list([H(x) for x in oids]), ver, H(topic), vlib.coq_list([H(x) for x in ikms]), H(ad),
                                             "true" if is_open else "false") for (_, oids, ver, topic, ikms, ad, is_open) in chunk]
        return "Definition cases : list c37_trot_case := %s.\nEval vm_compute in (mismatches c37_trot_chk cases).\n" % vlib.coq_list(its)
    m1 = cc.eval_mismatches(ctx, "c37_gk", gk_items, render_gk, shard=40)
    m2 = cc.eval_mismatches(ctx, "c37_hp", hp_items, render_hp, shard=80)
    m3 = cc.eval_mismatches(ctx, "c37_tm", tm_items, render_tm, shard=40)
    m4 = cc.eval_mismatches(ctx, "c37_tr", tr_items, render_tr, shard=80)
    if m1 is None or m2 is None or m3 is None or m4 is None:
        return
    ctx.coverage.update({
        "traces_validated_against_impl": len(gk_items) + len(hp_items) + len(tm_items) + len(tr_items),
        "evaluations": nmut + 3 * len(cases) + 2 * len(tcases),
        "distinct_nontrivial": len({(c[1], c[2], c[3], c[4]) for c in cases if c[4]}),
        "rule": "case = (seed, label, parent id, group id, plaintext); `frame` runs GroupKey::seal/open, seal_group_key/open_group_key and "
                "seal_psk_seed/open_psk_seed with the recording suite: the context hash input, the KDF extract/expand inputs, the AEAD key/nonce/AD "
                "and the sealed bytes must equal the model's chain, and the HPKE info (info struct + suite OIDs) must be what the key schedule "
                "extracted and the AEAD's AD; `sweep` (default suite) changes every context component (label, parent byte-wise, author key, group "
                "byte-wise, recipient, sender), every ciphertext byte and the encapsulation; non-trivial = non-empty plaintext",
        "distribution": {"cases": len(cases), "topic_key_cases": len(tcases), "topic_versions": sorted({c[1] for c in tcases}), "mutations_checked": nmut, "mutations_by_kind": kinds,
                         "plaintext_lengths": sorted({len(c[4]) for c in cases})},
        "samples": [{"case": lines[2 * i]} for i in range(2)],
    })
    ctx.assumptions += ["hash collision-free; KDF, AEAD, HPKE key schedule and DH are ideal (free-constructor) primitives (ideal_aead, ideal_hpke, ideal_ctx_aead)",
                        "topic keys: version is 4 bytes, topic 16 bytes (fixed by the types)"]
    for (i, label, why) in bad[:3]:
        ctx.violation("context binding broken: " + why,
                      {"case": lines[2 * i + 1], "mutation": label, "contradicts": "seal_open_context / topic_seal_open_context (coq/props/C37.v)",
                       "replay_cmd": "echo '%s' | %s   # look at `%s=`" % (lines[2 * i + 1], binp, label)})
    ctx.oblige("correspondence:groupkey-chain=model", not m1, "cases %s, first: %s" % (m1[:5], lines[2 * gk_items[m1[0]][0]] if m1 else ""))
    ctx.oblige("correspondence:hpke-info=model", not m2, "items %s, first: %s" % (m2[:5], lines[2 * hp_items[m2[0]][0]] if m2 else ""))
    ctx.oblige("correspondence:topic-message-chain=model", not m3, "items %s, first: %s" % (m3[:5], lines[2 * tm_items[m3[0]][0]] if m3 else ""))
    ctx.oblige("correspondence:topic-key-hpke-info=model", not m4, "items %s, first: %s" % (m4[:5], lines[2 * tr_items[m4[0]][0]] if m4 else ""))
    ctx.oblige("oracle:mutations-fail", not bad, str(bad[:3]))
