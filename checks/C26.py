"""C26 — command struct serialization round-trips and rejects bad input.

proof:           coq/props/C26.v (model/Varint.v + model/Ser.v; generated constants / variant lists in gen/GenSer.v)
correspondence:  harness/hx-codec-cli/src/bin/c26.rs drives the real Machine::serialize_struct / deserialize_struct on
                 generated (schema set, value) pairs and on truncated / extended / mutated / poisoned / random byte
                 strings; every result (exact bytes, exact value, error class) is compared inside Coq with
                 Ser.serialize_struct / Ser.deserialize_struct
oracle:          the property text on the implementation's own outputs: de(ser v) = v; every strict prefix, every
                 extension and every input poisoned in a known way (bad option/result tag, enum value outside the
                 definition, NUL / invalid UTF-8 text, id length != 32) is rejected; nothing panics
"""
import json
import os
import subprocess

import vlib

U64 = 1 << 64


# ---------------------------------------------------------------- reference encoder (used to craft inputs)

def varint(n):
    out = []
    while True:
        if n < 128:
            out.append(n)
            return bytes(out)
        out.append((n & 0x7F) | 0x80)
        n >>= 7


def zigzag(z):
    return (z << 1) if z >= 0 else ((-z) << 1) - 1


class Poison(Exception):
    pass


def enc_value(defs, v, poison=None, path=()):
    """postcard encoding of a value; `poison` = (path, kind) replaces the encoding of the node at `path`."""
    k = v[0]
    hit = poison is not None and poison[0] == path
    if k == "u":
        return b""
    if k == "i":
        return varint(zigzag(v[1]))
    if k == "b":
        return bytes([1 if v[1] else 0])
    if k in ("s", "y"):
        if hit and poison[1] == "nul":
            b = v[1] + b"\x00" + v[1][:1]
            return varint(len(b)) + b
        if hit and poison[1] == "utf8":
            b = v[1] + poison[2]
            return varint(len(b)) + b
        return varint(len(v[1])) + v[1]
    if k == "d":
        if hit and poison[1] == "idlen":
            return bytes([poison[2]]) + v[1]
        return bytes([32]) + v[1]
    if k == "e":
        if hit and poison[1] == "enum":
            return varint(zigzag(poison[2]))
        return varint(zigzag(v[2]))
    if k == "t":
        fields = dict(v[2])
        return b"".join(enc_value(defs, fields[f], poison, path + (f,)) for (f, _) in defs[v[1]])
    if k == "N":
        return bytes([poison[2]]) if hit and poison[1] == "tag" else b"\x00"
    if k in ("J", "X"):
        return (bytes([poison[2]]) if hit and poison[1] == "tag" else b"\x01") + enc_value(defs, v[1], poison, path + ("*",))
    if k == "O":
        return (bytes([poison[2]]) if hit and poison[1] == "tag" else b"\x00") + enc_value(defs, v[1], poison, path + ("*",))
    raise Poison("internal value")


def nodes(v, path=()):
    """(path, value) of every node"""
    yield path, v
    if v[0] == "t":
        for f, x in v[2]:
            yield from nodes(x, path + (f,))
    elif v[0] in ("J", "O", "X"):
        yield from nodes(v[1], path + ("*",))


# ---------------------------------------------------------------- schema and value generators

INVALID_UTF8 = [b"\xff", b"\xc0\xaf", b"\xe0\x80\xaf", b"\xed\xa0\x80", b"\xf4\x90\x80\x80", b"\xc3", b"\xe2\x82", b"\xf0\x9f\x98",
                b"\x80", b"\xf8\x88\x80\x80\x80", b"\xc1\xbf", b"\xf0\x80\x80\x80", b"\xed\xbf\xbf"]
TEXTS = [b"", b"a", b"hello", "é".encode(), "€uro".encode(), "𝄞".encode(), b"\x7f", b"\x01tab\t", "퟿".encode(), "\U0010ffff".encode(),
         b"x" * 127, b"y" * 128, b"z" * 300]
INTS = [0, 1, -1, 2, -2, 63, 64, -64, -65, 127, 128, 8191, 8192, -8193, 2 ** 31, -2 ** 31, 2 ** 62, 2 ** 62 - 1, -2 ** 62, -2 ** 62 - 1,
        2 ** 63 - 1, -2 ** 63, 2 ** 63 - 2, -2 ** 63 + 1, 300, -300, 10 ** 12]


def gen_type(r, nstructs, self_idx, enums, depth, allow_never=False):
    """a type for a field of struct `self_idx`; struct references only go to higher-numbered structs (acyclic)"""
    k = r.below(14 if depth < 3 else 9)
    if k <= 1:
        return ("i",)
    if k == 2:
        return ("b",)
    if k == 3:
        return ("s",)
    if k == 4:
        return ("y",)
    if k == 5:
        return ("d",)
    if k == 6:
        return ("u",)
    if k == 7 and enums:
        return ("E", r.choice(sorted(enums)))
    if k == 8 and self_idx < nstructs:
        return ("S", r.range(self_idx + 1, nstructs))
    if k in (9, 10):
        return ("o", gen_type(r, nstructs, self_idx, enums, depth + 1, allow_never))
    if k in (11, 12):
        return ("r", gen_type(r, nstructs, self_idx, enums, depth + 1, True), gen_type(r, nstructs, self_idx, enums, depth + 1, True))
    if k == 13 and allow_never:
        return ("n",)
    return ("i",)


def gen_schema(r):
    enums = {}
    for e in range(1, r.range(0, 3) + 1):
        nv = r.range(0, 4)
        enums[e] = [(i + 1, r.choice([0, 1, 2, 3, -1, 5, 100, -2 ** 63, 2 ** 63 - 1, r.range(0, 6)])) for i in range(nv)]
    n = r.range(1, 5)
    defs = {}
    for s in range(1, n + 1):
        nf = r.choice([0, 1, 1, 2, 2, 3, 4, 6])
        names = r.shuffle(list(range(1, 10)))[:nf]
        defs[s] = [(f, gen_type(r, n, s, enums, 0)) for f in names]
    return defs, enums


def inhabited(defs, enums, t, seen=()):
    k = t[0]
    if k == "n":
        return False
    if k == "E":
        return bool(enums.get(t[1]))
    if k == "S":
        return all(inhabited(defs, enums, ft) for _, ft in defs[t[1]])
    if k == "r":
        return inhabited(defs, enums, t[1]) or inhabited(defs, enums, t[2])
    return True


def gen_value(r, defs, enums, t):
    k = t[0]
    if k == "u":
        return ("u",)
    if k == "i":
        return ("i", r.choice(INTS) if r.chance(2, 3) else r.range(-2 ** 63, 2 ** 63 - 1))
    if k == "b":
        return ("b", r.chance(1, 2))
    if k == "s":
        return ("s", r.choice(TEXTS))
    if k == "y":
        return ("y", r.choice(TEXTS + [b"\x00", b"\x00\xff\x80", bytes(range(256))]))
    if k == "d":
        return ("d", bytes(r.below(256) for _ in range(32)) if r.chance(2, 3) else bytes([r.choice([0, 255, 32])]) * 32)
    if k == "E":
        return ("e", t[1], r.choice(enums[t[1]])[1])
    if k == "S":
        return gen_struct(r, defs, enums, t[1])
    if k == "o":
        if r.chance(1, 3) or not inhabited(defs, enums, t[1]):
            return ("N",)
        return ("J", gen_value(r, defs, enums, t[1]))
    if k == "r":
        oks, errs = inhabited(defs, enums, t[1]), inhabited(defs, enums, t[2])
        if oks and (not errs or r.chance(1, 2)):
            return ("O", gen_value(r, defs, enums, t[1]))
        return ("X", gen_value(r, defs, enums, t[2]))
    raise ValueError("uninhabited")


def gen_struct(r, defs, enums, s):
    return ("t", s, [(f, gen_value(r, defs, enums, ft)) for f, ft in r.shuffle(list(defs[s]))])


# ---------------------------------------------------------------- rendering

def ty_txt(t):
    k = t[0]
    if k in "usyibdn":
        return k
    if k in "SE":
        return "%s%d." % (k, t[1])
    if k == "o":
        return "o" + ty_txt(t[1])
    return "r" + ty_txt(t[1]) + ty_txt(t[2])


def schema_txt(defs, enums):
    s = ";".join("%d:%s" % (n, ",".join("%d=%s" % (f, ty_txt(t)) for f, t in items)) for n, items in defs.items()) or "-"
    e = ";".join("%d:%s" % (n, ",".join("%d=%d" % (v, z) for v, z in vs)) for n, vs in enums.items()) or "-"
    return s + " " + e


def val_txt(v):
    k = v[0]
    if k in "uNF":
        return k
    if k == "i":
        return "i%d." % v[1]
    if k == "b":
        return "b1" if v[1] else "b0"
    if k in "syd":
        return "%s%s." % (k, v[1].hex())
    if k == "e":
        return "e%d:%d." % (v[1], v[2])
    if k == "I":
        return "I%d." % v[1]
    if k == "t":
        return "t%d{%s}" % (v[1], ",".join("%d=%s" % (f, val_txt(x)) for f, x in v[2]))
    return k + val_txt(v[1])


def parse_val(s):
    """inverse of the harness' `show`"""
    pos = [0]

    def until(c):
        j = s.index(c, pos[0])
        x = s[pos[0]:j]
        pos[0] = j + 1
        return x

    def val():
        k = s[pos[0]]
        pos[0] += 1
        if k in "uNF":
            return (k,)
        if k == "i":
            return ("i", int(until(".")))
        if k == "b":
            pos[0] += 1
            return ("b", s[pos[0] - 1] == "1")
        if k in "syd":
            return (k, bytes.fromhex(until(".")))
        if k == "e":
            n = int(until(":"))
            return ("e", n, int(until(".")))
        if k == "I":
            return ("I", int(until(".")))
        if k == "t":
            n = int(until("{"))
            fs = []
            if s[pos[0]] == "}":
                pos[0] += 1
                return ("t", n, fs)
            while True:
                f = int(until("="))
                fs.append((f, val()))
                pos[0] += 1
                if s[pos[0] - 1] == "}":
                    return ("t", n, fs)
        return (k, val())
    return val()


def canon(v):
    """the value as the BTreeMap holds it: struct fields sorted by name"""
    if v[0] == "t":
        return ("t", v[1], sorted((f, canon(x)) for f, x in dict(v[2]).items()))
    if v[0] in ("J", "O", "X"):
        return (v[0], canon(v[1]))
    return v


def ty_coq(t):
    k = t[0]
    simple = {"u": "TUnit", "s": "TString", "y": "TBytes", "i": "TInt", "b": "TBool", "d": "TId", "n": "TNever"}
    if k in simple:
        return simple[k]
    if k == "S":
        return "(TStruct %d)" % t[1]
    if k == "E":
        return "(TEnum %d)" % t[1]
    if k == "o":
        return "(TOptional %s)" % ty_coq(t[1])
    return "(TResult %s %s)" % (ty_coq(t[1]), ty_coq(t[2]))


def z_coq(z):
    return "(%d)%%Z" % z


def fields_coq(fs):
    return vlib.coq_list(sorted(dict(fs).items()), lambda p: "(%d, %s)" % (p[0], val_coq(p[1])))


def val_coq(v):
    k = v[0]
    if k == "u":
        return "VUnit"
    if k == "i":
        return "(VInt %s)" % z_coq(v[1])
    if k == "b":
        return "(VBool %s)" % ("true" if v[1] else "false")
    if k == "s":
        return "(VString %s)" % vlib.coq_bytes(v[1])
    if k == "y":
        return "(VBytes %s)" % vlib.coq_bytes(v[1])
    if k == "d":
        return "(VId %s)" % vlib.coq_bytes(v[1])
    if k == "e":
        return "(VEnum %d %s)" % (v[1], z_coq(v[2]))
    if k == "I":
        return "(VIdentifier %d)" % v[1]
    if k == "F":
        return "VFact"
    if k == "N":
        return "VNone"
    if k == "t":
        return "(VStruct %d %s)" % (v[1], fields_coq(v[2]))
    return "(%s %s)" % ({"J": "VSome", "O": "VOk", "X": "VErr"}[k], val_coq(v[1]))


def defs_coq(defs):
    return vlib.coq_list(defs.items(), lambda p: "(%d, %s)" % (p[0], vlib.coq_list(p[1], lambda q: "(%d, %s)" % (q[0], ty_coq(q[1])))))


def enums_coq(enums):
    return vlib.coq_list(enums.items(), lambda p: "(%d, %s)" % (p[0], vlib.coq_list(p[1], lambda q: "(%d, %s)" % (q[0], z_coq(q[1])))))


def res_coq(op, out):
    """the implementation's answer as a Coq term of the model's result type"""
    f = out.split()
    if f[0] == "err":
        cls, _, arg = f[1].partition(":")
        pre = "S" if op == "ser" else "D"
        return "(Err %s)" % ("(%s%s %s)" % (pre, cls, arg) if arg else pre + cls)
    if op == "ser":
        return "(Ok %s)" % vlib.coq_bytes(b"" if f[1] == "-" else bytes.fromhex(f[1]))
    return "(Ok %s)" % val_coq(parse_val(f[1]))


# ---------------------------------------------------------------- the check

def model_fresh(ctx, files):
    """the .vo files the cases files import must have been rebuilt from the current sources (a failed build leaves
    older ones behind, and a comparison against a stale model would be meaningless)"""
    stale = []
    for f in files:
        v, vo = os.path.join(vlib.COQ, f + ".v"), os.path.join(vlib.COQ, f + ".vo")
        if not os.path.exists(vo) or os.path.getmtime(vo) < os.path.getmtime(v):
            stale.append(f)
    if stale:
        ctx.oblige("correspondence:model-eval", False, "the model was not rebuilt from the regenerated sources: %s" % stale)
    return not stale


def regen_own(ctx):
    """see checks/C31.py: only this unit's generators are run (GenSer.v; Ser.v's cone does not need GenCli.v,
    but both files of the plug-in are kept fresh)."""
    import sys
    sys.path.insert(0, os.path.join(vlib.ROOT, "tools"))
    import gen as gen_mod
    gen_mod.load_plugins()
    mine = [g for g in gen_mod.GENERATORS if g.__module__ == "gen_codec_cli" and g.__name__ == "gen_ser"]
    problems = [] if mine else ["generator gen_ser not registered"]
    with vlib.Lock("coq"):
        for g in mine:
            try:
                name, text, probs = g(vlib.REPO)
            except Exception as e:
                problems.append("%s: %r" % (g.__name__, e))
                continue
            problems += probs
            path = os.path.join(vlib.COQ, "gen", name)
            os.makedirs(os.path.dirname(path), exist_ok=True)
            if not os.path.exists(path) or open(path).read() != text:
                with open(path, "w") as f:
                    f.write(text)
    ctx.oblige("translator:regen", not problems, "; ".join(problems))
    return not problems


def run_impl(ctx, binp, lines):
    rc, out, err = vlib.run_bin(binp, input="".join(l + "\n" for l in lines))
    res = out.splitlines()
    if rc != 0 or len(res) != len(lines):
        ctx.oblige("harness:run:c26", False, "rc=%s lines=%d/%d %s" % (rc, len(res), len(lines), err[-1500:]))
        return None
    return res


def run(ctx):
    regen_own(ctx)
    vlib.prove(ctx, extra_targets=["model/SerCmp.vo"])
    binp = vlib.cargo_build(ctx, "hx-codec-cli", bin="c26")
    if not binp:
        return
    r = ctx.rng
    T = ctx.thorough
    cases = []      # dict(op, defs, enums, kind, ...)

    def add(op, defs, enums, kind, **kw):
        cases.append(dict(op=op, defs=defs, enums=enums, kind=kind, **kw))

    if ctx.replay_in:
        rp = json.load(open(ctx.replay_in))
        c = rp["case"]
        defs = {int(k): [(f, tuple_ty(t)) for f, t in v] for k, v in c["defs"].items()}
        enums = {int(k): [tuple(x) for x in v] for k, v in c["enums"].items()}
        if c["op"] == "de":
            add("de", defs, enums, c.get("kind", "replay"), name=c["name"], data=bytes.fromhex(c["bytes_hex"]), expect=c.get("expect"))
        else:
            add("ser", defs, enums, c.get("kind", "replay"), value=parse_val(c["value"]))
    else:
        nschemas = 1600 if T else 40
        for _ in range(nschemas):
            defs, enums = gen_schema(r)
            roots = [s for s in defs if inhabited(defs, enums, ("S", s))]
            for _ in range(r.range(1, 3)):
                if not roots:
                    break
                s = r.choice(roots)
                v = gen_struct(r, defs, enums, s)
                add("ser", defs, enums, "roundtrip", value=v)
                enc = enc_value(defs, v)
                add("de", defs, enums, "valid", name=s, data=enc, expect="ok", value=v)
                # every strict prefix (all of them when short, a sample otherwise)
                cuts = range(len(enc)) if len(enc) <= (40 if T else 12) else sorted({r.below(len(enc)) for _ in range(8 if T else 4)} | {len(enc) - 1})
                for k in cuts:
                    add("de", defs, enums, "truncated", name=s, data=enc[:k], expect="err", value=v)
                for _ in range(2):
                    extra = bytes(r.below(256) for _ in range(r.choice([1, 1, 2, 5])))
                    add("de", defs, enums, "extended", name=s, data=enc + extra, expect="err", value=v)
                # poisoned encodings: one node of the value re-encoded in a forbidden way
                ns = list(nodes(v))
                for _ in range(6 if T else 3):
                    path, node = r.choice(ns)
                    p = None
                    if node[0] in ("N", "J", "O", "X"):
                        p = (path, "tag", r.choice([2, 3, 127, 128, 255, r.range(2, 255)]))
                    elif node[0] == "e":
                        allowed = {z for _, z in enums[node[1]]}
                        z = r.choice([x for x in [0, 1, 2, 3, 4, 7, -1, -7, 99, 2 ** 63 - 1, -2 ** 63, 12345] if x not in allowed])
                        p = (path, "enum", z)
                    elif node[0] == "s":
                        p = (path, "nul") if r.chance(1, 2) else (path, "utf8", r.choice(INVALID_UTF8))
                    elif node[0] == "d":
                        p = (path, "idlen", r.choice([0, 1, 31, 33, 64, 255, r.below(32)]))
                    if p:
                        add("de", defs, enums, "poison:" + p[1], name=s, data=enc_value(defs, v, p), expect="err", value=v)
                # unstructured damage: no expectation, model and implementation must simply agree
                for _ in range(4 if T else 2):
                    if enc:
                        b = bytearray(enc)
                        for _ in range(r.range(1, 3)):
                            b[r.below(len(b))] = r.choice([0, 1, 2, 0x7F, 0x80, 0xFF, r.below(256)])
                        add("de", defs, enums, "mutated", name=s, data=bytes(b), expect=None)
                add("de", defs, enums, "random", name=s, data=bytes(r.choice([0, 1, 2, 32, 0x80, 0xFF, r.below(256)]) for _ in range(r.below(40))), expect=None)
                # values that do not conform: serialization must fail the way the model says
                k = r.below(6)
                fs = list(v[2])
                if k == 0:
                    add("ser", defs, enums, "nonconforming:unknown_struct", value=("t", 77, fs))
                elif k == 1 and fs:
                    add("ser", defs, enums, "nonconforming:missing_field", value=("t", s, fs[1:]))
                elif k == 2:
                    add("ser", defs, enums, "nonconforming:extra_field", value=("t", s, fs + [(55, ("i", 1))]))
                elif k == 3 and fs:
                    add("ser", defs, enums, "nonconforming:renamed_field", value=("t", s, [(66, fs[0][1])] + fs[1:]))
                elif k == 4 and fs:
                    i = r.below(len(fs))
                    add("ser", defs, enums, "nonconforming:internal_value", value=("t", s, fs[:i] + [(fs[i][0], r.choice([("F",), ("I", 3), ("J", ("F",))]))] + fs[i + 1:]))
                elif fs:
                    i = r.below(len(fs))
                    add("ser", defs, enums, "nonconforming:wrong_type", value=("t", s, fs[:i] + [(fs[i][0], r.choice([("i", 5), ("N",), ("s", b"q"), ("e", 9, 4)]))] + fs[i + 1:]))
            # schema-level corners
            s = r.choice(sorted(defs))
            add("de", defs, enums, "unknown_struct", name=99, data=b"\x00", expect="err")
        # varint corners through an `int` field, and a struct with duplicate field names / unknown enum / never
        d1 = {1: [(1, ("i",))]}
        for data in [b"\x80\x00", b"\x80\x80\x00", b"\xff" * 9 + b"\x01", b"\xff" * 9 + b"\x02", b"\xff" * 9 + b"\x7f", b"\xff" * 10, b"\xff" * 10 + b"\x00",
                     b"\x80" * 9 + b"\x01", b"\x80" * 9 + b"\x00", b"\x80" * 9 + b"\x81", b"\xfe" + b"\xff" * 8 + b"\x01", b"\x00", b"\x01", b"\x7f", b""]:
            add("de", d1, {}, "varint_corner", name=1, data=data, expect=None)
        d2 = {1: [(1, ("i",)), (1, ("b",))], 2: [(1, ("E", 5))], 3: [(1, ("n",))], 4: [(2, ("o", ("n",)))], 5: []}
        for name, data in [(1, b"\x04\x01"), (1, b"\x04"), (2, b"\x00"), (3, b""), (3, b"\x00"), (4, b"\x00"), (4, b"\x01"), (5, b""), (5, b"\x00")]:
            add("de", d2, {}, "schema_corner", name=name, data=data, expect=None)
        add("ser", d2, {}, "schema_corner", value=("t", 1, [(1, ("i", 2))]))
        add("ser", d2, {}, "schema_corner", value=("t", 5, []))
        # length prefixes that exceed the input / are huge
        d3 = {1: [(1, ("y",)), (2, ("s",))]}
        for data in [b"\x05ab", b"\xff\xff\xff\xff\xff\xff\xff\xff\xff\x01", b"\x00\x00", b"\x01\x00\x01\x00", b"\x02\xc3\xa9\x02\xc3\xa9", b"\x00\x03\xe2\x82\xac",
                     b"\x00\x03\xed\xa0\x80", b"\x00\x04\xf0\x9f\x98\x80", b"\x00\x04\xf4\x90\x80\x80", b"\x00\x02\xc0\x80", b"\x00\x01\x80"]:
            add("de", d3, {}, "length_corner", name=1, data=data, expect=None)
        # UTF-8: every 1- and 2-byte string prefix class, a sample of 3/4-byte ones, against the model's DFA
        d4 = {1: [(1, ("s",))]}
        seeds = [bytes([a]) for a in range(256)] if T else [bytes([a]) for a in (0, 1, 0x7F, 0x80, 0xBF, 0xC0, 0xC1, 0xC2, 0xDF, 0xE0, 0xED, 0xEF, 0xF0, 0xF4, 0xF5, 0xFF)]
        for a in seeds:
            add("de", d4, {}, "utf8", name=1, data=varint(len(a)) + a, expect=None)
        if T:
            # every 2-byte string whose first byte is not ASCII (ASCII-first strings reduce to the 1-byte cases)
            for a in range(0x80, 0x100):
                for b2 in range(0x100):
                    add("de", d4, {}, "utf8", name=1, data=bytes([2, a, b2]), expect=None)
        lead = [0xC2, 0xDF, 0xE0, 0xE1, 0xEC, 0xED, 0xEE, 0xEF, 0xF0, 0xF1, 0xF3, 0xF4]
        edge = [0x7F, 0x80, 0x8F, 0x90, 0x9F, 0xA0, 0xBF, 0xC0]
        for _ in range(12000 if T else 250):
            l = r.choice(lead)
            n = 1 if l < 0xE0 else 2 if l < 0xF0 else 3
            b = bytes([l] + [r.choice(edge) for _ in range(r.choice([n, n, n, n - 1, n + 1]))])
            if r.chance(1, 4):
                b = r.choice([b"a", "é".encode()]) + b + r.choice([b"", b"z"])
            add("de", d4, {}, "utf8", name=1, data=varint(len(b)) + b, expect=None)

    # ---- implementation
    lines = []
    for c in cases:
        sc = schema_txt(c["defs"], c["enums"])
        if c["op"] == "ser":
            lines.append("%s %s %s" % ("rt" if c["kind"] == "roundtrip" else "ser", sc, val_txt(c["value"])))
        else:
            lines.append("de %s %d %s" % (sc, c["name"], c["data"].hex() or "-"))
    impl = run_impl(ctx, binp, lines)
    if impl is None:
        return

    # ---- oracle on the implementation's own outputs
    bad = []
    for i, (c, o) in enumerate(zip(cases, impl)):
        f = o.split()
        if o == "panic":
            bad.append((i, "the codec panicked"))
        elif c["kind"] == "roundtrip":
            if f[0] != "ok":
                bad.append((i, "a conforming value did not round-trip: %s" % o))
            else:
                if canon(parse_val(f[2])) != canon(c["value"]):
                    bad.append((i, "deserialize(serialize(v)) differs from v"))
                elif bytes.fromhex(f[1].replace("-", "")) != enc_value(c["defs"], c["value"]):
                    bad.append((i, "serialization is not the postcard encoding of the value in schema order"))
        elif c.get("expect") == "ok":
            if f[0] != "ok" or canon(parse_val(f[1])) != canon(c["value"]):
                bad.append((i, "the encoding of a conforming value was not decoded to that value: %s" % o[:80]))
        elif c.get("expect") == "err" and f[0] != "err":
            bad.append((i, "%s input accepted: %s" % (c["kind"], o[:80])))
        elif c["kind"] == "truncated" and f[1] != "UnexpectedEnd":
            bad.append((i, "a strict prefix of a valid encoding fails with %s, not UnexpectedEnd" % f[1]))
        elif c["kind"] == "extended" and f[1] != "TrailingData":
            bad.append((i, "a valid encoding followed by extra bytes fails with %s, not TrailingData" % f[1]))
        elif c["kind"].startswith("poison:") and f[1] != "BadInput":
            bad.append((i, "%s fails with %s, not BadInput" % (c["kind"], f[1])))
        elif c["kind"].startswith("nonconforming:") and c["kind"] != "nonconforming:wrong_type" and f[0] != "err":
            bad.append((i, "%s value was serialized" % c["kind"]))

    # ---- model = implementation, inside Coq
    def render(chunk):
        out = []
        for (c, o) in chunk:
            if o == "panic":
                out.append("CDe [] [] 0 [] (Err DOutOfFuel)")     # never equal: a panic is always a mismatch
                continue
            if c["op"] == "ser":
                o2 = o
                if c["kind"] == "roundtrip" and o.startswith("ok"):
                    o2 = "ok " + o.split()[1]
                elif c["kind"] == "roundtrip" and "after-ser" in o:
                    o2 = "ok " + o.split()[-1]
                v = c["value"]
                out.append("CSer %s %d %s %s" % (defs_coq(c["defs"]), v[1], fields_coq(v[2]), res_coq("ser", o2)))
                if c["kind"] == "roundtrip":
                    b = bytes.fromhex(o2.split()[1].replace("-", ""))
                    o3 = "ok " + o.split()[2] if o.startswith("ok") else " ".join(o.split()[:2])
                    out.append("CDe %s %s %d %s %s" % (defs_coq(c["defs"]), enums_coq(c["enums"]), v[1], vlib.coq_bytes(b), res_coq("de", o3)))
            else:
                out.append("CDe %s %s %d %s %s" % (defs_coq(c["defs"]), enums_coq(c["enums"]), c["name"], vlib.coq_bytes(c["data"]), res_coq("de", o)))
        return "Definition cases : list ccase := %s.\nEval vm_compute in (mismatches ccase_ok cases).\n" % vlib.coq_list(out)

    header = "From Aranya Require Import base.Tactics base.Harness model.Varint model.Ser model.SerCmp.\nOpen Scope N_scope.\n"
    pairs = list(zip(cases, impl))
    ok_eval = model_fresh(ctx, ["gen/GenSer", "model/Varint", "model/Ser", "model/SerCmp"])
    outs, chunks = vlib.coq_eval_sharded(ctx, "c26", header, pairs if ok_eval else [], render, shard=1200 if T else 150)
    mism, base = [], 0
    for (rc, o), ch in zip(outs, chunks):
        v = vlib.parse_coq_value(o) if rc == 0 else None
        if v is None:
            ctx.oblige("correspondence:model-eval", False, o[-2000:])
            ok_eval = False
            break
        # a roundtrip case contributes two entries: map entry index back to case index
        idx = []
        for k, (c, o2) in enumerate(ch):
            idx.append(base + k)
            if c["kind"] == "roundtrip" and o2 != "panic":
                idx.append(base + k)
        mism += [idx[j] for j in v]
        base += len(ch)
    mism = sorted(set(mism))

    # ---- the open finding F26cyc: a cyclic struct schema (only constructible by hand) makes deserialization recurse forever
    f12 = None
    if not ctx.replay_in:
        p = subprocess.run([binp], input=b"de 1:1=S1. - 1 00\n", stdout=subprocess.PIPE, stderr=subprocess.PIPE, timeout=120)
        aborted = p.returncode < 0 or b"overflowed its stack" in p.stderr
        f12 = {"returncode": p.returncode, "stdout": p.stdout.decode("utf-8", "replace")[:200], "stack_overflow": aborted}
        known = [f for f in ctx.known_findings() if f.get("id") == "F26cyc"]
        if aborted and known:
            ctx.report_known(known[0], "F26cyc deserialize_struct overflows the stack on a cyclic struct schema (struct s1 { f1 struct s1 }; not producible by the compiler)")
        elif aborted:
            ctx.violation("deserialize_struct aborts the process (stack overflow) on a cyclic struct schema",
                          {"case": {"op": "de", "defs": {"1": [[1, ["S", 1]]]}, "enums": {}, "name": 1, "bytes_hex": "00", "kind": "cyclic_schema"},
                           "impl": f12, "replay_cmd": "echo 'de 1:1=S1. - 1 00' | build/target/debug/c26"})

    # ---- coverage
    kinds = {}
    for c, o in zip(cases, impl):
        k = "%s/%s -> %s" % (c["op"], c["kind"], " ".join(o.split()[:2]) if o.startswith("err") else o.split()[0])
        kinds[k] = kinds.get(k, 0) + 1
    tys = {}

    def count_ty(t):
        tys[t[0]] = tys.get(t[0], 0) + 1
        for x in t[1:]:
            if isinstance(x, tuple):
                count_ty(x)
    seen_schema = set()
    for c in cases:
        key = schema_txt(c["defs"], c["enums"])
        if key not in seen_schema:
            seen_schema.add(key)
            for items in c["defs"].values():
                for _, t in items:
                    count_ty(t)
    rts = [c for c in cases if c["kind"] == "roundtrip"]
    ctx.coverage.update({
        "traces_validated_against_impl": len(cases),
        "evaluations": len(cases) + len(rts),
        "distinct_nontrivial": len({(schema_txt(c["defs"], c["enums"]), val_txt(canon(c["value"]))) for c in rts
                                    if any(n[0] in ("t", "J", "O", "X", "e", "d", "s") for p, n in nodes(c["value"]) if p)}),
        "rule": "case = (struct and enum definitions, operation, value or bytes); round-trip cases compare the exact bytes and the decoded value; "
                "non-trivial round trip = the value contains at least one nested struct / option / result / enum / id / text node; "
                "distinct by (schema, value)",
        "distribution": {"op/kind -> implementation verdict": kinds, "schemas": len(seen_schema), "type_constructors_in_schemas": tys,
                         "max_encoding_len": max([len(c["data"]) for c in cases if c["op"] == "de"] or [0]),
                         "cyclic_schema_probe": f12},
        "samples": [{"line": lines[i], "impl": impl[i]} for i in range(min(3, len(lines)))],
    })
    ctx.assumptions += [
        "struct schemas are acyclic (the compiler rejects recursive struct definitions: 'cycle found'); a hand-built cyclic Machine is finding F26cyc",
        "Identifier is an opaque totally ordered key (modelled as N; the harness uses fixed-width names so that both orders agree)",
        "BaseId is 32 bytes, Text is NUL-free UTF-8 (type invariants of aranya-id / aranya-policy-text, C32)",
    ]
    ctx.trusted = vlib.default_trusted() + [
        "postcard-core 0.1.0 varint/zigzag/bool/bytes primitives and core::str::from_utf8 are transcribed in model/Varint.v and tied by the correspondence run only",
        "tools/gen_codec_cli.py gen_ser: variant lists of TypeKind/Value, the arms of serialize_value/deserialize_value, ID_SIZE, panic-site ledger of serialize.rs",
    ]

    # ---- verdicts
    def replay_of(i):
        c = cases[i]
        d = {"op": c["op"], "kind": c["kind"], "defs": {str(k): [[f, t] for f, t in v] for k, v in c["defs"].items()},
             "enums": {str(k): [list(x) for x in v] for k, v in c["enums"].items()}}
        if c["op"] == "de":
            d.update(name=c["name"], bytes_hex=c["data"].hex(), expect=c.get("expect"))
        else:
            d.update(value=val_txt(c["value"]))
        return {"case": d, "impl": impl[i], "harness_line": lines[i], "contradicts": "coq/props/C26.v",
                "replay_cmd": "echo '%s' | build/target/debug/c26" % lines[i]}
    seen = set()
    for (i, why) in bad:
        key = why.split(":")[0][:40]
        if key in seen or len(seen) >= 3:
            continue
        seen.add(key)
        ctx.violation("struct codec: " + why, replay_of(i))
    ctx.oblige("oracle:roundtrip-and-rejection-on-impl", not bad, str(bad[:3]))
    if ok_eval:
        ctx.oblige("correspondence:model=impl", not mism,
                   "model and implementation differ on cases %s; first: %s -> %s" % (mism[:5], lines[mism[0]][:300] if mism else "", impl[mism[0]][:200] if mism else ""))
    if not ctx.replay_in:
        verdicts = {k.split(" -> ")[1] for k in kinds}
        need = {"ok", "err UnexpectedEnd", "err TrailingData", "err BadInput", "err UnknownStruct:99", "err FieldLengthMismatch", "err InternalValue"}
        ctx.oblige("coverage:verdict-classes", need <= verdicts, "missing %s" % sorted(need - verdicts))
        ctx.oblige("coverage:type-constructors", set("usyibdSEor") <= set(tys), "constructors seen: %s" % sorted(tys))


def tuple_ty(t):
    return tuple(tuple_ty(x) if isinstance(x, list) else x for x in t)
