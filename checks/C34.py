"""C34 — command signatures bind command, name, parent and author."""
import vlib

import crypto_common as cc

NAMES = ["a", "ab", "cmd", "add_member", "x1", "remove_device", "ab_c", "zz9"]


def gen_cases(ctx, n):
    r = ctx.rng
    out = []
    for _ in range(n):
        seed = bytes(r.below(256) for _ in range(16))
        name = r.choice(NAMES)
        parent = bytes(r.below(256) for _ in range(32)) if r.chance(9, 10) else bytes(32)
        ln = r.choice([0, 1, 2, 3, 7, 16, 31, 32, 33, 64, 100])
        data = bytes(r.below(256) for _ in range(ln))
        if ln and r.chance(1, 2):
            data = bytes([r.range(97, 122)]) + data[1:]     # lets the data>name boundary shift apply
        other = r.choice([n2 for n2 in NAMES if n2 != name])
        out.append((seed, name, parent, data, other))
    return out


def parse_frame(line):
    head, slog, vlog = line.split(" | ")
    kv = dict(x.split("=") for x in head.split())

    def tab(s):
        t = []
        for ent in s.split(" ; "):
            f = ent.split()
            if f and f[0] == "H":
                t.append((cc.unhex(f[1]), cc.unhex(f[2])))
        return t
    return {"oids": [cc.unhex(x) for x in kv["oids"].split(",")], "pk": cc.unhex(kv["pk"]), "sig": cc.unhex(kv["sig"]),
            "id": cc.unhex(kv["id"]), "vid": cc.unhex(kv["vid"]), "slog": tab(slog), "vlog": tab(vlog)}


def run(ctx):
    cc.regen_mine(ctx)
    vlib.prove(ctx, extra_targets=["model/CryptoCases.vo"])
    binp = vlib.cargo_build(ctx, "hx-crypto", bin="c34")
    if not binp:
        return
    T = ctx.thorough
    cases = gen_cases(ctx, 400 if T else 40)
    lines = []
    for (seed, name, parent, data, other) in cases:
        lines.append("frame %s %s %s %s" % (seed.hex(), name.encode().hex(), parent.hex(), data.hex() or "-"))
        lines.append("sweep %s %s %s %s %s" % (seed.hex(), name.encode().hex(), parent.hex(), data.hex() or "-", other.encode().hex()))
    rc, out, err = vlib.run_bin(binp, input="\n".join(lines) + "\n")
    ol = out.splitlines()
    if rc != 0 or len(ol) != len(lines) or any(l.startswith(("panic", "badcase")) for l in ol):
        ctx.oblige("harness:run", False, "rc=%s lines=%d/%d %s" % (rc, len(ol), len(lines), [l[:200] for l in ol if l.startswith(("panic", "badcase"))][:2] + [err[-800:]]))
        return
    frames = [parse_frame(ol[2 * i]) for i in range(len(cases))]
    sweeps = [dict(x.split("=", 1) for x in ol[2 * i + 1].split()) for i in range(len(cases))]
    # oracle on the implementation: the unmodified command verifies to the signing id, every mutation fails
    bad = []
    nmut = 0
    kinds = {}
    for i, sw in enumerate(sweeps):
        if frames[i]["id"] != frames[i]["vid"]:
            bad.append((i, "frame", "sign_cmd and verify_cmd derive different ids"))
        for label, res in sw.items():
            if label in ("base", "ffi.base"):
                if res != "ok":
                    bad.append((i, label, "honest signature rejected (%s)" % res))
                continue
            if res == "skip":
                continue
            nmut += 1
            k = label.rstrip("0123456789").rstrip(".")
            kinds[k] = kinds.get(k, 0) + 1
            if res != "err":
                bad.append((i, label, "verification succeeded after the mutation `%s` (%s)" % (label, res)))
    # model side: framings byte for byte
    H = cc.coq_hex

    def tabs(t):
        return vlib.coq_list(["(%s, %s)" % (H(a), H(b)) for (a, b) in t])
    items = list(zip(cases, frames))

    def render(chunk):
        its = ["(%s, %s, %s, %s, %s, %s, %s, %s, %s)" % (
            vlib.coq_list([H(o) for o in fr["oids"]]), H(fr["pk"]), H(c[1].encode()), H(c[2]), H(c[3]), H(fr["sig"]), H(fr["id"]),
            tabs(fr["slog"]), tabs(fr["vlog"])) for (c, fr) in chunk]
        return "Definition cases : list c34_case := %s.\nEval vm_compute in (mismatches c34_chk cases).\n" % vlib.coq_list(its)
    header = ("From Coq Require Import String.\nFrom Aranya Require Import base.Tactics base.Harness model.TupleHash model.CryptoSym "
              "model.AfcCases model.CryptoCases.\nOpen Scope N_scope.\n")
    outs, chunks = vlib.coq_eval_sharded(ctx, "c34", header, items, render, shard=100)
    mism, base = [], 0
    for (rc2, o), ch in zip(outs, chunks):
        v = vlib.parse_coq_value(o) if rc2 == 0 else None
        if v is None:
            ctx.oblige("correspondence:model-eval", False, o[-2000:])
            return
        mism += [base + j for j in v]
        base += len(ch)
    nhash = [len(fr["slog"]) for fr in frames]
    ctx.oblige("correspondence:hash-call-count", all(n == 3 for n in nhash) and all(len(fr["vlog"]) == 3 for fr in frames),
               "sign_cmd / verify_cmd are expected to hash exactly 3 framings (key id, digest, command id); saw %s" % sorted(set(nhash)))
    ctx.coverage.update({
        "traces_validated_against_impl": len(cases),
        "evaluations": nmut + 2 * len(cases),
        "distinct_nontrivial": len({(c[1], c[2], c[3]) for c in cases if c[3]}),
        "rule": "case = (key seed, command name, parent id, data); `frame` runs sign_cmd/verify_cmd with the recording suite and the six "
                "logged hash inputs are compared byte for byte with the model's framings (evaluated in Coq with H := the logged table); `sweep` "
                "signs with the default suite and verifies under every mutation, directly and through the crypto FFI module; "
                "non-trivial = non-empty data; distinct by (name, parent, data)",
        "distribution": {"cases": len(cases), "mutations_checked": nmut, "mutations_by_kind": kinds,
                         "data_lengths": sorted({len(c[3]) for c in cases}), "names": sorted({c[1] for c in cases})},
        "samples": [{"case": lines[2 * i], "id": frames[i]["id"].hex(), "hash_inputs": [a.hex() for a, _ in frames[i]["slog"]]} for i in range(2)],
    })
    ctx.assumptions += ["hash collision-free on framed inputs (H injective)",
                        "signature scheme unforgeable and unique (ideal_sig): true of Ed25519 with canonical-S checking, not of ECDSA",
                        "public-key / signature byte encodings injective"]
    for (i, label, why) in bad[:3]:
        ctx.violation("command signature binding broken: " + why,
                      {"case": lines[2 * i + 1], "mutation": label, "contradicts": "cmd_sig_binds (coq/props/C34.v)",
                       "replay_cmd": "echo '%s' | %s   # look at `%s=`" % (lines[2 * i + 1], binp, label)})
    ctx.oblige("correspondence:framing-bytes=model", not mism,
               "model framing differs from the hashed bytes on cases %s, first: %s" % (mism[:5], lines[2 * mism[0]] if mism else ""))
    ctx.oblige("oracle:mutations-fail", not bad, str(bad[:3]))
