"""C47 — C string output never overflows its buffer."""
import vlib


def gen_cases(ctx, count):
    r = ctx.rng
    cases = []
    alphabet = [b"a", b"Z", b"0", b" ", b"%", "é".encode(), "€".encode(), "𝄞".encode(), b"\x7f", b"\x01"]
    for i in range(count):
        nfr = r.choice([0, 1, 1, 2, 3, 4, 6])
        frags = []
        for _ in range(nfr):
            ln = r.choice([0, 0, 1, 1, 2, 3, 5, 8, 13])
            frags.append(b"".join(r.choice(alphabet) for _ in range(ln)))
        total = sum(len(f) for f in frags)
        # buffer sizes around every interesting boundary: 0, 1, total-1, total, total+1, total+2, total+3
        n = r.choice([0, 1, max(total - 1, 0), total, total + 1, total + 2, total + 3, r.below(total + 4)])
        guard = r.choice([0, 1, 3])
        cases.append((n, guard, frags))
    # exhaustive small sweep: every buffer size 0..len+3 for a few fixed fragment lists
    for frags in ([], [b""], [b"hi"], [b"a", b"", b"bc"], [b"hello, ", b"world"]):
        total = sum(len(f) for f in frags)
        for n in range(0, total + 4):
            cases.append((n, 2, list(frags)))
    return cases


def oracle(case, tag, nw, mem):
    """The property itself, evaluated on the implementation's output."""
    n, guard, frags = case
    text = b"".join(frags)
    if tag not in ("0", "1"):
        return "unexpected result %s" % tag
    if mem[:guard] != b"\xa5" * guard or mem[guard + n:] != b"\xa5" * guard:
        return "wrote outside the buffer"
    if len(text) + 1 <= n:
        if tag != "1":
            return "buffer large enough but error reported"
        if mem[guard:guard + len(text) + 1] != text + b"\0":
            return "buffer does not hold text+NUL"
        if nw != len(text) + 1:
            return "wrong length reported"
    else:
        if tag != "0":
            return "buffer too small but success reported"
        if nw != len(text) + 1:
            return "needed size misreported: %d != %d" % (nw, len(text) + 1)
    return None


def run(ctx):
    proved = vlib.prove(ctx)
    binp = vlib.cargo_build(ctx, "hx-misc", bin="c47")
    if not binp:
        return
    cases = gen_cases(ctx, 3000 if ctx.thorough else 400)
    inp = "".join("%d %d %s\n" % (n, g, ",".join((f.hex() or "-") for f in fr)) for (n, g, fr) in cases)
    rc, out, err = vlib.run_bin(binp, input=inp)
    lines = out.splitlines()
    if rc != 0 or len(lines) != len(cases):
        ctx.oblige("harness:run", False, (out[-1000:] + err[-2000:]))
        return
    results = []
    oracle_fail = []
    for i, (c, l) in enumerate(zip(cases, lines)):
        tag, nw, hx = (l.split() + [""])[:3]
        mem = bytes.fromhex(hx)
        results.append((tag, int(nw), mem))
        why = oracle(c, tag, int(nw), mem)
        if why:
            oracle_fail.append((i, why))
    # model side: evaluate CStr.write_c_str on the same cases by vm_compute and compare inside Coq
    def render(chunk):
        items = []
        for (c, res) in chunk:
            n, guard, frags = c
            tag, nw, mem = res
            mem0 = [0xA5] * guard + [0x5A] * n + [0xA5] * guard
            items.append("((%d%%nat, %d, %s, %s), (%s, %d, %s))" % (
                guard, n, vlib.coq_bytes(mem0), vlib.coq_list(frags, vlib.coq_bytes),
                vlib.coq_bytes(mem), nw, "true" if tag == "1" else "false"))
        return ("Definition cases : list ((nat * N * list N * list (list N)) * (list N * N * bool)) := %s.\n"
                "Definition chk (c : (nat * N * list N * list (list N)) * (list N * N * bool)) : bool :=\n"
                "  let '((off, n, m, fr), (m', nw', ok')) := c in\n"
                "  let '(mm, nwm, okm) := write_c_str off n m fr in lN_eqb mm m' && N.eqb nwm nw' && Bool.eqb okm ok'.\n"
                "Eval vm_compute in (mismatches chk cases).\n" % vlib.coq_list(items))
    header = "From Aranya Require Import base.Tactics base.Harness model.CStr.\nOpen Scope N_scope.\n"
    pairs = list(zip(cases, results))
    outs, chunks = vlib.coq_eval_sharded(ctx, "c47", header, pairs, render, shard=300)
    mism = []
    base = 0
    for (rc, o), ch in zip(outs, chunks):
        v = vlib.parse_coq_value(o) if rc == 0 else None
        if v is None:
            ctx.oblige("correspondence:model-eval", False, o[-2000:])
            return
        mism += [base + j for j in v]
        base += len(ch)
    ctx.coverage.update({
        "traces_validated_against_impl": len(cases),
        "evaluations": len(cases),
        "distinct_nontrivial": len({(n, tuple(fr)) for (n, g, fr) in cases if fr and any(fr)}),
        "rule": "case = (buffer size n, guard width, fragment list); sizes are drawn around 0,1,len-1..len+3 plus an exhaustive 0..len+3 sweep for five fixed texts; non-trivial = at least one non-empty fragment; distinct by (n, fragments)",
        "distribution": {
            "fits": sum(1 for (n, g, fr) in cases if sum(map(len, fr)) + 1 <= n),
            "too_small": sum(1 for (n, g, fr) in cases if sum(map(len, fr)) + 1 > n),
            "zero_size_buffer": sum(1 for (n, g, fr) in cases if n == 0),
            "exact_fit": sum(1 for (n, g, fr) in cases if sum(map(len, fr)) + 1 == n),
            "with_empty_fragment": sum(1 for (n, g, fr) in cases if b"" in fr),
        },
        "samples": [{"n": n, "guard": g, "fragments_hex": [f.hex() for f in fr], "impl": {"ok": results[i][0], "nw": results[i][1], "mem": results[i][2].hex()}}
                    for i, (n, g, fr) in list(enumerate(cases))[:3]],
    })
    ctx.assumptions += ["text length < 2^64-1 (every Rust string is at most isize::MAX bytes)",
                        "fmt::Display is modelled as the sequence of write_str fragments it emits"]
    for (i, why) in oracle_fail[:3]:
        n, g, fr = cases[i]
        ctx.violation("write_c_str violates its contract: " + why,
                      {"case": {"n": n, "guard": g, "fragments_hex": [f.hex() for f in fr]},
                       "impl": {"ok": results[i][0], "nw": results[i][1], "mem_hex": results[i][2].hex()},
                       "contradicts": "write_c_str_spec / write_c_str_frame (coq/props/C47.v)",
                       "replay_cmd": "echo '%d %d %s' | build/target/debug/c47" % (n, g, ",".join((f.hex() or "-") for f in fr))})
    ctx.oblige("correspondence:model=impl", not mism,
               "model and implementation differ on cases %s (first: %r -> impl %r)" % (
                   mism[:5], cases[mism[0]] if mism else None, results[mism[0]] if mism else None))
    ctx.oblige("oracle:contract-on-impl-output", not oracle_fail, str(oracle_fail[:3]))
