"""C14 — sessions overlay their own writes on committed facts."""
import os
import re
import sys

import vlib

sys.path.insert(0, os.path.dirname(os.path.abspath(__file__)))
import _facts_lib as fl  # noqa: E402


def parse_evals(out):
    return [vlib.parse_term(m.group(1)) for m in re.finditer(r"=\s*(\[.*?\])\s*:\s*list", out, re.S)]


def run_session_cases(ctx, binp, cases, name, shard):
    inp = "".join(fl.enc_scase(c["backend"], c["U"], c["ops"]) + "\n" for c in cases)
    rc, out, err = vlib.run_bin(binp, input=inp, timeout=3000)
    lines = out.splitlines()
    if rc != 0 or len(lines) != len(cases):
        ctx.oblige("harness:run:" + name, False, "rc=%s lines=%d/%d %s" % (rc, len(lines), len(cases), err[-1500:]))
        return False
    for c, line in zip(cases, lines):
        steps = line.split("|")
        c["raw"] = steps
        c["impl"] = [fl.parse_sstep(s) for s in steps]
        o = fl.SessionOracle(c["U"])
        exp = [o.step(op) for op in c["ops"]]
        c["expected"] = exp
        c["oracle_fail"] = None
        if len(c["impl"]) != len(exp):
            c["oracle_fail"] = (min(len(c["impl"]), len(exp)), "runner stopped early (panic)")
        for i, (e, g) in enumerate(zip(exp, c["impl"])):
            if not fl.sobs_matches(e, g):
                why = "session answers differ from (committed facts + own writes)"
                if e is not None and g not in (None, "panic"):
                    if g[1] != "=":
                        why = "a session operation changed the graph's heads or fact cache"
                    elif e[0] != g[0]:
                        why = "call result differs"
                    elif not e[0] and (e[3], e[4]) != (g[3], g[4]):
                        why = "a failed call changed the session's observable state"
                c["oracle_fail"] = (i, why)
                break
    todo = [c for c in cases if "panic" not in c["impl"] and len(c["impl"]) == len(c["ops"])]
    outs, chunks = [], []
    group = 4 * shard
    for gi in range(0, max(len(todo), 1), group):
        o1, c1 = vlib.coq_eval_sharded(
            ctx, "%s_%d" % (name, gi // group), fl.SCOQ_HEADER, todo[gi:gi + group],
            lambda ch: fl.render_scases([(c["U"], c["ops"], c["impl"]) for c in ch]), shard=shard, timeout=1500)
        outs += o1
        chunks += c1
    for (rc, o), ch in zip(outs, chunks):
        vals = parse_evals(o) if rc == 0 else []
        if len(vals) != 1 or len(vals[0]) != len(ch):
            ctx.oblige("correspondence:model-eval:" + name, False, o[-2500:])
            for c in ch:
                c["model_diff"] = "eval-failed"
            continue
        for c, d in zip(ch, vals[0]):
            c["model_diff"] = None if d == "None" else (d[1] if isinstance(d, tuple) else d)
    return True


def report_sessions(ctx, cases, label, theorem):
    bad = [c for c in cases if c["oracle_fail"]]
    for c in bad[:3]:
        i, why = c["oracle_fail"]
        ctx.violation(
            "%s: %s at step %d (%s)" % (label, why, i, fl.enc_sop(c["ops"][i]) if i < len(c["ops"]) else "?"),
            {"case": fl.enc_scase(c["backend"], c["U"], c["ops"]), "step": i,
             "op": fl.enc_sop(c["ops"][i]) if i < len(c["ops"]) else None,
             "impl": c["raw"][i] if i < len(c["raw"]) else None,
             "spec_expects": repr(c["expected"][i]) if i < len(c["expected"]) else None,
             "contradicts": theorem,
             "replay_cmd": "echo '<case>' | build/target/debug/c14   # the case field above"})
    mism = [c for c in cases if c.get("model_diff") is not None]
    ctx.oblige("oracle:overlay-on-impl-output:" + label, not bad,
               "; ".join("step %d: %s" % c["oracle_fail"] for c in bad[:5]))
    ctx.oblige("correspondence:model=impl:" + label, not mism,
               "; ".join("[%s] first differing step %s (%s): impl=%s" % (
                   c["backend"], c["model_diff"],
                   fl.enc_sop(c["ops"][c["model_diff"]])[:200] if isinstance(c["model_diff"], int) and c["model_diff"] < len(c["ops"]) else "?",
                   c["raw"][c["model_diff"]][:200] if isinstance(c["model_diff"], int) and c["model_diff"] < len(c["raw"]) else "?")
                         for c in mism[:4]))
    return bad, mism


def gen_cases(ctx, fail_heavy=False):
    r = ctx.rng
    T = ctx.thorough
    cases = []
    for i in range(300 if T else 40):
        nseg = r.choice([0, 1, 2, 3, 5, 8])
        U, ops, st = fl.gen_session_case(r, nseg, fail_heavy=fail_heavy)
        cases.append({"backend": "file" if r.chance(1, 3) else "mem", "U": U, "ops": ops, "stats": st})
    for i in range(6 if T else 2):
        U, ops, st = fl.gen_session_case(r, r.range(17, 22), fail_heavy=fail_heavy, deep=True)
        cases.append({"backend": "file" if i % 2 else "mem", "U": U, "ops": ops, "stats": st})
    return cases


def coverage(ctx, cases, rule_extra=""):
    agg = {}
    for c in cases:
        for k, v in c["stats"].items():
            agg[k] = agg.get(k, 0) + v
    calls = [(c, i) for c in cases for i, o in enumerate(c["ops"]) if o[0] in ("a", "r")]
    nq = sum(len(c["U"].names) * (len(c["U"].keys) + len(c["U"].prefixes)) for (c, i) in calls) + agg.get("script_items", 0)
    ctx.coverage.update({
        "traces_validated_against_impl": len(cases),
        "evaluations": nq,
        "session_calls": len(calls),
        "distinct_nontrivial": len({fl.enc_scase("", c["U"], c["ops"]) for c in cases
                                    if any(o[0] in ("a", "r") and any(it[0] in ("I", "D") for it in o[3]) for o in c["ops"])}),
        "rule": "a case = committed history built through the storage API + commit_heads + sessions with scripted policy calls; after every "
                "call the script's own query results and a full dump (names x keys exact, names x prefixes) of the session are compared, and "
                "heads + fact cache must be unchanged; non-trivial = at least one call that writes; distinct by the op list" + rule_extra,
        "distribution": {"by_backend": {k: sum(1 for c in cases if c["backend"] == k) for k in ("mem", "file")}, "ops": agg},
        "samples": [{"backend": c["backend"], "case": fl.enc_scase(c["backend"], c["U"], c["ops"])[:600]} for c in cases[:2]],
    })


def run(ctx):
    vlib.regen(ctx)
    vlib.prove(ctx)
    binp = vlib.cargo_build(ctx, "hx-facts", bin="c14")
    if not binp:
        return
    cases = gen_cases(ctx)
    if not run_session_cases(ctx, binp, cases, "c14", shard=12):
        return
    report_sessions(ctx, cases, "sessions", "session_overlay / failed_call_unchanged / session_frame (coq/props/C14.v)")
    coverage(ctx, cases)
    ctx.assumptions += [
        "a policy call is modelled as the sequence of perspective operations it performs followed by success or failure "
        "(the policy only holds &mut impl Perspective / FactPerspective)",
        "the frame theorem is by construction in the model; its tie to the code is the regenerated borrow of ClientState in "
        "Session::action/receive (shared reference) and the heads/fact-cache comparison made after every call in the correspondence run",
        "storage errors inside the prior iterator are modelled (the merge bubbles them up) but cannot be injected through the public API; "
        "the merge theorem covers error-free sorted inputs",
    ]
