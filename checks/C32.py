"""C32 — text and identifier values always satisfy their invariants."""
import json
import os
import re
import sys

import vlib

IDENT_RE = re.compile(rb"\A[a-zA-Z][a-zA-Z0-9_]*\Z")
MAX_INLINE = 22        # only used to aim the generators at the boundary; the model takes it from the source


def regen_own(ctx):
    """Run this unit's translator plug-in only (coq/gen/GenB58.v, GenText.v)."""
    sys.path.insert(0, os.path.join(vlib.ROOT, "tools"))
    import gen as gen_mod
    gen_mod.load_plugins()
    problems = []
    with vlib.Lock("coq"):
        for g in gen_mod.GENERATORS:
            if g.__module__ != "gen_ids_text":
                continue
            try:
                name, text, probs = g(vlib.REPO)
            except Exception as e:      # structural surprise
                problems.append("%s: %r" % (g.__name__, e))
                continue
            problems += probs
            path = os.path.join(vlib.COQ, "gen", name)
            os.makedirs(os.path.dirname(path), exist_ok=True)
            if not os.path.exists(path) or open(path).read() != text:
                with open(path, "w") as f:
                    f.write(text)
    ctx.oblige("translator:regen", not problems, "; ".join(problems))


# ---------------------------------------------------------------- case generation

IDCH = b"abcdefghijklmnopqrstuvwxyzABCDEFGHIJKLMNOPQRSTUVWXYZ0123456789_"
ALPHA = b"abcxyzABCXYZ"
TEXTCH = [b" ", b"-", b".", b"/", b":", b"@", b"[", b"`", b"{", b"~", b"\x01", b"\x7f", b"\t", b"\n",
          "é".encode(), "ß".encode(), "€".encode(), "中".encode(), "𝄞".encode(), " ".encode(), "﻿".encode()]
BADUTF8 = [b"\x80", b"\xbf", b"\xc0\x80", b"\xc1\xbf", b"\xc3", b"\xe2\x82", b"\xe0\x80\x80", b"\xed\xa0\x80",
           b"\xf0\x80\x80\x80", b"\xf4\x90\x80\x80", b"\xf5\x80\x80\x80", b"\xff", b"\xfe", b"\xf0\x9d\x84"]
LENGTHS = [0, 1, 2, 3, 7, 8, 9, MAX_INLINE - 1, MAX_INLINE, MAX_INLINE + 1, MAX_INLINE + 2, 31, 32, 33, 63, 64, 255, 256, 300]


def ident_of(r, n):
    if n == 0:
        return b""
    return bytes([r.choice(ALPHA)]) + bytes(r.choice(IDCH) for _ in range(n - 1))


def text_of(r, n):
    """valid text (UTF-8, no NUL) of exactly n bytes"""
    out = b""
    while len(out) < n:
        c = r.choice(TEXTCH) if r.chance(1, 3) else bytes([r.choice(IDCH)])
        if len(out) + len(c) <= n:
            out += c
    return out


def put(s, pos, b):
    return s[:pos] + b + s[pos + len(b):] if pos + len(b) <= len(s) else s[:pos] + b


def gen_strings(ctx, r, nrand):
    out = []
    for n in LENGTHS:
        idv = ident_of(r, n)
        tx = text_of(r, n)
        out += [idv, tx]
        if n:
            # NUL first / middle / last, and inserted (length n+1)
            for pos in {0, n // 2, n - 1}:
                out.append(put(idv, pos, b"\x00"))
                out.append(put(tx, pos, b"\x00") if tx[pos:pos + 1].isascii() else put(idv, pos, b"\x00"))
            out.append(idv + b"\x00")
            out.append(b"\x00" + idv)
            # identifier defects: leading digit / underscore / non-ASCII, one bad tail byte at several places
            out.append(b"1" + idv[1:])
            out.append(b"_" + idv[1:])
            out.append(b"@" + idv[1:])
            out.append(b"[" + idv[1:])
            out.append(b"`" + idv[1:])
            out.append(b"{" + idv[1:])
            for pos in {1, n // 2, n - 1}:
                if 1 <= pos < n:
                    for bad in (b"-", b" ", b"/", b":", b"@", b"[", b"`", b"{", b"\x7f"):
                        out.append(put(idv, pos, bad))
            if n >= 2:
                out.append("é".encode() + idv[2:])
                out.append(idv[:-2] + "é".encode())
            # invalid UTF-8 in the middle / at the end
            for bad in BADUTF8:
                if len(bad) <= n:
                    out.append(put(idv, n - len(bad), bad))
                    out.append(put(idv, (n - len(bad)) // 2, bad))
    for b in range(256):                      # every single byte, alone and after a letter
        out.append(bytes([b]))
        out.append(b"a" + bytes([b]))
    for bad in BADUTF8:
        out.append(bad)
    if ctx.thorough:                          # exhaustive small scope: every string of two bytes
        out += [bytes([a, b]) for a in range(256) for b in range(256)]
    # multi-byte characters straddling the inline boundary
    for ch in ("é", "€", "𝄞"):
        c = ch.encode()
        for start in range(MAX_INLINE - len(c), MAX_INLINE + 1):
            out.append(b"a" * start + c)
            out.append(b"a" * start + c + b"zz")
    for _ in range(nrand):
        n = r.choice(LENGTHS + [r.range(0, 40)] * 6)
        k = r.below(7)
        if k == 0:
            s = ident_of(r, n)
        elif k == 1:
            s = text_of(r, n)
        elif k == 2:
            s = ident_of(r, n)
            if n:
                s = put(s, r.below(n), r.choice([b"\x00", b"-", b" ", b"\x7f", b"\x80", "é".encode()]))
        elif k == 3:
            s = text_of(r, n)
            if n:
                s = put(s, r.below(n), b"\x00")
        elif k == 4:
            s = bytes(r.below(256) for _ in range(min(n, 40)))
        elif k == 5:
            s = text_of(r, n)
            if n:
                s = put(s, r.below(n), r.choice(BADUTF8))
        else:
            s = bytes(r.choice(b"aZ09_\x00 -") for _ in range(n))
        out.append(s)
    seen = set()
    uniq = []
    for s in out:
        if s not in seen:
            seen.add(s)
            uniq.append(s)
    return uniq


def gen_pairs(ctx, r, npairs):
    """pairs of valid texts for `add` and `cmp`"""
    pairs = []
    for n in (0, 1, 10, 11, 12, MAX_INLINE - 1, MAX_INLINE, MAX_INLINE + 1, 40, 300):
        a = text_of(r, n)
        i = ident_of(r, n)
        pairs += [(a, a), (i, i), (a, i), (i, a), (a, a + b"a"), (a + b"a", a), (a, b""), (b"", a)]
        if n:
            j = r.below(n)
            b2 = put(i, j, bytes([r.choice(IDCH)]))
            pairs += [(i, b2), (b2, i)]
        for m in (0, 1, MAX_INLINE - n if MAX_INLINE >= n else 0, MAX_INLINE + 1 - n if MAX_INLINE + 1 >= n else 0, 11, 12):
            pairs.append((a, text_of(r, m)))
            pairs.append((i, ident_of(r, m)))
    for _ in range(npairs):
        n, m = r.choice(LENGTHS[:14] + [r.range(0, 30)] * 4), r.choice(LENGTHS[:14] + [r.range(0, 30)] * 4)
        a = text_of(r, n) if r.chance(1, 2) else ident_of(r, n)
        if r.chance(1, 3):
            b = a
        elif r.chance(1, 2) and n:
            b = put(a, r.below(n), bytes([r.choice(IDCH)]))
            try:
                b.decode()
            except UnicodeDecodeError:
                b = a
        else:
            b = text_of(r, m) if r.chance(1, 2) else ident_of(r, m)
        pairs.append((a, b))
    seen = set()
    uniq = []
    for p in pairs:
        if p not in seen:
            seen.add(p)
            uniq.append(p)
    return uniq


def hx(b):
    return b.hex() or "-"


def case_line(c):
    return " ".join([c[0]] + [hx(x) for x in c[1:]])


def parse_out(line):
    parts = line.split()
    return parts[0], dict(p.split("=", 1) for p in parts[1:])


def is_utf8(b):
    try:
        b.decode("utf-8")
        return True
    except UnicodeDecodeError:
        return False


# ---------------------------------------------------------------- the property's oracle

LIT = ",".join(x.hex() for x in [b"", b"hello", b"a string literal that is longer than the inline capacity of Repr",
                                  b"x", b"an_identifier_longer_than_22_bytes_1234567890"])


def oracle(c, kind, o):
    if kind != c[0]:
        return "runner answered %s for a %s case" % (kind, c[0])
    if any(v == "panic" for v in o.values()):
        return "panic (a debug assertion about the invariant fired, or a decoder crashed)"
    k = c[0]
    if k in ("t", "i"):
        s = c[1]
        for key, v in o.items():
            if key == "rt":
                if v not in ("1", "na"):
                    return "an accepted value does not survive its own serialisations / clone"
                continue
            if not v.startswith("ok:"):
                continue
            content = bytes.fromhex(v[3:])
            if b"\x00" in content:
                return "%s produced a value containing a NUL byte" % key
            if k == "i" and not IDENT_RE.match(content):
                return "%s produced an identifier that does not match [a-zA-Z][a-zA-Z0-9_]*" % key
            if content != s:
                return "%s produced a value whose content differs from its input" % key
        return None
    if k == "add":
        a, b = c[1], c[2]
        for key in ("add", "adds"):
            v = o.get(key, "na")
            if v.startswith("ok:"):
                content = bytes.fromhex(v[3:])
                if b"\x00" in content:
                    return "concatenation contains NUL"
                if content != a + b:
                    return "concatenation is not the concatenation of the contents"
        return None
    if k == "cmp":
        if o.get("cmp") == "na":
            return None
        a, b = c[1], c[2]
        if o["consistent"] != "1":
            return "Eq/Ord/Hash/const_eq/PartialEq<str> differ between representations of the same contents"
        if o["ident"] not in ("1", "na"):
            return "Identifier Eq/Ord/Hash differ between representations of the same contents"
        if (o["eq"] == "1") != (a == b):
            return "Eq is not equality of contents"
        want = -1 if a < b else (1 if a > b else 0)
        if int(o["cmp"]) != want:
            return "Ord is not the byte-wise order of contents"
        if (o["feeda"] == o["feedb"]) != (a == b):
            return "Hash input is not determined by / does not determine the content"
        return None
    if k == "lit":
        return None if o.get("lit") == LIT else "text!/ident! literals have the wrong content"
    return "unknown case kind"


# ---------------------------------------------------------------- model side

HEADER = """From Aranya Require Import base.Tactics base.Harness gen.GenText model.Text.
Open Scope N_scope.
Inductive impl := Oks | Okc (c : list N) | ENul (i : N) | EUtf8 | EValue | ECheck | EEmpty | EInitial | ETrailing (i : N) | Na | Bad.
(* [Oks]: the implementation returned the input string itself *)
Definition t_eq (s : list N) (m : tres) (i : impl) : bool :=
  match m, i with
  | TOk r, Oks => bytes_eqb (repr_as_str r) s && repr_assert r
  | TOk r, Okc c => bytes_eqb (repr_as_str r) c && repr_assert r
  | TErr (ContainsNul k), ENul k' => k =? k'
  | TUtf8, EUtf8 => true | TInvalidValue, EValue => true | TCheck, ECheck => true
  | _, _ => false end.
Definition i_eq (s : list N) (m : ires) (i : impl) : bool :=
  match m, i with
  | IOk r, Oks => bytes_eqb (repr_as_str r) s && repr_assert r
  | IOk r, Okc c => bytes_eqb (repr_as_str r) c && repr_assert r
  | IErr NotEmpty, EEmpty => true | IErr InitialNotAlphabetic, EInitial => true
  | IErr (TrailingNotValid k), ETrailing k' => k =? k'
  | IUtf8, EUtf8 => true | IInvalidValue, EValue => true | ICheck, ECheck => true
  | _, _ => false end.
Definition is_na (i : impl) : bool := match i with Na => true | _ => false end.
Definition has_nul (s : list N) : bool := existsb (fun b => b =? 0) s.
(* fs ts cstr js pc rka rkd rkf *)
Definition chk_t (c : list N * list impl) : bool :=
  let '(s, rs) := c in
  match rs with
  | [fs; ts; cstr; js; pc; rka; rkd; rkf] =>
    (if utf8_valid s
     then t_eq s (text_from_str s) fs && t_eq s (text_try_from_string s) ts && t_eq s (text_deserialize s) js
     else is_na fs && is_na ts && is_na js)
    && (if has_nul s then is_na cstr else t_eq s (text_try_from_cstr s) cstr)
    && t_eq s (text_deserialize_bytes s) pc
    && (is_na rka
        || ((if archived_text_access s then t_eq s (TOk (archived_text_deserialize s)) rka && t_eq s (TOk (archived_text_deserialize s)) rkd
             else t_eq s TCheck rka && t_eq s TCheck rkd)
            && t_eq s (text_rkyv_from_bytes s) rkf))
  | _ => false end.
(* fs ts tt js pc rka rkm rkd rkf *)
Definition chk_i (c : list N * list impl) : bool :=
  let '(s, rs) := c in
  match rs with
  | [fs; ts; tfx; js; pc; rka; rkm; rkd; rkf] =>
    (if utf8_valid s
     then i_eq s (ident_from_str s) fs && i_eq s (ident_try_from_string s) ts && i_eq s (ident_deserialize s) js
          && match text_from_str s with TOk t => i_eq s (ident_try_from_text t) tfx | _ => is_na tfx end
     else is_na fs && is_na ts && is_na js && is_na tfx)
    && i_eq s (ident_deserialize_bytes s) pc
    && (is_na rka
        || ((if archived_ident_access s
             then let r := IOk (archived_ident_deserialize s) in i_eq s r rka && i_eq s r rkm && i_eq s r rkd
             else i_eq s ICheck rka && i_eq s ICheck rkm && i_eq s ICheck rkd)
            && i_eq s (ident_rkyv_from_bytes s) rkf))
  | _ => false end.
Definition chk_add (c : list N * list N * impl * impl) : bool :=
  let '(a, b, r1, r2) := c in
  if utf8_valid a && utf8_valid b then
    match text_from_str a, text_from_str b with
    | TOk ra, TOk rb => t_eq (a ++ b) (text_add ra rb) r1 && t_eq (a ++ b) (text_add (Static a) rb) r2
                        && t_eq (a ++ b) (text_add ra (Static b)) r1 && t_eq (a ++ b) (text_add (Heap a) (Heap b)) r1
    | _, _ => is_na r1
    end
  else is_na r1.
Definition cmp_num (c : comparison) : Z := match c with Lt => (-1)%Z | Eq => 0%Z | Gt => 1%Z end.
(* a hash feed of [None] means: the implementation fed exactly content ++ [0xff] *)
Definition feed_of (s : list N) (f : option (list N)) : list N := match f with None => s ++ [255] | Some x => x end.
Definition chk_cmp (c : list N * list N * option (bool * Z * option (list N) * option (list N))) : bool :=
  let '(a, b, r) := c in
  let valid := utf8_valid a && utf8_valid b
               && match text_validate a, text_validate b with None, None => true | _, _ => false end in
  match r with
  | None => negb valid
  | Some (e, o, fa, fb) =>
    valid
    && forallb (fun x => forallb (fun y =>
         Bool.eqb (repr_eq x y) e && Z.eqb (cmp_num (repr_cmp x y)) o
         && bytes_eqb (repr_hash x) (feed_of a fa) && bytes_eqb (repr_hash y) (feed_of b fb))
         [Static b; repr_from_str b; Heap b]) [Static a; repr_from_str a; Heap a]
  end.
"""


def t_impl(v, same=None):
    if v.startswith("ok:"):
        content = bytes.fromhex(v[3:])
        return "Oks" if content == same else "(Okc %s)" % vlib.coq_bytes(content)
    if v.startswith("err:nul:"):
        return "(ENul %d)" % int(v[8:])
    if v.startswith("err:trailing:"):
        return "(ETrailing %d)" % int(v[13:])
    return {"na": "Na", "err:utf8": "EUtf8", "err:value": "EValue", "err:check": "ECheck",
            "err:empty": "EEmpty", "err:initial": "EInitial"}.get(v, "Bad")


T_KEYS = ["fs", "ts", "cstr", "js", "pc", "rka", "rkd", "rkf"]
I_KEYS = ["fs", "ts", "tt", "js", "pc", "rka", "rkm", "rkd", "rkf"]


def term(c, o):
    k = c[0]
    if k == "t":
        return "(%s, %s)" % (vlib.coq_bytes(c[1]), vlib.coq_list([t_impl(o.get(x, "bad"), c[1]) for x in T_KEYS]))
    if k == "i":
        return "(%s, %s)" % (vlib.coq_bytes(c[1]), vlib.coq_list([t_impl(o.get(x, "bad"), c[1]) for x in I_KEYS]))
    if k == "add":
        return "(%s, %s, %s, %s)" % (vlib.coq_bytes(c[1]), vlib.coq_bytes(c[2]),
                                     t_impl(o.get("add", "na"), c[1] + c[2]), t_impl(o.get("adds", "na"), c[1] + c[2]))
    if k == "cmp":
        if o.get("cmp") == "na":
            r = "None"
        else:
            def feed(hexs, s):
                f = bytes.fromhex(hexs)
                return "None" if f == s + b"\xff" else "(Some %s)" % vlib.coq_bytes(f)
            r = "(Some (%s, (%s)%%Z, %s, %s))" % ("true" if o["eq"] == "1" else "false", o["cmp"],
                                                  feed(o["feeda"], c[1]), feed(o["feedb"], c[2]))
        return "(%s, %s, %s)" % (vlib.coq_bytes(c[1]), vlib.coq_bytes(c[2]), r)


TYPES = {
    "t": ("chk_t", "list N * list impl"),
    "i": ("chk_i", "list N * list impl"),
    "add": ("chk_add", "list N * list N * impl * impl"),
    "cmp": ("chk_cmp", "list N * list N * option (bool * Z * option (list N) * option (list N))"),
}


def model_compare(ctx, group, idxs, cases, outs):
    chk, ty = TYPES[group]

    def render(chunk):
        return ("Definition cases : list (%s) := %s.\nEval vm_compute in (mismatches %s cases).\n"
                % (ty, vlib.coq_list([term(cases[i], outs[i][1]) for i in chunk]), chk))
    shard = min(1500, max(150, -(-len(idxs) // 4)))
    mism = []
    for b, start in enumerate(range(0, len(idxs), 4 * shard)):
        batch = idxs[start:start + 4 * shard]
        res, chunks = vlib.coq_eval_sharded(ctx, "c32_%s_%d" % (group, b), HEADER, batch, render, shard=shard)
        for (rc, o), ch in zip(res, chunks):
            v = vlib.parse_coq_value(o) if rc == 0 else None
            if v is None:
                ctx.oblige("correspondence:model-eval:" + group, False, o[-2000:])
                return None
            mism += [ch[j] for j in v]
    return mism


def run(ctx):
    regen_own(ctx)
    vlib.prove(ctx)
    binp = vlib.cargo_build(ctx, "hx-ids-text", bin="c32")
    if not binp:
        return
    r = ctx.rng
    if ctx.replay_in:
        rp = json.load(open(ctx.replay_in))
        cases = []
        for ln in rp.get("case_lines", []):
            p = ln.split()
            cases.append(tuple([p[0]] + [bytes.fromhex("" if x == "-" else x) for x in p[1:]]))
    else:
        t = 12 if ctx.thorough else 1
        strs = gen_strings(ctx, r.fork(), 600 * t)
        pairs = gen_pairs(ctx, r.fork(), 300 * t)
        cases = [("t", s) for s in strs] + [("i", s) for s in strs]
        cases += [("add", a, b) for a, b in pairs] + [("cmp", a, b) for a, b in pairs]
        # a few invalid operands for add / cmp (the runner must answer `na`)
        cases += [("add", b"a\x00", b"b"), ("cmp", b"a\x00", b"b"), ("cmp", b"\xff", b"b"), ("lit",)]
    inp = "".join(case_line(c) + "\n" for c in cases)
    rc, out, err = vlib.run_bin(binp, input=inp)
    lines = out.splitlines()
    if rc != 0 or len(lines) != len(cases):
        ctx.oblige("harness:run", False, (out[-1000:] + err[-2000:]))
        return
    outs = [parse_out(l) for l in lines]
    ctx.log("implementation ran %d cases" % len(cases))
    bad = []
    for i, (c, (kind, o)) in enumerate(zip(cases, outs)):
        why = oracle(c, kind, o)
        if why:
            bad.append((i, why))
    mism = []
    evaluated = 0
    for group in ("t", "i", "add", "cmp"):
        idxs = [i for i, c in enumerate(cases) if c[0] == group]
        if not idxs:
            continue
        m = model_compare(ctx, group, idxs, cases, outs)
        if m is None:
            return
        evaluated += len(idxs)
        mism += m
    ctx.log("model evaluated on %d cases, %d mismatches, %d oracle failures" % (evaluated, len(mism), len(bad)))

    tcases = [i for i, c in enumerate(cases) if c[0] == "t"]
    icases = [i for i, c in enumerate(cases) if c[0] == "i"]

    def count(idx, key, pred):
        return sum(1 for i in idx if pred(outs[i][1].get(key, "")))
    lens = [len(cases[i][1]) for i in tcases]
    dist = {
        "strings": len(tcases),
        "len_le_inline": sum(1 for n in lens if n <= MAX_INLINE),
        "len_eq_inline": sum(1 for n in lens if n == MAX_INLINE),
        "len_eq_inline_plus_1": sum(1 for n in lens if n == MAX_INLINE + 1),
        "len_gt_inline": sum(1 for n in lens if n > MAX_INLINE),
        "len_ge_255": sum(1 for n in lens if n >= 255),
        "empty": sum(1 for n in lens if n == 0),
        "with_nul": sum(1 for i in tcases if b"\x00" in cases[i][1]),
        "not_utf8": sum(1 for i in tcases if not is_utf8(cases[i][1])),
        "non_ascii_utf8": sum(1 for i in tcases if is_utf8(cases[i][1]) and not cases[i][1].isascii()),
        "text_from_str_accepted": count(tcases, "fs", lambda v: v.startswith("ok:")),
        "text_from_str_nul_rejected": count(tcases, "fs", lambda v: v.startswith("err:nul")),
        "text_serde_json_rejected": count(tcases, "js", lambda v: v == "err:value"),
        "text_postcard_rejected_nul": count(tcases, "pc", lambda v: v == "err:value"),
        "text_postcard_rejected_utf8": count(tcases, "pc", lambda v: v == "err:utf8"),
        "text_rkyv_checked": count(tcases, "rka", lambda v: v != "na"),
        "text_rkyv_rejected": count(tcases, "rka", lambda v: v == "err:check"),
        "text_cstr_accepted": count(tcases, "cstr", lambda v: v.startswith("ok:")),
        "ident_accepted": count(icases, "fs", lambda v: v.startswith("ok:")),
        "ident_err_empty": count(icases, "fs", lambda v: v == "err:empty"),
        "ident_err_initial": count(icases, "fs", lambda v: v == "err:initial"),
        "ident_err_trailing": count(icases, "fs", lambda v: v.startswith("err:trailing")),
        "ident_try_from_text_rejected": count(icases, "tt", lambda v: v.startswith("err:")),
        "ident_rkyv_rejected": count(icases, "rka", lambda v: v == "err:check"),
        "add_pairs": sum(1 for c in cases if c[0] == "add"),
        "add_result_crosses_inline": sum(1 for c in cases if c[0] == "add" and len(c[1]) <= MAX_INLINE and len(c[2]) <= MAX_INLINE
                                         and len(c[1]) + len(c[2]) > MAX_INLINE),
        "cmp_pairs": sum(1 for c in cases if c[0] == "cmp"),
        "cmp_equal_content": sum(1 for c in cases if c[0] == "cmp" and c[1] == c[2]),
        "cmp_prefix_pairs": sum(1 for c in cases if c[0] == "cmp" and c[1] != c[2] and (c[1].startswith(c[2]) or c[2].startswith(c[1]))),
    }
    ctx.coverage.update({
        "traces_validated_against_impl": len(cases),
        "evaluations": evaluated,
        "distinct_nontrivial": len({case_line(c) for c in cases if len(c) > 1 and any(len(x) for x in c[1:])}),
        "rule": "case = a byte string pushed through every Text constructor/decoder (FromStr, TryFrom<String>, TryFrom<&CStr>, "
                "serde_json, postcard, rkyv access/deserialize/from_bytes) or every Identifier one (plus TryFrom<Text>, "
                "ArchivedIdentifier::deserialize, Into<Text>), or a pair of texts for `&a + &b` or for Eq/Ord/Hash/const_eq/"
                "PartialEq<str> across static / inline-or-heap / deserialised / concatenated storage; non-trivial = not all operands empty; "
                "distinct by the full case line",
        "distribution": dist,
        "samples": [{"case": case_line(cases[i]), "impl": outs[i][1]} for i in
                    ([0, len(cases) // 3, (2 * len(cases)) // 3, len(cases) - 1] if cases else [])],
    })
    ctx.assumptions += [
        "a Rust &str is valid UTF-8 (type invariant); core::str::from_utf8 is modelled by the Unicode well-formedness table and tied by the correspondence run",
        "a CStr has no interior NUL (type invariant), so TryFrom<&CStr> needs no validate",
        "text!/ident! literals are validated at compile time by aranya-policy-text-macro (modelled from imp.rs; exercised by fixed literals only); "
        "__from_literal is an unsafe fn whose contract is that validation",
        "rkyv values are read through the checked API (access/from_bytes), which runs CheckBytes + Verify; access_unchecked is unsafe and out of scope",
        "64-bit target (size_of::<usize>() = 8, so MAX_INLINE = 22)",
    ]
    seen_lines = set()
    reported = []
    for (i, why) in bad:
        if case_line(cases[i]) not in seen_lines:
            seen_lines.add(case_line(cases[i]))
            reported.append((i, why))
        if len(reported) == 3:
            break
    for (i, why) in reported:
        ctx.violation("aranya-policy-text violates C32: " + why,
                      {"case_lines": [case_line(cases[i])], "impl": outs[i][1],
                       "contradicts": "produced_invariant / eq_ord_hash_content / repr_roundtrip (coq/props/C32.v)",
                       "replay_cmd": "echo '%s' | build/target/debug/c32" % case_line(cases[i])})
    ctx.oblige("correspondence:model=impl", not mism,
               "model and implementation differ on %d cases, e.g. %s" % (
                   len(mism), [(case_line(cases[i])[:160], outs[i][1]) for i in mism[:3]]))
    ctx.oblige("oracle:property-on-impl-output", not bad, str([(case_line(cases[i])[:160], w) for i, w in bad[:3]]))
