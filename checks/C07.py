"""C07 — actions are atomic."""
import os
import sys
import vlib
sys.path.insert(0, os.path.dirname(os.path.abspath(__file__)))
import _txn_common as T  # noqa: E402


def is_merge(i):
    return i >= (1 << 62)


def oracle(case, outs):
    name, backend, gid, d, ops = case
    bad = []
    prev = None
    st = {"io_fault_single_head": 0, "io_fault_multi_head": 0, "ok_single_head": 0, "ok_multi_head": 0, "fail_single_head": 0, "fail_multi_head": 0, "fail_after_k": {}, "empty_action": 0}
    for j, (op, o) in enumerate(zip(ops, outs)):
        if op[0] == "action" and prev is not None and prev["heads"] is not None:
            multi = len(prev["heads"]) >= 2
            pubs = [c[0] for c in op[3]]
            if o["res"] == "ok":
                st["ok_multi_head" if multi else "ok_single_head"] += 1
                g, pg = o["graph"], prev["graph"]
                if not pubs or o["heads"] != [pubs[-1]]:
                    bad.append((j, "successful action: heads %s are not the single last published command %s" % (o["heads"], pubs[-1:])))
                elif g is None or pg is None:
                    bad.append((j, "graph unreadable"))
                else:
                    anc = T.ancestors(g, pubs[-1])
                    if not set(prev["heads"]) <= anc:
                        bad.append((j, "new head does not descend from every previous head"))
                    if not set(pg) <= set(g):
                        bad.append((j, "committed commands lost by an action"))
                    new = set(g) - set(pg)
                    if not new <= set(pubs) | {x for x in new if is_merge(x)} or not set(pubs) <= set(g):
                        bad.append((j, "committed set is not old + merges + published: new=%s" % sorted(new)[:6]))
                if not o["sink"] or o["sink"][0] != "B" or o["sink"][-1] != "K" or o["sink"].count("K") != 1:
                    bad.append((j, "sink log of a successful action is not Begin..Commit: %s" % o["sink"]))
            else:
                st["fail_multi_head" if multi else "fail_single_head"] += 1
                if o["res"] == "err:Storage:IoError":
                    st["io_fault_multi_head" if multi else "io_fault_single_head"] += 1
                if op[2] is not None:
                    st["fail_after_k"][str(op[2])] = st["fail_after_k"].get(str(op[2]), 0) + 1
                if not pubs:
                    st["empty_action"] += 1
                if T.state_key(o) != T.state_key(prev):
                    bad.append((j, "failed action (%s) changed heads / facts / graph / stamp" % o["res"]))
                if "K" in o["sink"]:
                    bad.append((j, "failed action committed effects: %s" % o["sink"]))
                if o["res"].startswith("err:Policy") and (not o["sink"] or o["sink"][-1] != "R"):
                    bad.append((j, "failed action did not roll the sink back: %s" % o["sink"]))
        prev = o
    return bad, st


def run(ctx):
    vlib.prove(ctx)
    r = ctx.rng
    cases = T.make_cases(ctx, 0, 0, 0)
    n = 220 if ctx.thorough else 30
    for i in range(n):
        d = T.gen_dag(r, r.range(6, 45 if ctx.thorough else 18), reject_w=4, merge_w=10, deep_w=30)
        ops = T.gen_history(r, d, ntx=r.choice([1, 2, 3]), p_flush=6, p_commit=14, p_action=22, p_probe=1, p_dup=4, p_bad=2, p_fault=14)
        # make sure there are actions on the final (often multi-head) state
        for _ in range(r.choice([1, 2, 3])):
            if r.below(100) < 25:
                ops.append(("fault", "commit", 1))
            k = r.choice([0, 1, 2, 3, 5])
            cmds = [((1 << 41) + r.below(1 << 30), r.choice([0, 1, 2]), T.rand_prog(r, 10)) for _ in range(k)]
            ops.append(("action", r.below(2) == 0, r.choice([None, None, 0, k, r.below(k + 1)]), cmds))
        cases.append(("a%d" % i, "libc" if i % 3 == 2 else "mem", T.gid_of(d), d, ops))
    cases = T.replay_cases(ctx) or cases
    res, mm = T.run_cases(ctx, cases, "c07")
    if res is None:
        return
    viol, tot = [], {}
    for ci, (c, outs) in enumerate(zip(cases, res)):
        bad, st = oracle(c, outs)
        for k, v in st.items():
            if isinstance(v, dict):
                tot.setdefault(k, {})
                for kk, vv in v.items():
                    tot[k][kk] = tot[k].get(kk, 0) + vv
            else:
                tot[k] = tot.get(k, 0) + v
        for (j, why) in bad:
            viol.append((ci, j, why))
    nontriv = sum(1 for c, outs in zip(cases, res) if any(
        op[0] == "action" and j > 0 and outs[j - 1]["heads"] and len(outs[j - 1]["heads"]) >= 2 for j, op in enumerate(c[4])))
    ctx.coverage.update({
        "traces_validated_against_impl": len(cases),
        "evaluations": sum(len(c[4]) for c in cases),
        "distinct_nontrivial": nontriv,
        "rule": "non-trivial = a history with at least one action executed on a multi-head committed state; actions publish 0-5 commands with failure injected after the k-th (k in 0..n)",
        "distribution": dict(T.basic_stats(cases, res), actions=tot),
        "samples": [{"case": T.case_text(*cases[i])[:1500], "results": [o["res"] for o in res[i]]} for i in (len(cases) - 1,)],
    })
    ctx.assumptions += ["the policy's call_action is modelled as the audit policy's publish loop (each published command evaluated, then added, parent = perspective head), as VmPolicy::call_action does",
                        "ids identify commands (rclash = false)"]
    for (ci, j, why) in viol[:3]:
        ctx.violation("action atomicity violated: " + why,
                      dict(T.replay_obj(cases[ci], res[ci], why, j), contradicts="action_atomic (coq/props/C07.v)"))
    T.report_mismatches(ctx, cases, res, mm)
    ctx.oblige("oracle:atomicity-on-impl-output", not viol, str(viol[:3]))
    ctx.oblige("coverage:multi-head-failing-action", tot.get("fail_multi_head", 0) > 0 and tot.get("ok_multi_head", 0) > 0
               and tot.get("io_fault_single_head", 0) + tot.get("io_fault_multi_head", 0) > 0, str(tot))
