"""C41 — AFC channel removal takes effect for later operations."""
import os
import sys

sys.path.insert(0, os.path.dirname(os.path.abspath(__file__)))
import shm_common as S  # noqa: E402

CFG = {
    "seq": [("shm", "def", "remove", 45, 400), ("shm", "def", "malformed", 8, 80), ("shm", "def", "table", 6, 60),
            ("mem", "def", "remove", 22, 200), ("mem", "def", "malformed", 5, 50), ("shm", "lim", "remove", 4, 40)],
    "limit": None,
    "conc": "removal", "conc_quick": 10,
    "conc2_quick": (3, 60), "conc2_thorough": (3, None),
    "rand": ("remove", 8, 100),
}


def run(ctx):
    S.standard_check(ctx, "C41", CFG)
