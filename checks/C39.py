"""C39 — AFC messages are authenticated and opening never panics."""
import os
import sys

import vlib

import crypto_common as cc

ECODE = {"ok": 0, "err:Bug": 1, "err:Header.Bug": 2, "err:Header.InvalidSize": 3, "err:Header.UnknownVersion": 4,
         "err:Header.InvalidMsgType": 5, "err:NotFound": 6, "err:InputTooLarge": 7, "err:BufferTooSmall": 8,
         "err:KeyExpired": 9, "err:Authentication": 10, "err:Crypto": 11, "err:Allocation": 12, "panic": 99}
OPS = {"seal": 0, "sealip": 1, "open": 2, "openip": 3}
U64MAX = (1 << 64) - 1
HEAPLESS_CAP = 96


class Case:
    """One call of the real client."""

    def __init__(self, op, buf, flag, key, nonce, label, seq0, dstlen, data, origin, truth=None):
        self.op, self.buf, self.flag = op, buf, flag
        self.key, self.nonce, self.label = key, nonce, label
        self.seq0, self.dstlen, self.data = seq0, dstlen, data
        self.origin = origin          # how the input was produced (for the distribution)
        self.truth = truth            # for open*: (key, nonce, label, seq, plaintext, wire) of the honest sealing it derives from

    def line(self):
        return "%s %s %s %s %s %s %d %d %s" % (self.op, self.buf, self.flag, self.key.hex(), self.nonce.hex(),
                                                self.label.hex(), self.seq0, self.dstlen, self.data.hex() or "-")


def unhex(s):
    return b"" if s == "-" else bytes.fromhex(s)


def parse_res(s):
    f = s.split()
    return {"class": f[0], "ret": f[1], "buf": unhex(f[2]), "spare": unhex(f[3])}


def parse_line(line):
    parts = line.split(" | ")
    a, b = parse_res(parts[0]), parse_res(parts[1])
    log = []
    for ent in parts[2].split(" ; ") if len(parts) > 2 and parts[2].strip() else []:
        f = ent.split()
        if f[0] == "S":
            log.append(("S", unhex(f[1]), unhex(f[2]), unhex(f[3]), f[4] == "1", unhex(f[5]), unhex(f[6])))
        elif f[0] == "O":
            log.append(("O", unhex(f[1]), unhex(f[2]), unhex(f[3]), unhex(f[4]), f[5] == "1", unhex(f[6])))
    return a, b, log


def rand_bytes(r, n, lo=0):
    return bytes(r.range(lo, 255) for _ in range(n))


def seal_cases(ctx, n):
    r = ctx.rng
    out = []
    for i in range(n):
        key, nonce, label = rand_bytes(r, 32), rand_bytes(r, 12), rand_bytes(r, 32)
        ln = r.choice([0, 1, 2, 3, 5, 8, 15, 16, 17, 24, 31, 32, 33, 40, 47])
        pt = rand_bytes(r, ln, lo=1)           # non-zero bytes: makes the plaintext-leak oracle meaningful
        seq0 = r.choice([0, 1, 2, 255, 256, 65535, 1 << 32, (1 << 63) + 5, U64MAX - 2, U64MAX - 1, U64MAX])
        op = r.choice(["seal", "sealip", "sealip", "sealip"])
        flag = "r" if r.chance(1, 12) else "-"
        if op == "seal":
            dstlen = r.choice([ln + 24, ln + 24, ln + 25, ln + 40, ln + 23, max(ln - 1, 0), 0, ln + 8])
            out.append(Case(op, "-", flag, key, nonce, label, seq0, dstlen, pt, "seal"))
        else:
            buf = r.choice(["v", "h", "f%d" % (ln + 24), "f%d" % (ln + 30), "f%d" % (ln + 23), "f%d" % ln])
            out.append(Case(op, buf, flag, key, nonce, label, seq0, 0, pt, "seal"))
    return out


def open_variants(ctx, truth, want, thorough):
    """Open cases derived from one honest sealing."""
    r = ctx.rng
    key, nonce, label, seq, pt, wire = truth
    out = []

    def both(data, origin, key=key, nonce=nonce, label=label, flag="-", dstlens=None):
        dl = dstlens if dstlens is not None else [r.choice([len(pt), len(pt) + 3, len(data) + 5])]
        for d in dl:
            out.append(Case("open", "-", flag, key, nonce, label, 0, d, data, origin, truth))
        bk = r.choice(["v", "h" if len(data) <= HEAPLESS_CAP else "v", "f%d" % (len(data) + r.choice([0, 0, 4]))])
        out.append(Case("openip", bk, flag, key, nonce, label, 0, 0, data, origin, truth))

    # honest
    both(wire, "honest", dstlens=[len(pt), len(pt) + 7, max(len(pt) - 1, 0), 0])
    for bk in ("v", "h", "f%d" % len(wire), "f%d" % (len(wire) + 9)):
        out.append(Case("openip", bk, "-", key, nonce, label, 0, 0, wire, "honest", truth))
    if "trunc" in want:
        for n in range(len(wire)):
            both(wire[:n], "truncated")
        for n in (1, 2, 7, 8, 9, 16, 24):
            both(wire + bytes(n), "extended")
            both(wire[n:], "front-truncated")
    if "mut" in want:
        for i in range(len(wire)):
            bit = 1 << r.below(8)
            both(wire[:i] + bytes([wire[i] ^ bit]) + wire[i + 1:], "bitflip")
        if thorough:
            for i in range(len(wire)):
                both(wire[:i] + bytes([(wire[i] + 1 + r.below(255)) % 256]) + wire[i + 1:], "bytechange")
    if "foreign" in want:
        k2 = bytes([key[0] ^ 1]) + key[1:]
        both(wire, "foreign-key", key=k2)
        both(wire, "foreign-label", label=label[:31] + bytes([label[31] ^ 0x80]))
        both(wire, "foreign-nonce", nonce=nonce[:11] + bytes([nonce[11] ^ 1]))
        both(wire, "revoked", flag="r")
        # the header says another sequence number
        for s2 in (seq + 1, seq ^ (1 << 40), U64MAX, U64MAX - 1, 0):
            if s2 != seq and 0 <= s2 <= U64MAX:
                both(wire[:-8] + s2.to_bytes(8, "little"), "other-seq")
    return out


def random_open_cases(ctx, n):
    r = ctx.rng
    out = []
    for i in range(n):
        key, nonce, label = rand_bytes(r, 32), rand_bytes(r, 12), rand_bytes(r, 32)
        ln = r.choice([0, 1, 7, 8, 9, 15, 16, 22, 23, 24, 25, 31, 32, 40, 64, r.below(90)])
        data = rand_bytes(r, ln)
        if r.chance(1, 4) and ln >= 8:
            data = data[:-8] + r.choice([0, 1, U64MAX, U64MAX - 1]).to_bytes(8, "little")
        out.append(Case("open", "-", "-", key, nonce, label, 0, r.choice([0, ln, ln + 4]), data, "random"))
        bk = r.choice(["v", "h", "f%d" % ln, "f%d" % (ln + 3)])
        out.append(Case("openip", bk, "-", key, nonce, label, 0, 0, data, "random"))
    # every buffer length 0..48 of zeros and of 0xff through the in-place interface (F5's class)
    key, nonce, label = rand_bytes(r, 32), rand_bytes(r, 12), rand_bytes(r, 32)
    for ln in range(0, 49):
        for fill in (0, 0xFF):
            for bk in ("v", "h", "f%d" % ln):
                out.append(Case("openip", bk, "-", key, nonce, label, 0, 0, bytes([fill]) * ln, "short-sweep"))
            out.append(Case("open", "-", "-", key, nonce, label, 0, ln, bytes([fill]) * ln, "short-sweep"))
    return out


def run_harness(ctx, binp, cases):
    inp = "".join(c.line() + "\n" for c in cases)
    rc, out, err = vlib.run_bin(binp, input=inp)
    lines = out.splitlines()
    if rc != 0 or len(lines) != len(cases) + 1 or not lines[0].startswith("consts"):
        ctx.oblige("harness:run", False, "rc=%s lines=%d cases=%d\n%s" % (rc, len(lines), len(cases), (out[-800:] + err[-1500:])))
        return None, None
    consts = dict(kv.split("=") for kv in lines[0].split()[1:])
    return consts, [parse_line(l) for l in lines[1:]]


def kind_code(buf):
    return {"v": 0, "h": 1}.get(buf, 2)


def coq_case(c, res, log):
    """(case, cmp_spare, outcome) as a Coq term."""
    B = cc.coq_hex
    if c.op in ("seal", "open"):
        dst, data, spare = b"\x5a" * c.dstlen, c.data, b""
    elif c.buf == "v":
        dst, data, spare = b"", c.data, b""
    elif c.buf == "h":
        dst, data, spare = b"", c.data, bytes(HEAPLESS_CAP - len(c.data))
    else:
        dst, data, spare = b"", c.data, b"\x5a" * (int(c.buf[1:]) - len(c.data))
    sl = ol = "None"
    for e in log:
        if e[0] == "S":
            sl = "(Some (%s, %s, %s, %s, %s, %s))" % (B(e[1]), B(e[2]), B(e[3]), "true" if e[4] else "false", B(e[5]), B(e[6]))
        else:
            ol = "(Some (%s, %s, %s, %s, %s, %s))" % (B(e[1]), B(e[2]), B(e[3]), B(e[4]), "true" if e[5] else "false", B(e[6]))
    live = "false" if c.flag == "r" else "true"
    case = "(%d, %d, %s, (%s, %s, %d), (%s, %s, %s), %s, %s)" % (
        OPS[c.op], kind_code(c.buf), live, B(c.nonce), B(c.label), c.seq0, B(dst), B(data), B(spare), sl, ol)
    code = ECODE.get(res["class"], 98)
    if res["class"] == "ok":
        if c.op in ("seal", "sealip"):
            ret = "([], %d)" % {"V1:Data": 1, "V1:Control": 2}.get(res["ret"], 77)
        else:
            lab, seq = res["ret"].split(":")
            ret = "(%s, %s)" % (B(unhex(lab)), seq)
    else:
        ret = "([], 0)"
    outcome = "(%d, %s, %s, %s)" % (code, ret, B(res["buf"]), B(res["spare"]))
    return "(%s, %s, %s)" % (case, "false" if c.buf == "h" else "true", outcome)


def leak(buf, pt):
    """Number of plaintext positions visible in buf (plaintext bytes are non-zero)."""
    return sum(1 for i in range(min(len(buf), len(pt))) if buf[i] == pt[i])


def oracle(c, res):
    """The property itself on the implementation's output; None = fine."""
    if res["class"] == "panic":
        return "panicked"
    if c.op in ("seal", "sealip"):
        return None
    t = c.truth
    authentic = (t is not None and c.data == t[5] and c.key == t[0] and c.nonce == t[1] and c.label == t[2] and c.flag != "r")
    if authentic and (c.op == "openip" or c.dstlen >= len(t[4])):
        if res["class"] != "ok":
            return "honest ciphertext rejected (%s)" % res["class"]
        if res["ret"] != "%s:%d" % (t[2].hex(), t[3]):
            return "wrong label / sequence number returned: %s" % res["ret"]
        if res["buf"][:len(t[4])] != t[4] or (c.op == "openip" and res["buf"] != t[4]):
            return "plaintext not returned"
        return None
    if res["class"] == "ok":
        return "accepted a byte string that is not an honest sealing for this channel"
    if t is not None and len(t[4]) >= 4 and leak(res["buf"], t[4]) * 2 > len(t[4]):
        return "error result leaves plaintext in the output buffer"
    if c.op == "open":
        if not (res["buf"] == b"\x5a" * c.dstlen or res["buf"] == bytes(c.dstlen)):
            return "error result leaves a destination that is neither untouched nor zeroed"
    else:
        if not (res["buf"] == c.data or res["buf"] == bytes(len(c.data))):
            return "error result leaves a buffer that is neither untouched nor zeroed"
    return None


def run(ctx):
    cc.regen_mine(ctx)
    vlib.prove(ctx, extra_targets=["model/AfcCases.vo"])
    bins = {}
    for prof in ("dev", "nodebug"):
        bins[prof] = vlib.cargo_build(ctx, "hx-crypto", profile=prof, bin="c39")
        if not bins[prof]:
            return
    T = ctx.thorough
    # phase 1: seal
    scases = seal_cases(ctx, 240 if T else 60)
    consts, sres = run_harness(ctx, bins["dev"], scases)
    if sres is None:
        return
    tag, overhead = int(consts["tag"]), int(consts["overhead"])
    ctx.oblige("consts:overhead=tag+8", overhead == tag + 8 and consts["debug_assertions"] == "true", str(consts))
    # phase 2: open cases derived from the honest sealings
    truths = []
    for c, (a, b, log) in zip(scases, sres):
        if a["class"] == "ok":
            wire = a["buf"][:len(c.data) + overhead]
            truths.append((c.key, c.nonce, c.label, c.seq0, c.data, wire))
    ocases = []
    full = 8 if T else 3
    ctx.rng.shuffle(truths)
    for i, t in enumerate(truths):
        want = {"foreign"}
        if i < full or (T and len(t[5]) <= 32):
            want |= {"trunc", "mut"}
        elif i < 4 * full:
            want |= {"mut"} if i % 2 else {"trunc"}
        ocases += open_variants(ctx, t, want, T)
    ocases += random_open_cases(ctx, 500 if T else 150)
    allcases = scases + ocases
    results = {}
    for prof in ("dev", "nodebug"):
        consts2, res = run_harness(ctx, bins[prof], allcases)
        if res is None:
            return
        results[prof] = res
    ctx.oblige("consts:nodebug-profile", consts2["debug_assertions"] == "false", str(consts2))
    # transparency of the recording suite, and agreement of the two profiles
    opaque = [i for i in range(len(allcases)) for prof in results
              if results[prof][i][0] != results[prof][i][1]]
    ctx.oblige("harness:recording-suite-transparent", not opaque,
               "default suite and recording suite disagree on case %s: %r" % (opaque[:1], allcases[opaque[0]].line() if opaque else ""))
    # oracle on the implementation's outputs (both profiles)
    bad = []
    for prof in results:
        for i, c in enumerate(allcases):
            why = oracle(c, results[prof][i][0])
            if why:
                bad.append((prof, i, why))
    # model side, compared inside Coq
    header = ("From Coq Require Import String.\nFrom Aranya Require Import base.Tactics base.Harness model.AfcClient model.AfcCases.\nOpen Scope N_scope.\n")
    # both profiles share one evaluation where the implementation behaved identically (always, unless something panicked)
    n = len(allcases)
    same = [i for i in range(n) if results["dev"][i][1:] == results["nodebug"][i][1:]]
    diff = [i for i in range(n) if results["dev"][i][1:] != results["nodebug"][i][1:]]
    mism = {"dev": [], "nodebug": []}
    jobs = [("both", same, ["dev_mode", "nodebug_mode"], "dev")]
    if diff:
        jobs += [("dev", diff, ["dev_mode"], "dev"), ("nodebug", diff, ["nodebug_mode"], "nodebug")]
    for (nm, idxs, modes, prof) in jobs:
        items = [(i, allcases[i], results[prof][i][1], results[prof][i][2]) for i in idxs]

        def render(chunk, modes=modes):
            return ("Definition cases : list (case * bool * outcome) := %s.\n" % vlib.coq_list([coq_case(c, r, l) for (_, c, r, l) in chunk])
                    + "".join("Eval vm_compute in (mismatches (chk %d %s) cases).\n" % (tag, m) for m in modes))
        outs, chunks = vlib.coq_eval_sharded(ctx, "c39_" + nm, header, items, render, shard=400)
        for (rc, o), ch in zip(outs, chunks):
            vals = [vlib.parse_term(x) for x in __import__("re").findall(r"=\s*(\[.*?\])\s*:\s*list N", o, __import__("re").S)] if rc == 0 else None
            if vals is None or len(vals) != len(modes):
                ctx.oblige("correspondence:model-eval", False, o[-2000:])
                return
            for m, v in zip(modes, vals):
                mism["dev" if m == "dev_mode" else "nodebug"] += [ch[j][0] for j in v]
    dist = {}
    for c in allcases:
        dist[c.origin] = dist.get(c.origin, 0) + 1
    classes = {}
    for i, c in enumerate(allcases):
        k = "%s:%s" % (c.op, results["dev"][i][0]["class"])
        classes[k] = classes.get(k, 0) + 1
    aead_calls = sum(1 for i in range(len(allcases)) if results["dev"][i][2])
    ctx.coverage.update({
        "traces_validated_against_impl": 2 * len(allcases),
        "evaluations": 2 * len(allcases),
        "distinct_nontrivial": len({(c.op, c.buf[:1], c.data, c.key, c.label, c.nonce, c.flag, c.dstlen) for c in allcases
                                    if len(c.data) >= 8}),
        "rule": "case = one call of Client::{seal,seal_in_place,open,open_in_place} on a fresh in-memory channel; open inputs derive from "
                "honest sealings (all truncations, one bit flip per byte, foreign key/label/nonce, other sequence numbers, revoked channel) "
                "plus random strings and an every-length 0..48 sweep; non-trivial = input of at least header size (8 bytes); "
                "distinct by (op, buffer kind, input, key, label, nonce, flag, dst length); every case runs in the dev and the "
                "debug-assertions-off/overflow-checks-on profile and with the default and the recording cipher suite",
        "distribution": {"by_origin": dist, "by_op_and_result(dev)": classes, "cases_reaching_the_aead": aead_calls,
                         "honest_sealings_used": len(truths), "profiles": ["dev", "nodebug(debug-assertions=off, overflow-checks=on)"],
                         "buffer_kinds": {k: sum(1 for c in allcases if c.buf[:1] == k) for k in ("v", "h", "f", "-")}},
        "samples": [{"case": c.line(), "impl": {"class": results["dev"][i][0]["class"], "ret": results["dev"][i][0]["ret"],
                                                 "buf": results["dev"][i][0]["buf"].hex()}}
                    for i, c in list(enumerate(allcases))[:2] + list(enumerate(allcases))[len(scases):len(scases) + 2]],
    })
    ctx.assumptions += [
        "AEAD idealisation (Section hypothesis aead_ideal): ciphertext length = plaintext length, tag length = TAG, open succeeds exactly on what seal produced under the same key/nonce/AD",
        "every Rust buffer is at most isize::MAX bytes (buf_wf); Vec allocation succeeds when the capacity fits isize",
        "nonce size 12 (default suite): Seq::max is u64::MAX",
    ]
    for (prof, i, why) in bad[:3]:
        c = allcases[i]
        ctx.violation("AFC client violates C39: " + why,
                      {"profile": prof, "case": c.line(), "origin": c.origin,
                       "impl": {k: (v.hex() if isinstance(v, bytes) else v) for k, v in results[prof][i][0].items()},
                       "honest_plaintext_hex": c.truth[4].hex() if c.truth else None,
                       "contradicts": "afc_open_total / afc_roundtrip / afc_open_authentic / afc_open_err_clean (coq/props/C39.v)",
                       "replay_cmd": "echo '%s' | %s" % (c.line(), bins[prof])})
    for prof in mism:
        mm = mism[prof]
        ctx.oblige("correspondence:model=impl:" + prof, not mm,
                   "model and implementation differ on %d cases, first %s: %s -> impl %r" % (
                       len(mm), mm[:3], allcases[mm[0]].line() if mm else "",
                       {k: (v.hex() if isinstance(v, bytes) else v) for k, v in results[prof][mm[0]][1].items()} if mm else None))
    ctx.oblige("oracle:c39-on-impl-output", not bad, str(bad[:3]))
