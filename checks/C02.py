"""C02 — every command is applied once, after its ancestors; merges never evaluated."""
import os
import sys
sys.path.insert(0, os.path.dirname(os.path.abspath(__file__)))
import braid_common


def run(ctx):
    braid_common.run_braid_check(ctx, "C02")
