"""Random well-typed policies of the fragment of coq/model/Lang.v, their argument
values, and ill-typed / ill-scoped mutants.  All randomness comes from the Rng given."""
import copy

from compiler_common import (I64_MAX, I64_MIN, INTS, STRS, T_BOOL, T_ID, T_INT, T_STR)

ENUM0 = ('enum', 'E0')
ENUM1 = ('enum', 'E1')
S0 = ('struct', 'S0')
S0R = ('struct', 'S0r')
T0 = ('struct', 'T0')
S1 = ('struct', 'S1')


def opt(t):
    return ('opt', t)


def res(a, b):
    return ('res', a, b)


class Gen:
    def __init__(self, rng, depth, ffi=False, todo_rate=40):
        self.r = rng
        self.depth = depth
        self.ffi = ffi
        self.uses_ffi = False
        self.todo_rate = todo_rate
        self.counter = 0
        n0 = self.r.choice([2, 3, 3, 4])
        self.enums = [('E0', ['A', 'B', 'C', 'D'][:n0]), ('E1', ['X', 'Y'])]
        self.structs = [
            ('S0', [('a', T_INT), ('b', T_BOOL)]),
            ('S0r', [('b', T_BOOL), ('a', T_INT)]),
            ('T0', [('a', T_INT)]),
            ('S1', [('o', opt(T_INT)), ('s', S0), ('e', ENUM0), ('t', T_STR)]),
        ]
        self.funs = []        # generated so far: dict(name, params, ret, body)
        self.globals = []
        self.scalars = [T_INT, T_BOOL, T_STR, ENUM0, ENUM1]
        self.types = self.scalars + [S0, S1, opt(T_INT), opt(T_BOOL), opt(ENUM0), opt(S0), opt(opt(T_BOOL)),
                                     res(T_INT, T_BOOL), res(T_BOOL, ENUM1), res(opt(T_INT), T_STR), res(T_BOOL, T_BOOL)]

    # -------------------------------------------------------------- helpers
    def fresh(self, prefix='v'):
        self.counter += 1
        return '%s%d' % (prefix, self.counter)

    def struct_fields(self, name):
        return dict(self.structs)[name] if name in dict(self.structs) else None

    def enum_variants(self, name):
        return dict(self.enums)[name]

    def vars_of(self, env, t):
        return [x for sc in env for x, tx in sc.items() if tx == t]

    # -------------------------------------------------------------- values
    def value(self, t, d=3):
        r = self.r
        k = t[0]
        if k == 'int':
            return ('I', r.choice(INTS))
        if k == 'bool':
            return ('B', r.chance(1, 2))
        if k == 'string':
            return ('S', r.choice(STRS))
        if k == 'id':
            return ('D', bytes([r.below(3)] * 32))
        if k == 'unit':
            return ('U',)
        if k == 'enum':
            return ('E', t[1], r.below(len(self.enum_variants(t[1]))))
        if k == 'opt':
            return ('N',) if r.chance(1, 3) else ('O', self.value(t[1], d - 1))
        if k == 'res':
            return ('K', self.value(t[1], d - 1)) if r.chance(1, 2) else ('R', self.value(t[2], d - 1))
        if k == 'struct':
            return ('T', t[1], {f: self.value(ft, d - 1) for f, ft in self.struct_fields(t[1])})
        raise ValueError(t)

    # -------------------------------------------------------------- literals
    def lit(self, t):
        r = self.r
        k = t[0]
        if k == 'int':
            return ('LInt', r.choice(INTS))
        if k == 'bool':
            return ('LBool', r.chance(1, 2))
        if k == 'string':
            return ('LStr', r.choice(STRS))
        if k == 'enum':
            return ('LEnum', t[1], r.choice(self.enum_variants(t[1])))
        if k == 'unit':
            return ('LUnit',)
        if k == 'opt':
            return ('LNone',) if r.chance(1, 3) else ('LSome', self.lit(t[1]))
        if k == 'res':
            return ('LOk', self.lit(t[1])) if r.chance(1, 2) else ('LErr', self.lit(t[2]))
        return None

    def lit_expr(self, l):
        k = l[0]
        if k == 'LUnit':
            return ('EUnit',)
        if k == 'LInt':
            return ('EInt', l[1])
        if k == 'LStr':
            return ('EStr', l[1])
        if k == 'LBool':
            return ('EBool', l[1])
        if k == 'LEnum':
            return ('EEnum', l[1], l[2])
        if k == 'LNone':
            return ('ENone',)
        return ('EWrap', {'LSome': 'W_Some', 'LOk': 'W_Ok', 'LErr': 'W_Err'}[k], self.lit_expr(l[1]))

    def leaf(self, t, env):
        r = self.r
        vs = self.vars_of(env, t)
        if vs and r.chance(3, 5):
            return ('EVar', r.choice(vs))
        k = t[0]
        if k == 'struct':
            return ('EStruct', t[1], [(f, self.leaf(ft, env)) for f, ft in self.struct_fields(t[1])])
        if k == 'id':
            if vs:
                return ('EVar', r.choice(vs))
            raise ValueError('no id available')
        if k == 'opt':
            if t[1][0] == 'id' and not self.vars_of(env, t[1]):
                return ('ENone',)
            return ('ENone',) if r.chance(1, 3) else ('EWrap', 'W_Some', self.leaf(t[1], env))
        if k == 'res':
            return ('EWrap', 'W_Ok', self.leaf(t[1], env)) if r.chance(1, 2) else ('EWrap', 'W_Err', self.leaf(t[2], env))
        return self.lit_expr(self.lit(t))

    # -------------------------------------------------------------- expressions
    def expr(self, t, env, d):
        r = self.r
        k = t[0]
        if k == 'id' or d <= 0 or r.chance(1, 6):
            return self.leaf(t, env)
        prods = ['leaf', 'if', 'block', 'match', 'coalesce', 'match']
        has_id = bool(self.vars_of(env, T_ID))
        callable_funs = [f for f in self.funs if f['ret'] == t and (has_id or all(pt != T_ID for _, pt in f['params']))]
        if callable_funs:
            prods += ['call', 'call']
        for sn, fs in self.structs:
            if any(ft == t for _, ft in fs):
                prods.append('dot')
                break
        if k == 'bool':
            prods += ['and', 'or', 'not', 'cmp', 'eq', 'is', 'and', 'or', 'cmp', 'eq']
            if self.ffi:
                prods.append('ffi')
        if k == 'int':
            prods += ['sat', 'sat']
            if self.ffi:
                prods.append('ffi')
        if t == opt(T_INT):
            prods += ['arith', 'arith', 'arith']
        if k == 'opt':
            prods.append('some')
        if k == 'res':
            prods.append('wrapres')
        if k == 'struct':
            prods.append('structlit')
            if t == S0R:
                prods.append('cast')
            if t == T0:
                prods.append('substruct')
        if r.chance(1, self.todo_rate):
            return ('ETodo',)
        p = r.choice(prods)
        if p == 'leaf':
            return self.leaf(t, env)
        if p == 'if':
            return ('EIf', self.expr(T_BOOL, env, d - 1), self.block(t, env, d - 1), self.block(t, env, d - 1))
        if p == 'block':
            return self.block(t, env, d - 1)
        if p == 'match':
            return self.match_expr(t, env, d - 1)
        if p == 'coalesce':
            if t[0] == 'id' and not self.vars_of(env, t):
                return self.leaf(t, env)
            return ('ECoalesce', self.expr(opt(t), env, d - 1), self.expr(t, env, d - 1))
        if p == 'call':
            f = r.choice(callable_funs)
            return ('ECall', f['name'], [self.expr(pt, env, d - 1) for _, pt in f['params']])
        if p == 'dot':
            cands = [(sn, f) for sn, fs in self.structs for f, ft in fs if ft == t]
            sn, f = r.choice(cands)
            return ('EDot', self.expr(('struct', sn), env, d - 1), f)
        if p == 'and':
            return ('EAnd', self.expr(T_BOOL, env, d - 1), self.expr(T_BOOL, env, d - 1))
        if p == 'or':
            return ('EOr', self.expr(T_BOOL, env, d - 1), self.expr(T_BOOL, env, d - 1))
        if p == 'not':
            return ('ENot', self.expr(T_BOOL, env, d - 1))
        if p == 'cmp':
            a = self.expr(T_INT, env, d - 1)
            # equal operands often: the boundary of >= and <= is where a wrong lowering shows
            b = a if r.chance(1, 3) else self.expr(T_INT, env, d - 1)
            return ('EBin', r.choice(['BGt', 'BLt', 'BGe', 'BLe']), a, b)
        if p == 'eq':
            et = r.choice(self.types)
            return ('EBin', r.choice(['BEq', 'BNe']), self.expr(et, env, d - 1), self.expr(et, env, d - 1))
        if p == 'is':
            ot = r.choice([x for x in self.types if x[0] == 'opt'])
            return ('EIs', self.expr(ot, env, d - 1), r.chance(1, 2))
        if p == 'sat':
            return ('ECall', r.choice(['saturating_add', 'saturating_sub']), [self.expr(T_INT, env, d - 1), self.expr(T_INT, env, d - 1)])
        if p == 'arith':
            return ('ECall', r.choice(['add', 'sub']), [self.expr(T_INT, env, d - 1), self.expr(T_INT, env, d - 1)])
        if p == 'ffi':
            self.uses_ffi = True
            return ('EFfi', 't', 'log_int' if k == 'int' else 'log_bool', [self.expr(t, env, d - 1)])
        if p == 'some':
            return ('ENone',) if r.chance(1, 5) else ('EWrap', 'W_Some', self.expr(t[1], env, d - 1))
        if p == 'wrapres':
            return ('EWrap', 'W_Ok', self.expr(t[1], env, d - 1)) if r.chance(1, 2) else ('EWrap', 'W_Err', self.expr(t[2], env, d - 1))
        if p == 'structlit':
            return ('EStruct', t[1], [(f, self.expr(ft, env, d - 1)) for f, ft in self.struct_fields(t[1])])
        if p == 'cast':
            return ('ECast', self.expr(S0, env, d - 1), 'S0r')
        if p == 'substruct':
            return ('ESubstruct', self.expr(S0, env, d - 1), 'T0')
        raise ValueError(p)

    def block(self, t, env, d):
        """{ let ... : e }"""
        sc = {}
        env2 = env + [sc]
        ss = []
        for _ in range(self.r.choice([0, 0, 1, 1, 2])):
            ss.append(self.let(env2, d))
        return ('EBlock', ss, self.expr(t, env2, d))

    def let(self, env, d):
        t = self.r.choice(self.types)
        e = self.expr(t, env, d)
        x = self.fresh()
        env[-1][x] = t
        return ('SLet', x, e)

    # -------------------------------------------------------------- match
    def patterns(self, st, allow_neg=True):
        """a list of (pattern, bound variables) that is exhaustive for scrutinee type st"""
        r = self.r
        k = st[0]
        arms = []
        if k == 'bool':
            if r.chance(1, 3):
                arms = [(('PVals', [('PLit', ('LBool', r.chance(1, 2)))]), {}), (('PDefault',), {})]
            else:
                order = [True, False] if r.chance(1, 2) else [False, True]
                arms = [(('PVals', [('PLit', ('LBool', b))]), {}) for b in order]
        elif k == 'enum':
            vs = list(self.enum_variants(st[1]))
            r.shuffle(vs)
            if r.chance(1, 2) and len(vs) >= 2:
                # alternation of the first two, the rest one by one
                arms = [(('PVals', [('PLit', ('LEnum', st[1], vs[0])), ('PLit', ('LEnum', st[1], vs[1]))]), {})]
                arms += [(('PVals', [('PLit', ('LEnum', st[1], v))]), {}) for v in vs[2:]]
            elif r.chance(1, 2):
                arms = [(('PVals', [('PLit', ('LEnum', st[1], v))]), {}) for v in vs]
            else:
                n = r.range(1, len(vs) - 1) if len(vs) > 1 else 1
                arms = [(('PVals', [('PLit', ('LEnum', st[1], v))]), {}) for v in vs[:n]] + [(('PDefault',), {})]
        elif k in ('int', 'string'):
            n = r.choice([1, 2, 3])
            seen = []
            for _ in range(n):
                l = self.lit(st)
                if not allow_neg and l[0] == 'LInt' and l[1] < 0:
                    l = ('LInt', -(l[1] + 1))
                if l not in seen:
                    seen.append(l)
            if r.chance(1, 3) and len(seen) >= 2:
                arms = [(('PVals', [('PLit', seen[0]), ('PLit', seen[1])]), {})] + [(('PVals', [('PLit', l)]), {}) for l in seen[2:]]
            else:
                arms = [(('PVals', [('PLit', l)]), {}) for l in seen]
            arms.append((('PDefault',), {}))
        elif k == 'opt':
            inner = st[1]
            x = self.fresh('m')
            mode = r.below(4)
            if mode == 0:
                arms = [(('PVals', [('PLit', ('LNone',))]), {}), (('PVals', [('PBind', 'W_Some', x)]), {x: inner})]
            elif mode == 1:
                arms = [(('PVals', [('PBind', 'W_Some', x)]), {x: inner}), (('PVals', [('PLit', ('LNone',))]), {})]
            elif mode == 2 and inner == T_BOOL:
                arms = [(('PVals', [('PLit', ('LSome', ('LBool', True)))]), {}), (('PVals', [('PLit', ('LNone',))]), {}),
                        (('PVals', [('PLit', ('LSome', ('LBool', False)))]), {})]
            elif mode == 2 and self.lit(inner) is not None:
                # literal first, then the binding, then None
                arms = [(('PVals', [('PLit', ('LSome', self.lit(inner)))]), {}), (('PVals', [('PBind', 'W_Some', x)]), {x: inner}),
                        (('PVals', [('PLit', ('LNone',))]), {})]
            else:
                arms = [(('PVals', [('PBind', 'W_Some', x)]), {x: inner}), (('PDefault',), {})]
        elif k == 'res':
            x, y = self.fresh('m'), self.fresh('m')
            mode = r.below(4)
            ok = (('PVals', [('PBind', 'W_Ok', x)]), {x: st[1]})
            er = (('PVals', [('PBind', 'W_Err', y)]), {y: st[2]})
            if mode == 0:
                arms = [ok, er]
            elif mode == 1:
                arms = [er, ok]
            elif mode == 2 and self.lit(st[1]) is not None:
                arms = [(('PVals', [('PLit', ('LOk', self.lit(st[1])))]), {}), ok, er]
            else:
                arms = [ok, (('PDefault',), {})]
        else:
            raise ValueError(st)
        return arms

    def matchable(self):
        return [t for t in self.types if t[0] in ('bool', 'enum', 'int', 'string', 'opt', 'res')]

    def match_expr(self, t, env, d):
        st = self.r.choice(self.matchable())
        scrut = self.expr(st, env, d)
        arms = []
        for pat, binds in self.patterns(st, allow_neg=False):
            arms.append((pat, self.expr(t, env + [dict(binds)], d)))
        return ('EMatch', scrut, arms)

    # -------------------------------------------------------------- statements
    def terminal(self, ret, env, d):
        """an expression of type never for `check .. else ..`"""
        if self.r.chance(1, 6):
            return ('ETodo',)
        return ('EReturn', self.expr(ret, env, min(d, 1)))

    def stmts(self, ret, env, d, n):
        """n statements in the current (innermost) scope; may contain returns"""
        r = self.r
        out = []
        for _ in range(n):
            c = r.below(10)
            if c < 4 or d <= 0:
                out.append(self.let(env, d))
            elif c < 6:
                out.append(('SCheck', self.expr(T_BOOL, env, d - 1), self.terminal(ret, env, d - 1)))
            elif c < 8:
                bs = []
                for _ in range(r.choice([1, 1, 2])):
                    bs.append((self.expr(T_BOOL, env, d - 1), self.nested(ret, env, d - 1)))
                fb = self.nested(ret, env, d - 1) if r.chance(1, 2) else None
                out.append(('SIf', bs, fb))
            else:
                st = r.choice(self.matchable())
                scrut = self.expr(st, env, d - 1)
                arms = []
                for pat, binds in self.patterns(st):
                    arms.append((pat, self.nested(ret, env, d - 1, dict(binds))))
                out.append(('SMatch', scrut, arms))
        return out

    def nested(self, ret, env, d, binds=None):
        env2 = env + [binds if binds is not None else {}]
        ss = self.stmts(ret, env2, d, self.r.choice([0, 1, 1, 2]))
        if self.r.chance(1, 3):
            ss.append(('SReturn', self.expr(ret, env2, d)))
        return ss

    def function(self, name, params=None, ret=None):
        r = self.r
        if params is None:
            params = [(self.fresh('p'), r.choice(self.types + [T_ID] * 1)) for _ in range(r.choice([0, 1, 2, 2, 3]))]
        if ret is None:
            ret = r.choice(self.types)
        env = [self.leaf_env_globals(), dict(params)]
        body = self.stmts(ret, env, self.depth - 1, r.choice([0, 1, 2, 3]))
        body.append(('SReturn', self.expr(ret, env, self.depth - 1)))
        f = {'name': name, 'params': params, 'ret': ret, 'body': body}
        self.funs.append(f)
        return f

    def policy(self, nfuns=None):
        r = self.r
        if r.chance(1, 2):
            self.globals = [('g_int', ('LInt', r.choice(INTS))), ('g_flag', ('LBool', r.chance(1, 2)))]
        n = nfuns if nfuns is not None else r.choice([1, 2, 3])
        for i in range(n - 1):
            self.function('f%d' % i)
        main = self.function('main')
        return self.finish_policy(), main

    def finish_policy(self, cmds=None, facts=None, effects=None, finfuns=None):
        return {'enums': self.enums, 'structs': self.structs, 'effects': effects or [], 'facts': facts or [],
                'globals': self.globals, 'funs': self.funs, 'finfuns': finfuns or [], 'cmds': cmds or [], 'actions': [],
                'uses_ffi': self.uses_ffi}

    def leaf_env_globals(self):
        return {'g_int': T_INT, 'g_flag': T_BOOL} if self.globals else {}


# ------------------------------------------------------------------ mutants

def walk(node, path, out):
    """collect (path, node) of every tuple node that is an expr/stmt"""
    if isinstance(node, tuple) and node and isinstance(node[0], str) and (node[0][0] in 'ES') and len(node[0]) > 1 and node[0][1].isupper():
        out.append((path, node))
    if isinstance(node, (tuple, list)):
        for i, c in enumerate(node):
            walk(c, path + [i], out)
    elif isinstance(node, dict):
        for k in node:
            walk(node[k], path + [k], out)


def get_at(root, path):
    for p in path:
        root = root[p]
    return root


def set_at(root, path, new):
    """functional update returning a new root (tuples are immutable)"""
    if not path:
        return new
    p = path[0]
    child = set_at(root[p], path[1:], new)
    if isinstance(root, tuple):
        return root[:p] + (child,) + root[p + 1:]
    if isinstance(root, list):
        return root[:p] + [child] + root[p + 1:]
    d = dict(root)
    d[p] = child
    return d


WRONG_LITS = [('EInt', 3), ('EBool', True), ('EStr', "q"), ('ENone',), ('EEnum', 'E1', 'X'), ('EWrap', 'W_Ok', ('EInt', 1)),
              ('EStruct', 'T0', [('a', ('EInt', 1))])]


def mutate(rng, pol):
    """one random, usually type- or scope-breaking, edit of a policy; returns (policy, kind)"""
    nodes = []
    walk(pol['funs'], ['funs'], nodes)
    walk(pol['cmds'], ['cmds'], nodes)
    walk(pol['finfuns'], ['finfuns'], nodes)
    if not nodes:
        return pol, 'none'
    for _ in range(40):
        path, node = rng.choice(nodes)
        k = node[0]
        c = rng.below(16)
        if k[0] == 'E':
            if c == 0 and k != 'EBlock':
                return set_at(pol, path, rng.choice(WRONG_LITS)), 'wrong-type-literal'
            if c == 1 and k == 'EVar':
                return set_at(pol, path, ('EVar', 'undefined_var')), 'undefined-variable'
            if c == 2 and k == 'ECall':
                return set_at(pol, path, ('ECall', node[1], node[2][:-1] if node[2] else [('EInt', 1)])), 'call-arity'
            if c == 3 and k == 'ECall':
                return set_at(pol, path, ('ECall', 'no_such_fn', node[2])), 'undefined-function'
            if c == 4 and k == 'EMatch' and len(node[2]) >= 2:
                return set_at(pol, path, ('EMatch', node[1], node[2][:-1])), 'match-drop-last-arm'
            if c == 5 and k == 'EMatch':
                return set_at(pol, path, ('EMatch', node[1], node[2] + [node[2][0]])), 'match-duplicate-arm'
            if c == 6 and k == 'EMatch':
                arms = list(node[2])
                for i, (pt, body) in enumerate(arms):
                    if pt[0] == 'PVals' and any(x[0] == 'PBind' for x in pt[1]):
                        b = [x for x in pt[1] if x[0] == 'PBind'][0]
                        other = {'W_Some': ('PLit', ('LNone',)), 'W_Ok': ('PLit', ('LErr', ('LInt', 5))), 'W_Err': ('PLit', ('LOk', ('LInt', 5)))}[b[1]]
                        arms[i] = (('PVals', pt[1] + [other]), body)
                        return set_at(pol, path, ('EMatch', node[1], arms)), 'match-binding-in-alternation'
            if c == 7 and k == 'EMatch':
                arms = [a for a in node[2] if a[0][0] != 'PDefault']
                if len(arms) != len(node[2]) and arms:
                    return set_at(pol, path, ('EMatch', node[1], arms)), 'match-drop-default'
            if c == 8 and k == 'EStruct' and node[2]:
                return set_at(pol, path, ('EStruct', node[1], node[2][:-1])), 'struct-missing-field'
            if c == 9 and k == 'EStruct' and node[2]:
                return set_at(pol, path, ('EStruct', node[1], node[2] + [node[2][0]])), 'struct-duplicate-field'
            if c == 10 and k == 'EDot':
                return set_at(pol, path, ('EDot', node[1], 'nofield')), 'unknown-field'
            if c == 11 and k in ('ECast', 'ESubstruct'):
                return set_at(pol, path, (k, node[1], 'S1')), 'bad-cast-or-substruct'
            if c == 12 and k == 'EBlock' and node[1]:
                return set_at(pol, path, ('EBlock', node[1] + [node[1][0]], node[2])), 'redefine-in-block'
            if c == 13 and k == 'EIf':
                return set_at(pol, path, ('EIf', ('EInt', 1), node[2], node[3])), 'if-non-bool'
            if c == 14 and k == 'EMatch':
                arms = list(node[2])
                if len(arms) >= 2 and arms[0][0][0] == 'PVals' and arms[-1][0][0] == 'PDefault':
                    arms = [arms[-1]] + arms[:-1]
                    return set_at(pol, path, ('EMatch', node[1], arms)), 'match-default-not-last'
            if c == 15 and k == 'EMatch':
                arms = list(node[2])
                for i, (pt, body) in enumerate(arms):
                    if pt[0] == 'PVals' and any(x[0] == 'PBind' for x in pt[1]):
                        b = [x for x in pt[1] if x[0] == 'PBind'][0]
                        litp = {'W_Some': ('PLit', ('LSome', ('LInt', 5))), 'W_Ok': ('PLit', ('LOk', ('LInt', 5))), 'W_Err': ('PLit', ('LErr', ('LInt', 5)))}[b[1]]
                        arms.insert(i + 1, (('PVals', [litp]), body))
                        return set_at(pol, path, ('EMatch', node[1], arms)), 'match-literal-after-binding'
        else:
            if c == 0 and k == 'SLet':
                return set_at(pol, path, ('SLet', node[1], rng.choice(WRONG_LITS))), 'let-other-type'
            if c == 1 and k == 'SReturn':
                return set_at(pol, path, ('SReturn', rng.choice(WRONG_LITS))), 'return-wrong-type'
            if c == 2 and k == 'SReturn':
                return set_at(pol, path, ('SLet', 'unused_zz', node[1])), 'drop-return'
            if c == 3 and k == 'SCheck':
                return set_at(pol, path, ('SCheck', node[1], ('EInt', 0))), 'check-else-not-terminal'
            if c == 4 and k == 'SLet':
                return set_at(pol, path, ('SFinish', [])), 'finish-misplaced'
            if c == 5 and k == 'SLet':
                return set_at(pol, path, ('SEmit', node[2])), 'emit-misplaced'
            if c == 6 and k == 'SLet':
                return set_at(pol, path, ('SCreate', 'F', [('k', ('EInt', 1))], [('v', ('EInt', 2))])), 'create-misplaced'
            if c == 7 and k in ('SCreate', 'SEmit', 'SDelete', 'SUpdate'):
                return set_at(pol, path, ('SLet', 'zz_in_finish', ('EInt', 1))), 'let-in-finish'
            if c == 8 and k == 'SCheck':
                return set_at(pol, path, ('SCheck', ('EInt', 1), node[2])), 'check-non-bool'
            if c == 9 and k == 'SMatch' and len(node[2]) >= 2:
                return set_at(pol, path, ('SMatch', node[1], node[2][:-1])), 'match-drop-last-arm'
            if c == 10 and k == 'SLet':
                return set_at(pol, path, ('SLet', 'p1', node[2])), 'let-maybe-shadows-param'
            if c == 11 and k == 'SLet':
                return set_at(pol, path, ('SRecall', 'nothing', [])), 'recall-misplaced'
            if c == 12 and k == 'SCreate':
                return set_at(pol, path, ('SCreate', node[1], node[2], node[3][:-1])), 'fact-literal-short'
            if c == 13 and k == 'SRecall':
                return set_at(pol, path, ('SRecall', node[1], node[2] + [('EInt', 1)])), 'recall-arity'
            if c == 14 and k == 'SEmit':
                return set_at(pol, path, ('SEmit', ('EStruct', 'S0', [('a', ('EInt', 1)), ('b', ('EBool', True))]))), 'emit-non-effect'
            if c == 15 and k in ('SCreate', 'SEmit'):
                return set_at(pol, path, ('SDebugAssert', ('EBool', False))), 'debug-assert-in-finish'
    return pol, 'none'


# ------------------------------------------------------------------ command policies (C30, C24)

FACT_F = {'name': 'F', 'immutable': False, 'keys': [('k', T_INT)], 'vals': [('v', T_INT), ('b', T_BOOL)]}
FACT_H = {'name': 'H', 'immutable': True, 'keys': [('k', T_INT)], 'vals': [('v', T_INT)]}
EFFECTS = [('Eff', [('a', T_INT), ('b', T_BOOL)]), ('Note', [('t', T_STR), ('o', opt(T_INT))])]
CMD_FIELDS = [('x', T_INT), ('y', T_BOOL), ('o', opt(T_INT)), ('e', ENUM0)]


class CmdGen(Gen):
    """command policies with checks, matches, calls, recall and finish blocks"""

    def __init__(self, rng, depth):
        super().__init__(rng, depth, ffi=False, todo_rate=60)
        self.keys = [0, 1, 2, 3]

    def fin_expr(self, t, env):
        """a finish-whitelisted expression of type t"""
        r = self.r
        vs = self.vars_of(env, t)
        if vs and r.chance(1, 2):
            return ('EVar', r.choice(vs))
        has_this = any('this' in sc for sc in env)
        if t == T_INT and r.chance(1, 6):
            # nested whitelisted forms: a field of a struct literal whose fields are finish expressions
            return ('EDot', ('EStruct', 'S0', [('a', self.fin_expr(T_INT, env)), ('b', self.fin_expr(T_BOOL, env))]), 'a')
        if has_this and t == T_INT and r.chance(1, 3):
            return ('EDot', ('EVar', 'this'), 'x')
        if has_this and t == T_BOOL and r.chance(1, 3):
            return ('EDot', ('EVar', 'this'), 'y')
        if t[0] == 'opt':
            return ('ENone',) if r.chance(1, 3) else ('EWrap', 'W_Some', self.fin_expr(t[1], env))
        if t[0] == 'struct':
            return ('EStruct', t[1], [(f, self.fin_expr(ft, env)) for f, ft in (self.struct_fields(t[1]) or dict(EFFECTS)[t[1]])])
        return self.lit_expr(self.lit(t))

    def key_expr(self, env):
        if self.r.chance(1, 4):
            return self.fin_expr(T_INT, env)
        return ('EInt', self.r.choice(self.keys))

    def finish_stmts(self, env, in_fn=False):
        r = self.r
        out = []
        for _ in range(r.choice([0, 1, 1, 2, 3])):
            c = r.below(7)
            if c == 0:
                out.append(('SCreate', 'F', [('k', self.key_expr(env))], [('v', self.fin_expr(T_INT, env)), ('b', self.fin_expr(T_BOOL, env))]))
            elif c == 1:
                out.append(('SDelete', 'F', [('k', self.key_expr(env))]))
            elif c == 2:
                vals = [('v', self.fin_expr(T_INT, env)), ('b', self.fin_expr(T_BOOL, env))] if r.chance(1, 3) else None
                out.append(('SUpdate', 'F', [('k', self.key_expr(env))], vals, [('v', self.fin_expr(T_INT, env)), ('b', self.fin_expr(T_BOOL, env))]))
            elif c == 3:
                out.append(('SEmit', ('EStruct', 'Eff', [('a', self.fin_expr(T_INT, env)), ('b', self.fin_expr(T_BOOL, env))])))
            elif c == 4:
                out.append(('SEmit', ('EStruct', 'Note', [('t', self.fin_expr(T_STR, env)), ('o', self.fin_expr(opt(T_INT), env))])))
            elif c == 5:
                out.append(('SCreate', 'H', [('k', self.key_expr(env))], [('v', self.fin_expr(T_INT, env))]))
            elif not in_fn and self.finfuns:
                f = r.choice(self.finfuns)
                out.append(('SCall', f['name'], [self.fin_expr(pt, env) for _, pt in f['params']]))
        return out

    def terminal_policy(self, env, d, recalls):
        """the else of a check in a policy block"""
        r = self.r
        if recalls and r.chance(3, 4):
            rc = r.choice(recalls)
            return ('ERecall', rc['name'], [self.expr(pt, env, min(d, 1)) for _, pt in rc['params']])
        return ('ETodo',)

    def block_stmts(self, env, d, recalls, n, in_recall):
        """statements of a policy / recall block ending in a finish, a recall, or nothing (panic / check)"""
        r = self.r
        out = []
        for _ in range(n):
            c = r.below(10)
            if c < 4 or d <= 0:
                out.append(self.let(env, d))
            elif c < 7:
                els = ('ETodo',) if in_recall else self.terminal_policy(env, d, recalls)
                out.append(('SCheck', self.expr(T_BOOL, env, d - 1), els))
            elif c < 9:
                bs = [(self.expr(T_BOOL, env, d - 1), self.block_end(env + [{}], d - 1, recalls, in_recall))]
                fb = self.block_end(env + [{}], d - 1, recalls, in_recall) if r.chance(1, 2) else None
                out.append(('SIf', bs, fb))
            else:
                st = r.choice([T_BOOL, ENUM0, opt(T_INT)])
                scrut = self.expr(st, env, d - 1)
                arms = [(pat, self.block_end(env + [dict(binds)], d - 1, recalls, in_recall)) for pat, binds in self.patterns(st)]
                out.append(('SMatch', scrut, arms))
        return out

    def block_end(self, env, d, recalls, in_recall):
        r = self.r
        ss = self.block_stmts(env, d, recalls, r.choice([0, 1, 1]), in_recall) if d > 0 else []
        c = r.below(6)
        if c < 3:
            ss.append(('SFinish', self.finish_stmts(env)))
        elif c == 3 and recalls and not in_recall:
            rc = r.choice(recalls)
            ss.append(('SRecall', rc['name'], [self.expr(pt, env, 1) for _, pt in rc['params']]))
        return ss

    def command_policy(self):
        r = self.r
        self.globals = []
        self.finfuns = []
        for i in range(r.choice([0, 1, 2])):
            params = [(self.fresh('q'), r.choice([T_INT, T_BOOL])) for _ in range(r.choice([0, 1, 2]))]
            self.finfuns.append({'name': 'ff%d' % i, 'params': params, 'body': self.finish_stmts([{}, dict(params)], in_fn=True)})
        for i in range(r.choice([0, 1])):
            self.function('f%d' % i)
        this_env = {'this': ('struct', 'C'), 'envelope': ('struct', 'Envelope')}
        self.structs = self.structs + [('C', CMD_FIELDS)]
        recalls = []
        for i in range(r.choice([0, 1, 2])):
            params = [(self.fresh('z'), r.choice([T_INT, T_BOOL, opt(T_INT)])) for _ in range(r.choice([0, 1, 2]))]
            recalls.append({'name': 'r%d' % i, 'params': params, 'body': None})
        for rc in recalls:
            env = [dict(this_env), dict(rc['params'])]
            rc['body'] = self.block_stmts(env, self.depth - 1, [], r.choice([0, 1, 2]), True) + \
                ([('SFinish', self.finish_stmts(env))] if r.chance(3, 4) else [])
        env = [dict(this_env)]
        body = self.block_stmts(env, self.depth - 1, recalls, r.choice([1, 2, 3]), False)
        c = r.below(8)
        if c < 5:
            body.append(('SFinish', self.finish_stmts(env)))
        elif c < 7 and recalls:
            rc = r.choice(recalls)
            body.append(('SRecall', rc['name'], [self.expr(pt, env, 1) for _, pt in rc['params']]))
        todo = [('SReturn', ('ETodo',))]
        cmd = {'name': 'C', 'fields': CMD_FIELDS, 'seal': todo, 'open': todo, 'policy': body, 'recalls': recalls}
        structs = [s for s in self.structs if s[0] != 'C']
        pol = {'enums': self.enums, 'structs': structs, 'effects': EFFECTS, 'facts': [FACT_F, FACT_H], 'globals': [],
               'funs': self.funs, 'finfuns': self.finfuns, 'cmds': [cmd], 'actions': [], 'uses_ffi': False}
        return pol

    def this_value(self):
        return ('T', 'C', {f: self.value(t) for f, t in CMD_FIELDS})

    def initial_facts(self):
        fs = []
        for k in self.keys:
            if self.r.chance(1, 2):
                fs.append(('F', [('k', ('I', k))], [('v', ('I', self.r.choice(INTS))), ('b', ('B', self.r.chance(1, 2)))]))
        return fs


# ------------------------------------------------------------------ boolean-nesting family (C22, C23)
# Small boolean shapes over {true, false, x, y, a == b, a != b, a < b, a >= b, o is Some, !, &&, ||}:
# the places where a "clever" lowering of !, && and || (trailing Not, join points of the short circuit)
# goes wrong.  Depth 0 = literals and variables, depth 1 = one operator over them (comparisons included),
# depth 2 exhaustively, depth 3 sampled (every !s with s of depth 2 is available exhaustively).

BOOL_PARAMS = [('x', T_BOOL), ('y', T_BOOL), ('a', T_INT), ('b', T_INT), ('o', opt(T_INT))]
_BL0 = [('EBool', True), ('EBool', False), ('EVar', 'x'), ('EVar', 'y')]
_BCMP = [('EBin', 'BEq', ('EVar', 'a'), ('EVar', 'b')), ('EBin', 'BNe', ('EVar', 'a'), ('EVar', 'b')),
         ('EBin', 'BLt', ('EVar', 'a'), ('EVar', 'b')), ('EBin', 'BGe', ('EVar', 'a'), ('EVar', 'b')),
         ('EIs', ('EVar', 'o'), True)]


def bool_depth1():
    return [('ENot', l) for l in _BL0] + [(op, l1, l2) for op in ('EAnd', 'EOr') for l1 in _BL0 for l2 in _BL0] + list(_BCMP)


def bool_depth2():
    d1 = bool_depth1()
    s1 = _BL0 + d1
    out = [('ENot', s) for s in d1]
    for op in ('EAnd', 'EOr'):
        for i, s in enumerate(s1):
            for j, t in enumerate(s1):
                if i >= len(_BL0) or j >= len(_BL0):
                    out.append((op, s, t))
    return out


def bool_depth3_sample(rng, n, d2=None):
    d2 = d2 or bool_depth2()
    s2 = _BL0 + bool_depth1() + d2
    out = []
    for _ in range(n):
        c = rng.below(4)
        if c < 2:
            out.append(('ENot', rng.choice(d2)))        # the negation of a short circuit, of a comparison, of a negation
        elif c == 2:
            out.append((rng.choice(['EAnd', 'EOr']), rng.choice(d2), rng.choice(s2)))
        else:
            out.append((rng.choice(['EAnd', 'EOr']), rng.choice(s2), rng.choice(d2)))
    return out


def bool_assignments():
    """12 argument lists for BOOL_PARAMS: all (x, y), the three orders of (a, b), o alternating"""
    out = []
    for i, (x, y) in enumerate([(False, False), (False, True), (True, False), (True, True)]):
        for j, (a, b) in enumerate([(1, 1), (1, 2), (2, 1)]):
            o = ('N',) if (i + j) % 2 == 0 else ('O', ('I', 7))
            out.append([('B', x), ('B', y), ('I', a), ('I', b), o])
    return out


def bool_eval(s, args):
    """the value of a shape under an assignment (the language semantics of these operators)"""
    env = {'x': args[0][1], 'y': args[1][1], 'a': args[2][1], 'b': args[3][1], 'o': args[4][0] == 'O'}
    def ev(e):
        k = e[0]
        if k == 'EBool':
            return e[1]
        if k == 'EVar':
            return env[e[1]]
        if k == 'ENot':
            return not ev(e[1])
        if k == 'EAnd':
            return ev(e[1]) and ev(e[2])
        if k == 'EOr':
            return ev(e[1]) or ev(e[2])
        if k == 'EIs':
            return env['o'] == e[2]
        a, b = env['a'], env['b']
        return {'BEq': a == b, 'BNe': a != b, 'BLt': a < b, 'BGe': a >= b}[e[1]]
    return ev(s)


def bool_in_context(s, c):
    """the shape as a value, as the scrutinee of if / match"""
    if c % 3 == 0:
        return s
    if c % 3 == 1:
        return ('EIf', s, ('EBlock', [], ('EBool', True)), ('EBlock', [], ('EBool', False)))
    return ('EMatch', s, [(('PVals', [('PLit', ('LBool', True))]), ('EBool', True)), (('PVals', [('PLit', ('LBool', False))]), ('EBool', False))])


def bool_policy(shapes, first=0):
    """one policy: a function per shape (value / if / match position in turn), functions with the shape next to a
    diverging operand (compiled, never called), and main returning the bit mask of the results"""
    funs = []
    acc = ('EInt', 0)
    for i, s in enumerate(shapes):
        name = 'b%d' % i
        funs.append({'name': name, 'params': BOOL_PARAMS, 'ret': T_BOOL, 'body': [('SReturn', bool_in_context(s, first + i))]})
        if i % 4 == 0:
            op = 'EOr' if (i // 4) % 2 == 0 else 'EAnd'
            funs.append({'name': 'd%d' % i, 'params': BOOL_PARAMS, 'ret': T_BOOL,
                         'body': [('SReturn', (op, s, ('ETodo',)) if i % 8 == 0 else (op, ('ENot', s), ('ETodo',)))]})
        call = ('ECall', name, [('EVar', v) for v, _ in BOOL_PARAMS])
        bit = ('EIf', call, ('EBlock', [], ('EInt', 1 << i)), ('EBlock', [], ('EInt', 0)))
        acc = ('ECall', 'saturating_add', [acc, bit])
    funs.append({'name': 'main', 'params': BOOL_PARAMS, 'ret': T_INT, 'body': [('SReturn', acc)]})
    return {'enums': [], 'structs': [], 'effects': [], 'facts': [], 'globals': [], 'funs': funs, 'finfuns': [], 'cmds': [],
            'actions': [], 'uses_ffi': False}


def bool_family(rng, thorough, per_policy=32):
    """the policies of the family: thorough = all of depth <= 2, every !s for s of depth 2, and a depth-3 sample;
    quick = depth 1, and samples of depth 2 and depth 3"""
    d1, d2 = bool_depth1(), bool_depth2()
    if thorough:
        shapes = d1 + d2 + [('ENot', s) for s in d2] + bool_depth3_sample(rng, 1200, d2)
    else:
        shapes = d1 + [rng.choice(d2) for _ in range(92)] + bool_depth3_sample(rng, 123, d2)
    pols = []
    for i in range(0, len(shapes), per_policy):
        pols.append((bool_policy(shapes[i:i + per_policy], first=i), shapes[i:i + per_policy]))
    return pols


# ------------------------------------------------------------------ match-exhaustiveness family (C24, C22)
# Scrutinee types option[T] and result[T, E] over a small universe of component types with different
# cardinalities; arm sets: a binding or 0 / k-1 / k literals (or a literal then the binding) on each side,
# with and without a default arm, both orders of the sides.  (Struct literal patterns are not in the model.)

MATCH_ENUMS = [('M2', ['A', 'B']), ('M3', ['A', 'B', 'C']), ('M4', ['A', 'B', 'C', 'D'])]
MATCH_UNIVERSE = [T_BOOL, ('enum', 'M2'), ('enum', 'M3'), ('enum', 'M4'), T_INT]


def comp_values(t):
    """(literal, value) for the values of a component type (ints: the literals used in patterns and two others)"""
    if t == T_BOOL:
        return [(('LBool', b), ('B', b)) for b in (True, False)]
    if t[0] == 'enum':
        vs = dict(MATCH_ENUMS)[t[1]]
        return [(('LEnum', t[1], v), ('E', t[1], i)) for i, v in enumerate(vs)]
    return [(('LInt', n), ('I', n)) for n in (0, 1, 5, 9223372036854775807)]


def comp_card(t):
    return None if t == T_INT else len(comp_values(t))


def side_options(t):
    """coverage options of one side: ('bind',), ('lits', n), ('lit+bind',)"""
    k = comp_card(t)
    ns = [0, 1, 2] if k is None else sorted({0, k - 1, k})
    return [('bind',)] + [('lits', n) for n in ns] + [('lit+bind',)]


def side_arms(wrap_lit, wrap_bind, t, optn, var):
    """the patterns of one side and whether they cover it"""
    vals = comp_values(t)
    k = comp_card(t)
    if optn[0] == 'bind':
        return [('PVals', [('PBind', wrap_bind, var)])], True
    if optn[0] == 'lit+bind':
        return [('PVals', [('PLit', (wrap_lit, vals[0][0]))]), ('PVals', [('PBind', wrap_bind, var)])], True
    n = optn[1]
    return [('PVals', [('PLit', (wrap_lit, l))]) for (l, _) in vals[:n]], (k is not None and n >= k)


def match_shapes():
    """every (scrutinee type, patterns, covered?) of the family"""
    out = []
    for t in MATCH_UNIVERSE:
        for so in side_options(t):
            some, cov_s = side_arms('LSome', 'W_Some', t, so, 'v')
            for none in (True, False):
                for default in (True, False):
                    for order in (0, 1):
                        n_arm = [('PVals', [('PLit', ('LNone',))])] if none else []
                        pats = (some + n_arm) if order == 0 else (n_arm + some)
                        if default:
                            pats = pats + [('PDefault',)]
                        out.append((('opt', t), pats, default or (cov_s and none)))
    for t in MATCH_UNIVERSE:
        for e in MATCH_UNIVERSE:
            for so in side_options(t):
                oks, cov_o = side_arms('LOk', 'W_Ok', t, so, 'v')
                for eo in side_options(e):
                    errs, cov_e = side_arms('LErr', 'W_Err', e, eo, 'w')
                    for default in (True, False):
                        for order in (0, 1):
                            pats = (oks + errs) if order == 0 else (errs + oks)
                            if default:
                                pats = pats + [('PDefault',)]
                            out.append((('res', t, e), pats, default or (cov_o and cov_e)))
    return [s for s in out if s[1]]


def match_policy(shape, as_expr):
    st, pats, _ = shape
    if as_expr:
        body = [('SReturn', ('EMatch', ('EVar', 's'), [(p, ('EInt', i + 1)) for i, p in enumerate(pats)]))]
    else:
        body = [('SMatch', ('EVar', 's'), [(p, [('SReturn', ('EInt', i + 1))]) for i, p in enumerate(pats)]), ('SReturn', ('EInt', 99))]
    f = {'name': 'main', 'params': [('s', st)], 'ret': T_INT, 'body': body}
    return {'enums': MATCH_ENUMS, 'structs': [], 'effects': [], 'facts': [], 'globals': [], 'funs': [f], 'finfuns': [], 'cmds': [],
            'actions': [], 'uses_ffi': False}


def scrutinee_values(st):
    if st[0] == 'opt':
        return [('N',)] + [('O', v) for (_, v) in comp_values(st[1])]
    return [('K', v) for (_, v) in comp_values(st[1])] + [('R', v) for (_, v) in comp_values(st[2])]


# ---- shapes with a hole: a diverging operand as the right operand of an inner short circuit (C23)
HOLE = ('HOLE',)


class HoleReached(Exception):
    pass


def bool_holes(s):
    """the shape with the right operand of one of its && / || nodes replaced by HOLE (every such node, any depth)"""
    out = []
    k = s[0]
    if k in ('EAnd', 'EOr'):
        out.append((k, s[1], HOLE))
        out += [(k, h, s[2]) for h in bool_holes(s[1])]
        out += [(k, s[1], h) for h in bool_holes(s[2])]
    elif k == 'ENot':
        out += [('ENot', h) for h in bool_holes(s[1])]
    return out


def bool_eval_lazy(s, args):
    """value under the assignment; raises HoleReached when evaluation gets to the hole"""
    if s == HOLE:
        raise HoleReached()
    k = s[0]
    if k == 'ENot':
        return not bool_eval_lazy(s[1], args)
    if k == 'EAnd':
        return bool_eval_lazy(s[1], args) and bool_eval_lazy(s[2], args)
    if k == 'EOr':
        return bool_eval_lazy(s[1], args) or bool_eval_lazy(s[2], args)
    return bool_eval(s, args)


def fill_hole(s, e):
    if s == HOLE:
        return e
    if s[0] in ('EAnd', 'EOr'):
        return (s[0], fill_hole(s[1], e), fill_hole(s[2], e))
    if s[0] == 'ENot':
        return ('ENot', fill_hole(s[1], e))
    return s
