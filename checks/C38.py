"""C38 — AFC channel keys agree only for matching parameters."""
import vlib

import crypto_common as cc


def run(ctx):
    cc.regen_mine(ctx)
    vlib.prove(ctx, extra_targets=["model/CryptoCases.vo"])
    binp = vlib.cargo_build(ctx, "hx-crypto", bin="c38")
    if not binp:
        return
    r = ctx.rng
    n = 80 if ctx.thorough else 8
    cases = []
    for j in range(n):
        seed = bytes(r.below(256) for _ in range(8))
        parent, seal_id, open_id, label = (bytes(r.below(256) for _ in range(32)) for _ in range(4))
        if j % 8 == 7:
            open_id = seal_id            # must be rejected
        cases.append((seed, parent, seal_id, open_id, label))
    lines = []
    for c in cases:
        args = " ".join(x.hex() for x in c)
        lines += ["frame " + args, "sweep " + args]
    ol = cc.run_lines(ctx, binp, lines)
    if ol is None:
        return
    items, bad, nmut, kinds = [], [], 0, {}
    for i, c in enumerate(cases):
        same = c[2] == c[3]
        parts = ol[2 * i].split(" || ")
        kv = dict(x.split("=") for x in parts[0].split() if "=" in x)
        sw = dict(x.split("=", 1) for x in ol[2 * i + 1].split())
        if same:
            if "rejected" not in parts[0] or any(v != "err" for v in sw.values()) or not sw:
                bad.append((i, "same-id", "a channel with seal_id = open_id was not rejected: %s" % ol[2 * i + 1][:200]))
            continue
        if kv.get("agree") != "true":
            bad.append((i, "frame", "author and peer keys differ for matching parameters"))
        ik = [[e[2] for e in cc.parse_log(p) if e[0] == "X"] for p in parts[1:4]]
        items.append((i, [cc.unhex(x) for x in kv["oids"].split(",")], c[1], c[2], c[3], c[4], ik))
        m, k = cc.sweep_oracle(sw, {"base": "agree", "handler.created": "sealonly", "handler.received": "openonly-agree"}, bad, i)
        nmut += m
        for a, b in k.items():
            kinds[a] = kinds.get(a, 0) + b
    H = cc.coq_hex

    def render(chunk):
        its = ["(%s, %s, %s, %s, %s, %s, %s, %s)" % (vlib.coq_list([H(x) for x in oids]), H(p), H(s), H(o), H(l),
                                                     vlib.coq_list([H(x) for x in ik[0]]), vlib.coq_list([H(x) for x in ik[1]]),
                                                     vlib.coq_list([H(x) for x in ik[2]])) for (_, oids, p, s, o, l, ik) in chunk]
        return "Definition cases : list c38_case := %s.\nEval vm_compute in (mismatches c38_chk cases).\n" % vlib.coq_list(its)
    mism = cc.eval_mismatches(ctx, "c38", items, render, shard=40)
    if mism is None:
        return
    ctx.coverage.update({
        "traces_validated_against_impl": len(cases),
        "evaluations": nmut + len(cases),
        "distinct_nontrivial": len({c[1:] for c in cases if c[2] != c[3]}),
        "rule": "case = (key seed, parent command id, seal id, open id, label id); `frame` (recording suite) runs UniSecrets::new, "
                "from_author_secret and from_peer_encap: the HPKE info each key schedule extracts must be the model's AfcUniKey-v1 struct bytes "
                "+ suite OIDs; `sweep` (default suite) lets the peer derive its key after a bit flip in every byte of every parameter, swapped "
                "and shifted ids, another author key, another peer key and a modified encapsulation — the derived key must differ from the "
                "author's and fail to open the author's message — and exercises the afc-util handler's role checks; every 8th case has "
                "seal_id = open_id and must be rejected everywhere; non-trivial = seal_id <> open_id",
        "distribution": {"cases": len(cases), "same_id_cases": sum(1 for c in cases if c[2] == c[3]), "mutations_checked": nmut, "mutations_by_kind": kinds},
        "samples": [{"case": lines[2 * i]} for i in range(2)],
    })
    ctx.assumptions += ["HPKE (DHKEM key schedule) idealised: pub injective, DH commutative, KemKdf and KeySched free constructors (ideal_hpke)",
                        "ids are 32 bytes (uni_wf)"]
    for (i, label, why) in bad[:3]:
        ctx.violation("channel key agreement broken: " + why,
                      {"case": lines[2 * i + 1], "mutation": label, "contradicts": "uni_keys_agree_iff (coq/props/C38.v)",
                       "replay_cmd": "echo '%s' | %s   # look at `%s=`" % (lines[2 * i + 1], binp, label)})
    ctx.oblige("correspondence:hpke-info=model", not mism, "cases %s, first: %s" % (mism[:5], lines[2 * items[mism[0]][0]] if mism else ""))
    ctx.oblige("oracle:only-matching-parameters-agree", not bad, str(bad[:3]))
