"""C19 — hello notifications never suppress a needed sync."""
import hashlib
import importlib.util
import os

import vlib

_spec = importlib.util.spec_from_file_location("_sync_lib", os.path.join(os.path.dirname(os.path.abspath(__file__)), "_sync_lib.py"))
S = importlib.util.module_from_spec(_spec)
_spec.loader.exec_module(S)

F13_CLASS = "the advertised hello head is a materialised merge command whose parents are exactly the receiver's unmerged heads"


def merge_cmd(a, b):
    """address of the harness policy's merge command of two addresses (id hex, max_cut): MergeIds order + hash of the data"""
    l, r = (a, b) if bytes.fromhex(a[0]) < bytes.fromhex(b[0]) else (b, a)
    data = bytes([2]) + bytes.fromhex(l[0]) + l[1].to_bytes(8, "big") + bytes.fromhex(r[0]) + r[1].to_bytes(8, "big") + (0).to_bytes(8, "big")
    return (hashlib.sha256(data).hexdigest(), max(l[1], r[1]) + 1), l, r


def py_hello_head(heads):
    """the fold, in Python, recording every merge id it needs: (address, [(l id, r id, merge id)])"""
    q = list(heads)
    tab = []
    if len(q) == 1:
        return q[0], tab
    while len(q) > 1:
        a, b = q.pop(0), q.pop(0)
        m, l, r = merge_cmd(a, b)
        tab.append((l[0], r[0], m[0]))
        q.append(m)
    return (q[0] if q else None), tab


def f13_world(g):
    lines = ["world 5", "init 0 %d 8" % g.nn()]
    g.acts(lines, 0, 96, prio=0)
    lines += ["sess 1 0 sid=1", "sess 2 0 sid=2", "sess 4 0 sid=3"]
    g.acts(lines, 1, 1, prio=0)
    g.acts(lines, 2, 1, prio=0)
    lines += ["sess 0 1 sid=4", "sess 0 2 sid=5"]
    g.acts(lines, 0, 1, prio=0)
    lines += ["sess 3 0 sid=6 maxpolls=1", "sess 4 1 sid=7", "sess 4 2 sid=8"]
    return {"kind": "f13", "lines": lines, "k": 5}


def hello_world(g, r):
    """several writers, partial syncs: multi-head replicas, materialised and virtual merges"""
    k = r.choice([3, 4, 4, 5])
    lines = ["world %d" % k, "init 0 %d 8" % g.nn()]
    g.acts(lines, 0, r.choice([1, 2, 5]), prio=0)
    have = {0}
    sid = 10
    for _ in range(r.range(6, 16)):
        c = r.below(6)
        if c <= 1 and have:
            g.acts(lines, r.choice(sorted(have)), r.choice([1, 1, 2, 3]))
        else:
            b = r.choice(sorted(have))
            a = r.choice([x for x in range(k) if x != b])
            sid += 1
            lines.append("sess %d %d sid=%d cache=%s" % (a, b, sid, r.choice(["keep", "fresh"])))
            have.add(a)
    return {"kind": "hello", "lines": lines, "k": k}


def wide_world(g, r):
    """k-1 writers on top of a common prefix, collected by one replica without acting: 3-5 heads"""
    k = r.choice([5, 6])
    lines = ["world %d" % k, "init 0 %d 8" % g.nn()]
    g.acts(lines, 0, r.choice([1, 3]), prio=0)
    sid = 10
    writers = list(range(1, k - 1))
    for w in writers:
        sid += 1
        lines.append("sess %d 0 sid=%d" % (w, sid))
    for w in writers:
        g.acts(lines, w, r.choice([1, 2]))
    for w in writers:
        sid += 1
        lines.append("sess 0 %d sid=%d" % (w, sid))          # client 0: one head per writer
    sid += 1
    lines.append("sess %d 0 sid=%d" % (k - 1, sid))          # a second replica with the same head set
    if r.chance(1, 2):
        g.acts(lines, 0, 1)                                   # collapse: materialised merges
        sid += 1
        lines.append("sess %d 0 sid=%d" % (writers[0], sid))
    return {"kind": "wide", "lines": lines, "k": k}


def many_heads_world(g, r):
    """a publisher with 11-14 lazily merged heads (more than PEER_HEAD_MAX = 10): k sibling commands on one common base,
    collected without an action in between; subscribers holding exactly the 9/10/11 smallest-id heads, all heads, a random subset"""
    k = r.range(11, 14)
    nb = r.choice([1, 2, 4])
    subsets = [list(range(9)), list(range(10)), list(range(11)), list(range(k)),
               sorted(r.shuffle(list(range(k)))[:r.range(1, k - 1)]), list(range(k - 10, k))]
    pub = k + 1
    nclients = pub + 1 + len(subsets)
    lines = ["world %d" % nclients, "init 0 %d 8" % g.nn()]
    g.acts(lines, 0, nb, prio=0)
    for w in range(1, k + 1):
        lines.append("feed %d 0" % w)
    for w in range(1, k + 1):
        g.acts(lines, w, 1)
    for w in range(1, k + 1):
        lines.append("feed %d %d" % (pub, w))                 # publisher: one head per writer, nothing merged
    subs = []
    for j, sel in enumerate(subsets):
        c = pub + 1 + j
        lines.append("feed %d %d heads=%s" % (c, pub, ",".join(str(x) for x in sel)))
        subs.append(c)
    group = [pub] + subs + [0, 1]
    return {"kind": "manyheads", "lines": lines, "k": nclients, "pairs": [(p, q) for p in group for q in group if p != q]}


def regraph_world(g, r):
    """client 2 (X) copies the publisher's graph, computes its hello head, REMOVES the graph and fetches it again — in the same
    number of transactions — from client 1 (Q), which is behind the publisher (client 0); then the hello decisions are taken."""
    lines = ["world 4", "init 0 %d 8" % g.nn()]
    g.acts(lines, 0, r.choice([1, 2, 5]), prio=0)
    two_heads = r.chance(1, 2)
    if two_heads:
        lines.append("feed 3 0")
        g.acts(lines, 3, 1)
    lines.append("feed 1 0")                                   # Q: behind
    g.acts(lines, 0, r.choice([1, 2, 4]), prio=0)
    if two_heads:
        lines.append("feed 0 3")                              # publisher: two lazily merged heads
        lines.append("feed 1 3")
    lines += ["feed 2 0", "warm 2", "hello 0 2", "remove 2", "feed 2 1"]
    if r.chance(1, 2):
        lines.append("warm 2")
    return {"kind": "regraph", "lines": lines, "k": 4, "pairs": [(p, q) for p in range(3) for q in range(3) if p != q]}


def add_queries(r, case):
    """dumps of every client, then hello between all ordered pairs"""
    k = case["k"]
    lines = list(case["lines"])
    for c in range(k):
        lines.append("dump %d" % c)
    for (p, q) in case.get("pairs") or [(p, q) for p in range(k) for q in range(k) if p != q]:
        lines.append("hello %d %d" % (p, q))
    return lines


def run(ctx):
    vlib.prove(ctx, extra_targets=["model/SyncCases.vo", "model/SyncHello.vo"])
    binp = vlib.cargo_build(ctx, "hx-sync", bin="c17")
    if not binp:
        return
    g = S.WorldGen(ctx.rng)
    r = ctx.rng
    n = 220 if ctx.thorough else 22
    cases = [f13_world(g)] + [hello_world(g, r) for _ in range(n)] + [wide_world(g, r) for _ in range(max(3, n // 6))]
    cases += [many_heads_world(g, r) for _ in range(12 if ctx.thorough else 2)]
    cases += [regraph_world(g, r) for _ in range(12 if ctx.thorough else 3)]
    rp = S.replay_script(ctx)
    if rp:
        base = [l for l in rp if not l.startswith(("hello", "dump"))]
        cases = [{"kind": "replay", "lines": base, "k": int(base[0].split()[1])}]
    f13 = next((f for f in ctx.known_findings() if f.get("id") == "F13"), None)
    items = []
    viol = []
    stats = {"worlds": 0, "hello_pairs": 0, "decisions_no_sync": 0, "decisions_sync": 0, "receiver_without_graph": 0,
             "multi_head_advertisers": 0, "multi_head_receivers": 0, "equal_head_sets": 0, "no_sync_via_equal_hello_head": 0,
             "no_sync_via_committed_address": 0, "addr_queries": 0, "addr_no_sync": 0, "f13_hits": 0, "max_heads": 0,
             "advertisers_over_10_heads": 0, "regraph_worlds": 0, "receivers_holding_exactly_10_smallest_of_more": 0}
    known = 0
    for ci, case in enumerate(cases):
        lines = add_queries(r, case)
        ev, err = S.run_world(binp, {"lines": lines})
        if err:
            ctx.oblige("harness:run", False, err)
            return
        stats["worlds"] += 1
        dumps = {}
        hellos = []
        for (op, chunk) in ev:
            t = op.split()
            if t[0] == "dump" and chunk:
                dumps[int(t[1])] = S.parse_dump(chunk[0])
            elif t[0] == "hello" and chunk and dumps:        # hello ops inside the history (before the dumps) only warm caches
                hellos.append((int(t[1]), int(t[2]), chunk[0]))
        stats["regraph_worlds"] += 1 if case["kind"] == "regraph" else 0
        dag = S.Dag()
        prio = {}
        for d in dumps.values():
            if "error" not in d:
                dag.add_dump(d)
                for s_ in d["segs"]:
                    for c in s_["cmds"]:
                        prio[c["id"]] = c["prio"]

        def mclose(base):
            cl = set(base)
            changed = True
            while changed:
                changed = False
                for i, ps in dag.parents.items():
                    if i not in cl and prio.get(i) == "M" and ps and all(p in cl for p in ps):
                        cl.add(i)
                        changed = True
            return cl
        # second round: address queries against every receiver (committed / wrong max_cut / unknown / others' hello heads)
        q2 = []
        allids = sorted(dag.mc)
        for rc in range(case["k"]):
            if rc not in dumps or "error" in dumps[rc] or not allids:
                continue
            for _ in range(3):
                i = r.choice(allids)
                mc = dag.mc[i] if r.chance(2, 3) else dag.mc[i] + r.choice([1, 5])
                q2.append((rc, i, mc))
            q2.append((rc, "%064x" % r.below(1 << 200), r.below(50)))
        ev2, err = S.run_world(binp, {"lines": lines + ["hello_addr %d %s %d" % q for q in q2]})
        if err:
            ctx.oblige("harness:run", False, err)
            return
        addr_res = [chunk[0] for (op, chunk) in ev2 if op.startswith("hello_addr") and chunk]
        # ---- oracle
        for (p, rr, line) in hellos:
            kv = dict(x.split("=", 1) for x in line.split()[1:] if "=" in x)
            dp, dr = dumps.get(p), dumps.get(rr)
            if dp is None or "error" in dp:
                continue                                         # the advertiser has no graph: nothing to advertise
            stats["hello_pairs"] += 1
            dec = kv["should_sync"]
            cp = S.committed(dp)
            stats["multi_head_advertisers"] += 1 if len(dp["heads"]) > 1 else 0
            stats["max_heads"] = max(stats["max_heads"], len(dp["heads"]))
            stats["advertisers_over_10_heads"] += 1 if len(dp["heads"]) > 10 else 0
            if dr is not None and "error" not in dr and len(dp["heads"]) > 10 and \
                    sorted(h[0] for h in dr["heads"]) == sorted(h[0] for h in dp["heads"])[:10]:
                stats["receivers_holding_exactly_10_smallest_of_more"] += 1
            if dr is None or "error" in dr:
                stats["receiver_without_graph"] += 1
                if dec != "1":
                    viol.append((ci, "a replica without the graph decided not to sync", lines, line))
                continue
            cr = S.committed(dr)
            stats["multi_head_receivers"] += 1 if len(dr["heads"]) > 1 else 0
            if {h[0] for h in dp["heads"]} == {h[0] for h in dr["heads"]}:
                stats["equal_head_sets"] += 1
                if kv["adv"] != kv["own"]:
                    viol.append((ci, "replicas with the same head set computed different hello heads", lines, line))
            if dec == "0":
                stats["decisions_no_sync"] += 1
                stats["no_sync_via_equal_hello_head" if kv["adv"] == kv["own"] else "no_sync_via_committed_address"] += 1
                if not cp <= cr:
                    if cp <= mclose(cr) and all(prio.get(x) == "M" for x in cp - cr):
                        if f13 is not None:
                            known += 1
                            stats["f13_hits"] += 1
                            ctx.report_known(f13, "no sync although the advertiser's merge command is not stored at the receiver "
                                                  "(class: %s) [F13]" % F13_CLASS)
                        else:
                            viol.append((ci, "no sync although the receiver lacks the advertiser's materialised merge command", lines, line))
                    else:
                        viol.append((ci, "decided not to sync although the receiver lacks %d commands of the advertiser" % len(cp - cr), lines, line))
            elif dec == "1":
                stats["decisions_sync"] += 1
            else:
                viol.append((ci, "should_sync_on_hello failed: " + dec, lines, line))
            items.append(("pair", ci, dp, dr, kv, dag))
        for (q, line) in zip(q2, addr_res):
            rc, i, mc = q
            kv = dict(x.split("=", 1) for x in line.split()[1:] if "=" in x)
            stats["addr_queries"] += 1
            dr = dumps[rc]
            if kv["should_sync"] == "0":
                stats["addr_no_sync"] += 1
                own = kv["own"]
                if own != "%s@%d" % (i, mc) and not (i in S.committed(dr) and dag.mc.get(i) == mc):
                    viol.append((ci, "no sync for an address that is neither the own hello head nor committed with that max cut", lines, line))
            items.append(("addr", ci, None, dr, dict(kv, adv="%s@%d" % (i, mc)), dag))
    # ---- model side
    def render(chunk):
        terms = []
        for (kind, ci, dp, dr, kv, dag) in chunk:
            heads_r = [(h[0], h[2]) for h in dr["heads"]]
            heads_p = [(h[0], h[2]) for h in dp["heads"]] if dp else []
            tab = []
            _, t1 = py_hello_head(heads_r)
            tab += t1
            if dp:
                _, t2 = py_hello_head(heads_p)
                tab += t2
            adv_id, adv_mc = kv["adv"].split("@")
            allids = list(dag.mc) + [x for t_ in tab for x in t_] + [adv_id]
            ids = S.Ids(allids)
            # the graph, newest first (max cut descending: parents come later)
            order = sorted(dag.mc, key=lambda i: (-dag.mc[i], i))
            cmds = []
            for i in order:
                ps = dag.parents[i]
                par = "PNone" if not ps else ("(PSingle %d)" % ids[ps[0]] if len(ps) == 1 else "(PMerge2 %d %d)" % (ids[ps[0]], ids[ps[1]]))
                cmds.append("(mkc %d %s)" % (ids[i], par))
            mt = vlib.coq_list(["((%d, %d), %d)" % (ids[l], ids[rr], ids[m]) for (l, rr, m) in tab])
            gterm = vlib.coq_list(cmds)
            hr = vlib.coq_list([str(ids[h[0]]) for h in heads_r])
            exp_dec = {"0": "Some false", "1": "Some true"}.get(kv["should_sync"], "None")
            own_id, own_mc = kv["own"].split("@") if "@" in kv["own"] else (None, None)
            t = "(let g := %s in let mt := %s in " % (gterm, mt)
            t += "obool_eqb (should_sync (mtab mt) (Some (g, %s)) (A %d %s)) (%s)" % (hr, ids.get(adv_id), adv_mc, exp_dec)
            if own_id:
                t += " && oaddr_eqb (hello_head (mtab mt) g %s) (Some (A %d %s))" % (hr, ids.get(own_id), own_mc)
            if kind == "pair":
                hp = vlib.coq_list([str(ids[h[0]]) for h in heads_p])
                t += " && oaddr_eqb (hello_head (mtab mt) g %s) (Some (A %d %s))" % (hp, ids.get(adv_id), adv_mc)
            t += " && wf_graphb g)"
            terms.append(t)
        return "Eval vm_compute in (mismatches (fun b : bool => b) %s).\n" % vlib.coq_list(terms)
    header = ("From Aranya Require Import base.Tactics base.Harness model.Dag model.Wire model.SyncHello.\nOpen Scope N_scope.\n"
              "Definition mkc (i : N) (p : prior) : cmd := {| cid := i; cprio := PBasic 0; cpar := p; cbody := 0 |}.\n"
              "Definition mtab (t : list ((N * N) * N)) (a b : N) : N :=\n"
              "  match find (fun e => (fst (fst e) =? a) && (snd (fst e) =? b)) t with Some e => snd e | None => 0 end.\n"
              "Definition oaddr_eqb (x y : option addr) : bool := match x, y with Some a, Some b => addr_eqb a b | None, None => true | _, _ => false end.\n"
              "Definition obool_eqb (x y : option bool) : bool := match x, y with Some a, Some b => Bool.eqb a b | None, None => true | _, _ => false end.\n")
    outs, chunks = vlib.coq_eval_sharded(ctx, "c19", header, items, render, shard=max(10, len(items) // 14 + 1), timeout=1500)
    mism = []
    base = 0
    for (rc, o), ch in zip(outs, chunks):
        v = vlib.parse_coq_value(o) if rc == 0 else None
        if v is None:
            ctx.oblige("correspondence:model-eval", False, o[-3000:])
            return
        mism += [base + j for j in v]
        base += len(ch)
    ctx.coverage.update({
        "traces_validated_against_impl": len(items),
        "evaluations": len(items),
        "distinct_nontrivial": stats["decisions_no_sync"] + stats["addr_no_sync"],
        "rule": "case = (advertiser, receiver) pair of real ClientStates after generated histories of actions, partial and complete syncs "
                "(multi-head replicas up to 14 lazily merged heads, virtual and materialised merges, receivers holding a prefix / all / a subset "
                "of the advertiser's heads), or (receiver, arbitrary address); hello_head of both and the "
                "decision are compared with the Coq model on the global DAG of the world with the policy's merge-id function tabulated; "
                "non-trivial = the decision was 'no sync'",
        "distribution": stats,
        "samples": [{"adv": kv["adv"][:20], "own": kv["own"][:20], "should_sync": kv["should_sync"]} for (kind, ci, dp, dr, kv, dag) in items[:3]],
    })
    ctx.assumptions += ["merge ids: injective hash and 'a command carrying a merge id is that merge' (merge_hyps; Section hypotheses)",
                        "get_location exact (C11); committed = ancestors of the heads (wf_store / unit txn)"]
    for (ci, why, lines, line) in viol[:3]:
        ctx.violation("hello decision: " + why, {"script": lines, "observed": line,
                                                 "contradicts": "hello_no_false_negative / hello_basics (coq/props/C19.v)"})
    ctx.oblige("correspondence:model=impl", not mism, "cases %s (first: %s)" % (mism[:5], str(items[mism[0]][4]) if mism else ""))
    ctx.oblige("oracle:no-false-negative", not viol, str([(v[0], v[1]) for v in viol[:3]]))
    ctx.oblige("finding:F13-reobserved-on-its-replay", f13 is None or known > 0 or bool(rp), "F13 was not re-observed on its replay world")
