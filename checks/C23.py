"""C23 — untaken operands and branches are never evaluated."""
import os
import sys

sys.path.insert(0, os.path.dirname(os.path.abspath(__file__)))
import vlib
import compiler_common as cc
import compiler_gen as cg

MARK = 999            # the value every hazardous foreign call logs


def hazards(g, t, env):
    """expressions of type t that panic, fail a check, log through the FFI or overflow - if evaluated"""
    lit = g.leaf(t, [{}])
    hs = [('ETodo',),
          ('EBlock', [('SCheck', ('EBool', False), ('ETodo',))], lit),
          ('EBlock', [('SLet', g.fresh('h'), ('EFfi', 't', 'log_int', [('EInt', MARK)]))], lit),
          ('EBlock', [('SLet', g.fresh('h'), ('ECoalesce', ('ECall', 'add', [('EInt', cc.I64_MAX), ('EInt', 1)]), ('ETodo',)))], lit)]
    if t == cc.T_INT:
        hs.append(('EFfi', 't', 'log_int', [('EInt', MARK)]))
        hs.append(('ECoalesce', ('ECall', 'sub', [('EInt', cc.I64_MIN), ('EInt', 1)]), ('ETodo',)))
    if t == cc.T_BOOL:
        hs.append(('EBin', 'BGt', ('EFfi', 't', 'log_int', [('EInt', MARK)]), ('EInt', 0)))
    return hs


def template(g, env, d):
    """(type, expression with a hazard in an untaken position, the same with a harmless literal there)"""
    r = g.r
    t = r.choice([cc.T_INT, cc.T_BOOL, cc.T_STR, cg.ENUM0, cg.opt(cc.T_INT), cg.S0])
    good = g.expr(t, env, d)
    eb = g.expr(cc.T_BOOL, env, d)
    c_false = r.choice([('EBool', False), ('EAnd', eb, ('EBool', False)), ('ENot', ('EOr', eb, ('EBool', True)))])
    c_true = r.choice([('EBool', True), ('EOr', eb, ('EBool', True)), ('ENot', ('EAnd', eb, ('EBool', False)))])
    k = r.below(7)
    def mk(h):
        if k == 0:
            hb = h if t == cc.T_BOOL else ('EBin', 'BEq', h, h)
            return cc.T_BOOL, ('EAnd', c_false, hb)
        if k == 1:
            hb = h if t == cc.T_BOOL else ('EBin', 'BNe', h, h)
            return cc.T_BOOL, ('EOr', c_true, hb)
        if k == 2:
            return t, ('ECoalesce', ('EWrap', 'W_Some', good), h)
        if k == 3:
            return t, ('EIf', c_true, ('EBlock', [], good), ('EBlock', [], h))
        if k == 4:
            return t, ('EIf', c_false, ('EBlock', [], h), ('EBlock', [], good))
        if k == 5:
            vs = g.enum_variants('E0')
            arms = [(('PVals', [('PLit', ('LEnum', 'E0', v))]), good if v == vs[0] else h) for v in vs]
            return t, ('EMatch', ('EEnum', 'E0', vs[0]), arms)
        x = g.fresh('m')
        return t, ('EMatch', ('EWrap', 'W_Some', ('EInt', 5)),
                   [(('PVals', [('PLit', ('LNone',))]), h), (('PVals', [('PLit', ('LSome', ('LInt', 4)))]), h),
                    (('PVals', [('PBind', 'W_Some', x)]), good)])
    hz = r.choice(hazards(g, t, env))
    benign = g.leaf(t, [{}])
    (rt, with_h), (_, without) = mk(hz), mk(benign)
    return rt, with_h, without, k


KINDS = ["&& right operand", "|| right operand", "`or` right operand", "if: else branch", "if: then branch",
         "match: other enum arms", "match: None / literal arms"]


def gen_case(ctx, depth):
    g = cg.Gen(ctx.rng.fork(), depth, ffi=True, todo_rate=10 ** 9)
    g.uses_ffi = True
    if ctx.rng.chance(1, 2):
        g.function('f0')
    params = [(g.fresh('p'), ctx.rng.choice([cc.T_INT, cc.T_BOOL, cg.opt(cc.T_INT)])) for _ in range(ctx.rng.choice([0, 1, 2]))]
    env = [g.leaf_env_globals(), dict(params)]
    pre = g.stmts(cc.T_INT, env, depth - 1, ctx.rng.choice([0, 1]))
    rt, with_h, without, k = template(g, env, depth - 1)
    # the statement form: an if statement whose untaken block holds the hazard
    stmt_form = ctx.rng.chance(1, 4)
    ret_leaf = g.leaf(rt, env)
    def body(e):
        if stmt_form:
            hz_stmt = ('SLet', 'hz', e)
            return pre + [('SIf', [(('EBool', False), [hz_stmt])], None), ('SReturn', ret_leaf)]
        return pre + [('SReturn', e)]
    funs = list(g.funs)
    def pol(e):
        g2 = dict(g.finish_policy())
        g2['funs'] = funs + [{'name': 'main', 'params': params, 'ret': rt if not stmt_form else rt, 'body': body(e)}]
        g2['uses_ffi'] = True
        return g2
    # pre may return early with an int although main returns rt: keep pre free of returns for non-int results
    args = [g.value(t) for _, t in params]
    return pol(with_h), pol(without), args, (7 if stmt_form else k)


def family_case(ctx, shapes, assigns):
    """a shape of the boolean-nesting family as the evaluated operand / scrutinee, a hazard where its value sends nobody"""
    g = cg.Gen(ctx.rng.fork(), 2, ffi=True, todo_rate=10 ** 9)
    g.uses_ffi = True
    s = ctx.rng.choice(shapes)
    args = ctx.rng.choice(assigns)
    v = cg.bool_eval(s, args)
    env = [{}, dict(cg.BOOL_PARAMS)]
    hz = ctx.rng.choice(hazards(g, cc.T_BOOL, env))
    good = ('EBool', ctx.rng.chance(1, 2))
    c = ctx.rng.below(3)
    def mk(h):
        if c == 0:
            return (('EOr', s, h), 1) if v else (('EAnd', s, h), 0)
        if c == 1:
            return (('EIf', s, ('EBlock', [], good), ('EBlock', [], h)), 3) if v else (('EIf', s, ('EBlock', [], h), ('EBlock', [], good)), 4)
        arms = [(('PVals', [('PLit', ('LBool', True))]), good if v else h), (('PVals', [('PLit', ('LBool', False))]), h if v else good)]
        return ('EMatch', s, arms), 8
    def pol(e):
        p = dict(g.finish_policy())
        p['funs'] = [{'name': 'main', 'params': cg.BOOL_PARAMS, 'ret': cc.T_BOOL, 'body': [('SReturn', e)]}]
        p['uses_ffi'] = True
        return p
    (eh, k), (eb, _) = mk(hz), mk(('EBool', ctx.rng.chance(1, 2)))
    return pol(eh), pol(eb), args, k


def hole_case(ctx, shapes, assigns):
    """a diverging / logging operand as the right operand of an INNER && or || of a family shape, under an assignment
    that does not reach it; the shape as a value, as an if condition, or next to another short circuit"""
    g = cg.Gen(ctx.rng.fork(), 2, ffi=True, todo_rate=10 ** 9)
    g.uses_ffi = True
    small = [('EVar', 'x'), ('EVar', 'y'), ('ENot', ('EVar', 'x')), ('EBin', 'BEq', ('EVar', 'a'), ('EVar', 'b')),
             ('EBin', 'BNe', ('EVar', 'a'), ('EVar', 'b')), ('EBin', 'BGe', ('EVar', 'a'), ('EVar', 'b'))]
    for _ in range(200):
        if ctx.rng.chance(2, 3):
            # the core nestings: && inside ||, || inside &&, the hole under the INNER operator, on either side of the outer one
            inner = (ctx.rng.choice(['EAnd', 'EOr']), ctx.rng.choice(small), cg.HOLE)
            outer = ctx.rng.choice(['EAnd', 'EOr'])
            h = (outer, ctx.rng.choice(small), inner) if ctx.rng.chance(2, 3) else (outer, inner, ctx.rng.choice(small))
            c = ctx.rng.choice([0, 0, 3])
        else:
            s = ctx.rng.choice(shapes)
            hs = cg.bool_holes(s)
            if not hs:
                continue
            h = ctx.rng.choice(hs)
            c = ctx.rng.below(4)
        other = ctx.rng.choice(shapes[:45])
        if c == 1:
            h = ('EOr', other, h)
        elif c == 2:
            h = ('EAnd', other, h)
        ok = []
        for a in assigns:
            try:
                ok.append((a, cg.bool_eval_lazy(h, a)))
            except cg.HoleReached:
                pass
        if not ok:
            continue
        args, v = ctx.rng.choice(ok)
        env = [{}, dict(cg.BOOL_PARAMS)]
        hz = ctx.rng.choice([('ETodo',), ('ETodo',)] + hazards(g, cc.T_BOOL, env))
        def pol(fill):
            e = cg.fill_hole(h, fill)
            if c == 3:
                e = ('EIf', e, ('EBlock', [], ('EBool', True)), ('EBlock', [], ('EBool', False)))
            p = dict(g.finish_policy())
            p['funs'] = [{'name': 'main', 'params': cg.BOOL_PARAMS, 'ret': cc.T_BOOL, 'body': [('SReturn', e)]}]
            p['uses_ffi'] = True
            return p
        return pol(hz), pol(('EBool', not v)), args, 9
    return family_case(ctx, shapes, assigns)


def no_returns(x):
    if isinstance(x, tuple) and x and x[0] in ('SReturn', 'EReturn', 'SCheck'):
        return False
    if isinstance(x, (tuple, list)):
        return all(no_returns(c) for c in x)
    return True


def run(ctx):
    vlib.regen(ctx)
    vlib.prove(ctx)
    binp = vlib.cargo_build(ctx, "hx-compiler", bin="c23")
    if not binp:
        return
    n = 900 if ctx.thorough else 90
    depth = 4 if ctx.thorough else 3
    cases = []
    while len(cases) < n:
        ph, pb, args, k = gen_case(ctx, depth)
        main = ph['funs'][-1]
        if not no_returns(main['body'][:-1]) or len(cc.policy_text(ph)) > 6000:
            continue
        cases.append((ph, pb, args, k))
    # the boolean-nesting family in the evaluated position (short circuits whose own code ends in a negation or a join)
    fam_shapes = cg.bool_depth1() + cg.bool_depth2()
    fam_shapes += [('ENot', x) for x in cg.bool_depth2()] if ctx.thorough else cg.bool_depth3_sample(ctx.rng, 400)
    assigns = cg.bool_assignments()
    for i in range(1500 if ctx.thorough else 150):
        cases.append(family_case(ctx, fam_shapes, assigns) if i % 3 == 0 else hole_case(ctx, fam_shapes, assigns))
    lines = []
    for (ph, pb, args, k) in cases:
        lines.append(cc.run_line(ph, "fn", "main", 0, args))
        lines.append(cc.run_line(pb, "fn", "main", 0, args))
        lines.append(cc.compile_line(ph))
    res, err = cc.run_harness(vlib, binp, lines)
    if res is None:
        ctx.oblige("harness:run", False, err)
        return
    oracle_fail, runs, l1, by_kind, exits = [], [], [], {}, {}
    kinds = KINDS + ["if statement: untaken block", "match on a boolean shape: untaken arm",
                     "right operand of an inner && / || not reached"]
    for i, (ph, pb, args, k) in enumerate(cases):
        rh, rb, cl = res[3 * i], res[3 * i + 1], res[3 * i + 2]
        if rh.startswith("compile-err") or rb.startswith("compile-err") or rh == "panic" or rh.startswith("parse"):
            exits["rejected"] = exits.get("rejected", 0) + 1
            continue
        by_kind[kinds[k]] = by_kind.get(kinds[k], 0) + 1
        eh, th, _, lh = cc.run_result(rh)
        eb, tb, _, lb = cc.run_result(rb)
        exits[eh] = exits.get(eh, 0) + 1
        why = None
        if any((":I%d" % MARK) in e for e in lh):
            why = "a foreign call in an untaken position ran (FFI log %s)" % lh
        elif (eh, th if eh == 'normal' else None, lh) != (eb, tb if eb == 'normal' else None, lb):
            why = "result or I/O log depends on the untaken sub-term: %s|%s|%s vs %s|%s|%s" % (eh, th, lh, eb, tb, lb)
        if why:
            oracle_fail.append((i, why))
        runs.append((ph, args, 0, (eh, th, lh)))
        if cl.startswith("ok ") or cl.startswith("err "):
            l1.append((ph, cl))
    for (i, why) in oracle_fail[:3]:
        ph, pb, args, k = cases[i]
        ctx.violation("an untaken operand/branch was evaluated (%s): %s" % (kinds[k], why),
                      {"policy": cc.policy_text(ph), "policy_with_harmless_subterm": cc.policy_text(pb),
                       "args": [cc.val_text(x) for x in args], "impl_with_hazard": res[3 * i], "impl_without": res[3 * i + 1],
                       "contradicts": "untaken_not_executed (coq/props/C23.v)",
                       "replay_cmd": "echo '%s' | build/target/debug/c23" % cc.run_line(ph, "fn", "main", 0, args)})
    ctx.oblige("oracle:untaken-subterm-has-no-effect", not oracle_fail, str(oracle_fail[:3]))
    # L1: the lowering (jump structure) is the mechanism - the model's code equals the compiler's
    mism, cerr = cc.coq_mismatches(vlib, ctx, "c23_l1", cc.COQ_HEADER, l1, cc.l1_render, shard=30)
    if mism is None:
        ctx.oblige("correspondence:L1:model-eval", False, cerr)
        return
    ctx.oblige("correspondence:L1:compile-output", not mism,
               "model and compiler differ on %d programs; first: %s" % (len(mism), cc.policy_text(l1[mism[0]][0])[:1200] if mism else ""))
    # L3: the same runs against the reference semantics
    mism3, cerr = cc.coq_mismatches(vlib, ctx, "c23_l3", cc.COQ_HEADER, runs, cc.l3_fn_render, shard=40)
    if mism3 is None:
        ctx.oblige("correspondence:L3:model-eval", False, cerr)
        return
    ctx.oblige("correspondence:L3:impl-run=reference-semantics", not mism3,
               "%d disagreeing runs; first: %s" % (len(mism3), cc.policy_text(runs[mism3[0]][0])[:1200] if mism3 else ""))
    ctx.coverage.update({
        "traces_validated_against_impl": 2 * len(runs) + len(l1),
        "evaluations": 2 * len(runs) + len(l1),
        "distinct_nontrivial": len({cc.policy_text(p) for (p, a, f, r) in runs}),
        "rule": "case = a function whose result is built around one construct with a hazard (todo(), failing check, logging foreign call with marker 999, overflowing checked arithmetic followed by todo()) in the untaken position, run with the hazard and with a harmless literal in its place; non-trivial = accepted by the compiler; distinct by policy text",
        "distribution": {"by_untaken_position": by_kind, "exit_reasons_with_hazard": exits, "nesting_depth": depth},
        "samples": [{"policy": cc.policy_text(p)[-500:], "args": [cc.val_text(x) for x in a], "impl": r} for (p, a, f, r) in runs[:3]],
    })
    ctx.assumptions += ["stated for the frames of function and finish-function bodies (no recall); the evaluated operand must be in the proved fragment, the untaken sub-term is arbitrary",
                        "same side conditions as C22 (layout_check, globals_ok)"]
