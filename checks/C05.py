"""C05 — concurrent finalize commands are always detected."""
import os
import sys
sys.path.insert(0, os.path.dirname(os.path.abspath(__file__)))
import braid_common


def run(ctx):
    braid_common.run_braid_check(ctx, "C05")
