"""C06 — commands rejected at origin leave no trace."""
import os
import sys
import vlib
sys.path.insert(0, os.path.dirname(os.path.abspath(__file__)))
import _txn_common as T  # noqa: E402

POISON = 7          # the value only a write-then-reject rule writes


def oracle(case, outs):
    name, backend, gid, d, ops = case
    bad = []
    rejected = set()
    accepted = {}      # tx -> ids whose rule ran at origin and was not the failing one
    st = {"rejected": 0, "write_then_reject": 0, "reject_first_of_perspective": 0, "reject_mid_batch": 0,
          "child_of_rejected_refused": 0, "commit_after_reject": 0, "internal_error": 0}
    had_reject = {}
    for j, (op, o) in enumerate(zip(ops, outs)):
        if op[0] == "open":
            accepted[op[1]] = set()
            had_reject[op[1]] = False
        if op[0] == "add" and o["res"] != "invalid":
            t = op[1]
            origin = [int(x.split("@")[0]) for x in o["rules"] if x.endswith("@O")]
            if o["res"].startswith("err:Policy"):
                rid = origin[-1] if origin else None
                if rid is None:
                    bad.append((j, "policy error without a rule call at origin"))
                else:
                    rejected.add(rid)
                    st["rejected"] += 1
                    had_reject[t] = True
                    prog = d.cmds[rid].prog
                    if any(x[0] == "W" for x in prog):
                        st["write_then_reject"] += 1
                    if any(x[0] == "I" for x in prog):
                        st["internal_error"] += 1
                    if len(origin) > 1:
                        st["reject_mid_batch"] += 1
                    # sink: the failing command's events are Begin .. Rollback, at the very end
                    if "B" not in o["sink"] or o["sink"][-1] != "R":
                        bad.append((j, "effects of the rejected command %d not rolled back: %s" % (rid, o["sink"])))
                    elif "K" in o["sink"][len(o["sink"]) - 1 - o["sink"][::-1].index("B"):]:
                        bad.append((j, "commit after the last begin of a rejected command"))
                    accepted.setdefault(t, set()).update(origin[:-1])
            else:
                accepted.setdefault(t, set()).update(origin)
            if o["res"].startswith("err:NoSuchParent:"):
                p = int(o["res"].split(":")[2])
                if p in rejected:
                    st["child_of_rejected_refused"] += 1
        if op[0] == "commit" and o["res"] == "ok:true":
            t = op[1]
            if had_reject.get(t):
                st["commit_after_reject"] += 1
            missing = accepted.get(t, set()) - set(o["graph"] or {})
            if missing:
                bad.append((j, "commands accepted earlier in the transaction were not committed: %s" % sorted(missing)[:5]))
        if op[0] == "commit":
            accepted.pop(op[1], None)
        if o["graph"] is not None:
            g = o["graph"]
            inter = rejected & set(g)
            if inter:
                bad.append((j, "rejected command(s) %s are in the committed graph" % sorted(inter)))
            kids = [i for i, ps in g.items() if any(p in rejected for p in ps)]
            if kids:
                bad.append((j, "children %s of rejected commands are committed" % kids[:5]))
        if o["facts"]:
            for kv in o["facts"]:
                if POISON in kv[1:]:
                    bad.append((j, "a fact written by a rejected rule survived: %s" % kv))
    return bad, st


def run(ctx):
    vlib.prove(ctx)
    r = ctx.rng
    cases = T.make_cases(ctx, 0, 0, 0)
    n = 240 if ctx.thorough else 34
    for i in range(n):
        d = T.gen_dag(r, r.range(8, 55 if ctx.thorough else 22), reject_w=r.choice([12, 22, 35]), merge_w=14, deep_w=25)
        ops = T.gen_history(r, d, ntx=r.choice([1, 2, 2, 3]), p_dup=8, p_bad=4, p_flush=12, p_commit=10, p_action=3, p_probe=1)
        cases.append(("r%d" % i, "libc" if i % 3 == 0 else "mem", T.gid_of(d), d, ops))
    # a rejecting command at EVERY position of a batch of accepted commands, then a child of it, then commit
    for i in range(30 if ctx.thorough else 8):
        k = r.range(2, 6)
        d = T.Dag()
        g = 1000 + i
        d.add(T.Cmd(g, "i", (), 1, (("S", 0, 1),)))
        chain = []
        prev = g
        for q in range(k):
            x = g + 10 + q
            d.add(T.Cmd(x, r.choice([0, 1]), (prev,) if r.below(100) < 70 else (g,), 0, (("A", 0, 20 + q), ("E", 200 + q))))
            chain.append(x)
            prev = x
        pos = i % (k + 1)
        parent = chain[pos - 1] if pos > 0 else g
        rej = g + 50
        d.add(T.Cmd(rej, 1, (parent,), 0, (("E", 666), ("W", 3, POISON))))
        kid = g + 51
        d.add(T.Cmd(kid, 1, (rej,), 0, (("A", 0, 99),)))
        batch = chain[:pos] + [rej] + chain[pos:]
        ops = [("open", 0), ("add", 0, [g]), ("add", 0, batch), ("add", 0, chain[pos:]), ("add", 0, [kid])]
        if r.below(2):
            ops.insert(3, ("flush", 0))
        ops += [("add", 0, [rej]), ("commit", 0), ("open", 1), ("add", 1, [kid]), ("add", 1, [rej, kid]), ("commit", 1), ("sess",)]
        cases.append(("pos%d" % i, r.choice(["mem", "libc"]), g, d, ops))
    for i in range(60 if ctx.thorough else 10):
        d, ops = T.gen_merge_history(r, r.range(12, 34), ntx=r.choice([1, 2]), reject_w=25)
        cases.append(("mgr%d" % i, r.choice(["mem", "libc"]), T.gid_of(d), d, ops))
    cases = T.replay_cases(ctx) or cases
    res, mm = T.run_cases(ctx, cases, "c06")
    if res is None:
        return
    viol, tot = [], {}
    for ci, (c, outs) in enumerate(zip(cases, res)):
        bad, st = oracle(c, outs)
        for k, v in st.items():
            tot[k] = tot.get(k, 0) + v
        for (j, why) in bad:
            viol.append((ci, j, why))
    nontriv = sum(1 for c, outs in zip(cases, res) if any(o["res"].startswith("err:Policy") for o in outs)
                  and any(op[0] == "commit" and o["res"] == "ok:true" for op, o in zip(c[4], outs)))
    ctx.coverage.update({
        "traces_validated_against_impl": len(cases),
        "evaluations": sum(len(c[4]) for c in cases),
        "distinct_nontrivial": nontriv,
        "rule": "non-trivial = a history in which a command is rejected at origin and a commit succeeds afterwards; rejecting (write-then-reject / reject / internal error) commands are placed at every batch position, as first command of a fresh perspective, before/after flushes, inside branches later merged; children of rejected commands are delivered afterwards",
        "distribution": dict(T.basic_stats(cases, res), rejections=tot),
        "samples": [{"case": T.case_text(*cases[i])[:1500], "results": [o["res"] for o in res[i]]} for i in (len(cases) - 1,)],
    })
    ctx.assumptions += ["revert(checkpoint) restores the perspective exactly (C13)", "ids identify commands (rclash = false)",
                        "a rule that writes and then rejects occurs at origin only (in a braid the runtime does not revert: C30 excludes it for VM policies)"]
    for (ci, j, why) in viol[:3]:
        ctx.violation("a rejected command left a trace: " + why,
                      dict(T.replay_obj(cases[ci], res[ci], why, j), contradicts="rejected_no_trace (coq/props/C06.v)"))
    T.report_mismatches(ctx, cases, res, mm)
    ctx.oblige("oracle:no-trace-on-impl-output", not viol, str(viol[:3]))
    ctx.oblige("coverage:rejections-hit", tot.get("write_then_reject", 0) > 0 and tot.get("child_of_rejected_refused", 0) > 0
               and tot.get("commit_after_reject", 0) > 0, str(tot))
