"""C09 — the head set is exactly the frontier."""
import os
import sys
import vlib
sys.path.insert(0, os.path.dirname(os.path.abspath(__file__)))
import _txn_common as T  # noqa: E402


def oracle(case, outs):
    """The property itself on the implementation's dump after every operation:
    heads sorted by id, duplicate free, = frontier of the committed graph read back from storage,
    the graph is causally closed and every command descends from the init command."""
    gid = case[2]
    bad = []
    for j, o in enumerate(outs):
        if o["heads"] is None:
            continue
        h, g = o["heads"], o["graph"]
        if g is None:
            bad.append((j, "committed graph could not be read back: %s" % o.get("g")))
            continue
        if h != sorted(h) or len(set(h)) != len(h):
            bad.append((j, "head set %s is not sorted/duplicate-free" % h))
        if sorted(h) != T.frontier(g):
            bad.append((j, "head set %s is not the frontier %s of the committed graph" % (h, T.frontier(g))))
        if not T.closed(g):
            bad.append((j, "committed graph is not causally closed"))
        roots = [i for i, ps in g.items() if not ps]
        if roots != [gid]:
            bad.append((j, "parentless committed commands %s (graph id %d)" % (roots, gid)))
        if any(gid not in T.ancestors(g, x) for x in h):
            bad.append((j, "a head does not descend from the init command"))
    return bad


def run(ctx):
    vlib.prove(ctx)
    r = ctx.rng
    n = 260 if ctx.thorough else 36
    cases = T.make_cases(ctx, n, 8, 70 if ctx.thorough else 26,
                         hist_kw=dict(p_dup=14, p_bad=6, p_flush=16, p_commit=9, p_action=5, p_probe=1),
                         dag_kw=dict(deep_w=35, merge_w=22))
    # stress: a flush between every pair of adds, one command per add, heavy duplication
    for i in range(40 if ctx.thorough else 6):
        d = T.gen_dag(r, r.range(8, 24), deep_w=45, merge_w=25, reject_w=5)
        ops = [("open", 0)]
        seq = list(d.order)
        for x in seq:
            ops.append(("add", 0, [x]))
            if r.below(100) < 70:
                ops.append(("flush", 0))
            if r.below(100) < 35:
                ops.append(("add", 0, [r.choice(seq[:seq.index(x) + 1])]))
            if r.below(100) < 12:
                ops += [("commit", 0), ("open", 0)]
        ops.append(("commit", 0))
        cases.append(("flushy%d" % i, r.choice(["mem", "libc"]), T.gid_of(d), d, ops))
    # merge commands over transaction-local tips / committed heads, duplicates before the merge is flushed
    cases += T.merge_family_cases(ctx, 120 if ctx.thorough else 16, 12, 60 if ctx.thorough else 34)
    if ctx.thorough:
        cases += T.exhaustive_small_cases(False) + T.exhaustive_small_cases(True)
    cases = T.replay_cases(ctx) or cases
    res, mm = T.run_cases(ctx, cases, "c09")
    if res is None:
        return
    viol = []
    for ci, (c, outs) in enumerate(zip(cases, res)):
        for (j, why) in oracle(c, outs):
            viol.append((ci, j, why))
    st = T.basic_stats(cases, res)
    nontriv = 0
    for c, outs in zip(cases, res):
        multi = any(o["heads"] and len(o["heads"]) >= 2 for o in outs)
        seen, dup = set(), False
        for op in c[4]:
            if op[0] == "add":
                for x in op[2]:
                    dup |= x in seen
                    seen.add(x)
        if multi and (dup or any(op[0] == "flush" for op in c[4])):
            nontriv += 1
    ctx.coverage.update({
        "traces_validated_against_impl": len(cases),
        "evaluations": sum(len(c[4]) for c in cases),
        "distinct_nontrivial": nontriv,
        "rule": "a history is non-trivial when some committed state has >= 2 heads and the history contains a duplicate delivery or a flush; "
                "every operation's dump (result, sink, heads, fact cache, hello head, committed ids) is compared with the model inside Coq",
        "distribution": st,
        "samples": [{"case": T.case_text(*cases[i])[:1500], "last": dict(res=res[i][-1]["res"], heads=res[i][-1]["h"])} for i in (0, 2, len(cases) - 1)],
    })
    ctx.assumptions += ["ids identify commands (no two different commands with the same id are ever written: rclash = false)",
                        "locate = exact reachability (C11); braid = a function of the reachable stored commands (C02/C03)",
                        "addresses carry the true max cut of the command they name"]
    for (ci, j, why) in viol[:3]:
        ctx.violation("head set is not the frontier: " + why,
                      dict(T.replay_obj(cases[ci], res[ci], why, j), contradicts="heads_are_frontier (coq/props/C09.v)"))
    T.report_mismatches(ctx, cases, res, mm)
    ctx.oblige("oracle:heads=frontier-on-impl-output", not viol, str(viol[:3]))
