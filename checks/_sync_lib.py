"""Shared helpers of the sync checks (C16–C19): world-script generation, parsing of the
hx-sync runner's event lines, rendering of dumped stores as Coq terms, Python oracles
on the global DAG.  Nothing here decides a property."""
import os
import sys

sys.path.insert(0, os.path.join(os.path.dirname(os.path.dirname(os.path.abspath(__file__))), "lib"))
import vlib  # noqa: E402

ERR_CODES = {"SessionMismatch": 1, "MissingSyncResponse": 2, "SessionState": 3, "NotReady": 4, "CommandOverflow": 5,
             "BufferTooSmall": 6, "MalformedResponse": 7, "UnsupportedRequest": 8, "Serialize": 10, "Bug": 11}


def err_code(kind):
    if kind.startswith("Storage"):
        return 9
    return ERR_CODES.get(kind, 99)


# ---------------------------------------------------------------- parsing

def parse_addr(s):
    i, m = s.split("@")
    return (i, int(m))


def parse_prior_addr(s):
    if s == "-":
        return []
    return [parse_addr(x) for x in s.split("+")]


def parse_loc(s):
    seg, mc = s.split(".")
    return (int(mc), int(seg))          # (max_cut, segment) like the Coq record L mc seg


def parse_cmd(s):
    i, prio, par, plen, dlen = s.split(":")
    return {"id": i, "prio": prio, "parents": parse_prior_addr(par), "plen": int(plen), "dlen": int(dlen)}


def parse_dump(line):
    """`dump <c> heads=… segs=…` -> {"client", "heads": [(id, seg, mc)], "segs": [seg dicts]}"""
    toks = line.split()
    d = {"client": int(toks[1]), "heads": [], "segs": [], "raw": line}
    if len(toks) < 4 or not toks[2].startswith("heads="):
        d["error"] = " ".join(toks[2:])
        return d
    hs = toks[2][len("heads="):]
    if hs != "-":
        for h in hs.split(","):
            i, seg, mc = h.split("@")
            d["heads"].append((i, int(seg), int(mc)))
    ss = toks[3][len("segs="):]
    for s in ss.split(";"):
        if not s:
            continue
        f = s.split("|")
        if len(f) < 6:
            d["error"] = s
            continue
        seg = {"idx": int(f[0]), "first": int(f[1]), "longest": int(f[2]),
               "prior": [] if f[3] == "-" else [parse_loc(x) for x in f[3].split(",")],
               "skip": [] if f[4] == "-" else [parse_loc(x) for x in f[4].split(",")],
               "cmds": [parse_cmd(c) for c in f[5].split(",")]}
        d["segs"].append(seg)
    return d


def parse_session(lines):
    """Event lines of one `sess` op -> dict."""
    s = {"req": None, "sample": [], "sid": None, "rrecv": None, "attempts": [], "adds": [], "rcvs": [],
         "commit": None, "uh": None, "caches": None, "ready_after": None, "raw": lines}
    cur = None
    for l in lines:
        t = l.split()
        if t[0] == "req":
            s["req"] = t[1]
            if t[1] == "ok":
                kv = dict(x.split("=", 1) for x in t[2:] if "=" in x)
                s["sid"] = int(kv["sid"])
                s["req_len"] = int(kv["len"])
                s["sample"] = [] if kv["sample"] == "-" else [parse_addr(a) for a in kv["sample"].split(",")]
            else:
                s["req_err"] = t[2]
        elif t[0] == "rrecv":
            s["rrecv"] = " ".join(t[1:])
        elif t[0] == "poll":
            buf = int(t[1].split("=")[1])
            if t[2] == "ok":
                cur = {"buf": buf, "ok": True, "len": int(t[3]), "msg": None}
            else:
                cur = {"buf": buf, "ok": False, "err": t[3]}
            s["attempts"].append(cur)
        elif t[0] == "msg":
            if cur is None:
                continue
            if t[1] == "resp":
                kv = dict(x.split("=", 1) for x in t[2:] if "=" in x)
                cmds = [] if kv["cmds"] == "-" else [parse_cmd(c) for c in kv["cmds"].split(",")]
                cur["msg"] = {"kind": "resp", "sid": int(kv["sid"]), "idx": int(kv["idx"]), "hdr": int(kv["hdr"]),
                              "data": int(kv["data"]), "cmds": cmds}
            elif t[1] == "end":
                kv = dict(x.split("=", 1) for x in t[2:] if "=" in x)
                cur["msg"] = {"kind": "end", "sid": int(kv["sid"]), "max": int(kv["max"]), "remaining": int(kv["remaining"])}
            elif t[1] == "endsession":
                kv = dict(x.split("=", 1) for x in t[2:] if "=" in x)
                cur["msg"] = {"kind": "endsession", "sid": int(kv["sid"])}
            else:
                cur["msg"] = {"kind": t[1]}
        elif t[0] == "rcv":
            s["rcvs"].append(" ".join(t[1:]))
        elif t[0] == "add":
            s["adds"].append(" ".join(t[1:]))
        elif t[0] == "polls":
            kv = dict(x.split("=", 1) for x in t[2:] if "=" in x)
            s["ready_after"] = int(kv["ready"])
            s["req_ready_after"] = int(kv["reqready"])
        elif t[0] == "commit":
            s["commit"] = " ".join(t[1:])
        elif t[0] == "uh":
            s["uh"] = " ".join(t[1:])
        elif t[0] in ("caches", "cache_before"):
            kv = dict(x.split("=", 1) for x in t[1:] if "=" in x)

            def pc(v):
                if v == "-":
                    return []
                out = []
                for h in v.split(","):
                    i, seg, mc = h.split("@")
                    out.append((i, int(seg), int(mc)))
                return out
            s["caches" if t[0] == "caches" else "cache_before"] = {"req": pc(kv["req"]), "resp": pc(kv["resp"])}
    return s


def split_events(out_lines, script_lines):
    """Pair every script op with the event lines it produced (ops print a terminating line)."""
    res = []
    i = 0
    for op in script_lines:
        k = op.split()[0]
        chunk = []
        if k in ("sess", "conv"):
            end = "sess done" if k == "sess" else "conv done"
            while i < len(out_lines):
                chunk.append(out_lines[i])
                i += 1
                if chunk[-1].startswith(end) or chunk[-1].startswith("panic in"):
                    break
        else:
            if i < len(out_lines):
                chunk.append(out_lines[i])
                i += 1
        res.append((op, chunk))
    return res


def sub_events(chunk):
    """Events inside a `conv` chunk: [("dump", dict) | ("sess", dict)] in order."""
    out = []
    cur = None
    for l in chunk:
        if l.startswith("dump "):
            out.append(("dump", parse_dump(l)))
        elif l.startswith("conv done") or l.startswith("panic in"):
            continue
        else:
            if cur is None:
                cur = []
            cur.append(l)
            if l == "sess done":
                out.append(("sess", parse_session(cur)))
                cur = None
    return out


# ---------------------------------------------------------------- id ranks and Coq rendering

class Ids:
    """32-byte ids -> small positive integers preserving the byte-lexicographic order."""

    def __init__(self, hexes):
        self.rank = {h: i + 1 for i, h in enumerate(sorted(set(hexes)))}

    def __getitem__(self, h):
        return self.rank[h]

    def get(self, h):
        # unknown ids (never stored anywhere): a number above every rank, distinct per id
        if h in self.rank:
            return self.rank[h]
        return len(self.rank) + 1 + (int(h[:12], 16) % 1000003)


def coq_loc(l):
    return "(L %d %d)" % (l[0], l[1])


def coq_prio(p):
    if p == "M":
        return "PMerge"
    if p == "F":
        return "PFinalize"
    if p == "I":
        return "PInit"
    return "(PBasic %s)" % p[1:]


def coq_addr(ids, a):
    return "(A %d %d)" % (ids.get(a[0]), a[1])


def coq_prior(items, f):
    if len(items) == 0:
        return "P0"
    if len(items) == 1:
        return "(P1 %s)" % f(items[0])
    return "(P2 %s %s)" % (f(items[0]), f(items[1]))


def coq_store_literal(ids, d):
    """the store as a Coq list literal (slow to parse for large stores; kept for debugging)"""
    segs = []
    for s in d["segs"]:
        cmds = ["(mk_scmd %d %s %s %s %d)" % (ids.get(c["id"]), coq_prio(c["prio"]),
                                               coq_prior(c["parents"], lambda a: coq_addr(ids, a)),
                                               "None" if c["plen"] < 0 else "(Some %d)" % c["plen"], c["dlen"])
                for c in s["cmds"]]
        segs.append("(mk_seg %d %d %s %s %s)" % (s["idx"], s["first"], vlib.coq_list(cmds),
                                                 coq_prior(s["prior"], coq_loc), vlib.coq_list(s["skip"], coq_loc)))
    heads = ["(%d, L %d %d)" % (ids.get(h[0]), h[2], h[1]) for h in d["heads"]]
    return "(mk_store %s %s)" % (vlib.coq_list(segs), vlib.coq_list(heads))


def coq_store(ids, d):
    """the store as a compact string of comma-terminated hex numbers, parsed inside Coq (SyncCases.store_of)"""
    out = []
    w = out.append
    w(len(d["segs"]))
    for s in d["segs"]:
        w(s["idx"])
        w(s["first"])
        w(len(s["prior"]))
        for l in s["prior"]:
            w(l[0])
            w(l[1])
        w(len(s["skip"]))
        for l in s["skip"]:
            w(l[0])
            w(l[1])
        w(len(s["cmds"]))
        for c in s["cmds"]:
            w(ids.get(c["id"]))
            p = c["prio"]
            w({"M": 0, "F": 2, "I": 3}.get(p[0], 1))
            w(int(p[1:]) if p[0] == "B" else 0)
            w(len(c["parents"]))
            for a in c["parents"]:
                w(ids.get(a[0]))
                w(a[1])
            w(0 if c["plen"] < 0 else c["plen"] + 1)
            w(c["dlen"])
    w(len(d["heads"]))
    for h in d["heads"]:
        w(ids.get(h[0]))
        w(h[2])
        w(h[1])
    return '(store_of "%s"%%string)' % "".join("%x," % n for n in out)


def dump_ids(d):
    out = []
    for s in d["segs"]:
        for c in s["cmds"]:
            out.append(c["id"])
            out += [p[0] for p in c["parents"]]
    out += [h[0] for h in d["heads"]]
    return out


# ---------------------------------------------------------------- DAG oracles (Python, on implementation output)

class Dag:
    """The union of all commands seen in dumps: id -> (parents, max_cut)."""

    def __init__(self):
        self.parents = {}
        self.mc = {}

    def add_dump(self, d):
        for s in d["segs"]:
            for k, c in enumerate(s["cmds"]):
                self.parents[c["id"]] = [p[0] for p in c["parents"]]
                self.mc[c["id"]] = s["first"] + k

    def ancestors(self, roots):
        """ancestor-or-equal closure of the given ids (ids unknown to the DAG are kept as leaves)."""
        seen = set()
        todo = [r for r in roots]
        while todo:
            x = todo.pop()
            if x in seen:
                continue
            seen.add(x)
            todo.extend(self.parents.get(x, []))
        return seen


def committed(d):
    return {c["id"] for s in d["segs"] for c in s["cmds"]}


def dump_wf(d):
    """Checks the model's wf_store assumptions on a real dump; returns a list of complaints."""
    bad = []
    if "error" in d:
        return ["dump error: " + str(d["error"])]
    by_idx = {s["idx"]: s for s in d["segs"]}
    if len(by_idx) != len(d["segs"]):
        bad.append("duplicate segment index")

    def valid(l):
        s = by_idx.get(l[1])
        return s is not None and s["first"] <= l[0] <= s["longest"]
    ids = {}
    for s in d["segs"]:
        if not s["cmds"]:
            bad.append("empty segment %d" % s["idx"])
            continue
        if s["longest"] != s["first"] + len(s["cmds"]) - 1:
            bad.append("longest != first+len-1 in %d" % s["idx"])
        for p in s["prior"] + s["skip"]:
            if not valid(p) or not p[0] < s["first"]:
                bad.append("prior/skip %r of segment %d invalid" % (p, s["idx"]))
        for k, c in enumerate(s["cmds"]):
            if c["id"] in ids:
                bad.append("command stored twice: %s" % c["id"][:8])
            ids[c["id"]] = (s["idx"], s["first"] + k)
            # parents: inside a segment the previous command; the first command's parents sit at the prior locations
            if k > 0:
                if [p[0] for p in c["parents"]] != [s["cmds"][k - 1]["id"]]:
                    bad.append("non-chain command in segment %d" % s["idx"])
            else:
                if len(c["parents"]) != len(s["prior"]):
                    bad.append("prior arity mismatch in segment %d" % s["idx"])
                for (pa, pl) in zip(c["parents"], s["prior"]):
                    ps = by_idx.get(pl[1])
                    if ps is None or not (ps["first"] <= pl[0] <= ps["longest"]) or ps["cmds"][pl[0] - ps["first"]]["id"] != pa[0] or pa[1] != pl[0]:
                        bad.append("prior location does not hold the parent in segment %d" % s["idx"])
            exp_mc = 0 if not c["parents"] else 1 + max(p[1] for p in c["parents"])
            if exp_mc != s["first"] + k:
                bad.append("max_cut of %s is not 1+max(parents)" % c["id"][:8])
    for h in d["heads"]:
        if not valid((h[2], h[1])):
            bad.append("head location invalid")
        elif by_idx[h[1]]["cmds"][h[2] - by_idx[h[1]]["first"]]["id"] != h[0]:
            bad.append("head id not at its location")
    # tips reachable: every stored command is an ancestor-or-equal of a head
    par = {c["id"]: [p[0] for p in c["parents"]] for s in d["segs"] for c in s["cmds"]}
    seen = set()
    todo = [h[0] for h in d["heads"]]
    while todo:
        x = todo.pop()
        if x in seen:
            continue
        seen.add(x)
        todo.extend(par.get(x, []))
    if not set(par) <= seen:
        bad.append("%d stored commands are not ancestors of a head" % len(set(par) - seen))
    return bad


# ---------------------------------------------------------------- Coq prelude used by the generated cases files

COQ_HEADER = """From Aranya Require Import base.Tactics base.Harness model.Dag model.TravQueue model.Wire model.SyncStore model.SyncResp model.SyncReq model.SyncCases.
Open Scope N_scope.
"""


# ---------------------------------------------------------------- world scripts

class WorldGen:
    """Generates world scripts.  Every random choice comes from the given Rng."""

    def __init__(self, rng):
        self.r = rng
        self.nonce = 1

    def nn(self):
        self.nonce += 1
        return self.nonce

    def acts(self, lines, c, n, pad=0, prio=None):
        for _ in range(n):
            p = self.r.choice([0, 0, 0, 1, 2, 7]) if prio is None else prio
            lines.append("act %d %d %d %d" % (c, self.nn(), pad if not callable(pad) else pad(), p))

    def sess(self, lines, a, b, sid, **kw):
        lines.append("dump %d" % b)
        lines.append("dump %d" % a)
        opts = " ".join("%s=%s" % (k, v) for k, v in kw.items())
        lines.append(("sess %d %d sid=%d %s" % (a, b, sid, opts)).strip())

    def small(self):
        r = self.r
        k = r.choice([2, 2, 3, 3, 4])
        lines = ["world %d" % k, "init 0 %d %d" % (self.nn(), r.choice([1, 8, 40]))]
        have = {0}
        sid = r.range(1, 1 << r.choice([7, 20, 64, 100]))
        for _ in range(r.range(4, 12)):
            if r.chance(1, 2) or len(have) == 1 and r.chance(1, 3):
                c = r.choice(sorted(have))
                self.acts(lines, c, r.choice([1, 1, 2, 3, 5, 8]), pad=r.choice([0, 0, 3, 50, 300]))
            else:
                b = r.choice(sorted(have))
                a = r.choice([x for x in range(k) if x != b])
                sid += 1
                self.sess(lines, a, b, sid, cache=r.choice(["keep", "keep", "fresh"]),
                          maxpolls=r.choice([1000, 1000, 1]), uh=r.choice([1, 1, 0]))
                have.add(a)
        # final observed sessions in both directions between two random clients
        a, b = r.choice(sorted(have)), r.choice(range(k))
        if a != b:
            sid += 1
            self.sess(lines, b, a, sid, cache="keep")
            sid += 1
            self.sess(lines, a, b, sid, cache="keep")
        return {"kind": "small", "lines": lines}

    def long_chain(self):
        """> COMMAND_RESPONSE_MAX commands, > SEGMENT_BUFFER_MAX segments, > COMMAND_SAMPLE_MAX sample candidates."""
        r = self.r
        lines = ["world 3", "init 0 %d 8" % self.nn()]
        sid = r.range(1, 1000)
        n0 = r.choice([101, 120, 150, 230])
        self.acts(lines, 0, n0, prio=0)                       # one command per segment on client 0
        for _ in range(r.choice([1, 2, 3])):                  # client 1 catches up in sessions of <= 100 segments
            sid += 1
            self.sess(lines, 1, 0, sid, cache="keep")
        self.acts(lines, 1, r.choice([1, 3, 110, 150]), prio=0)
        self.acts(lines, 0, r.choice([1, 2, 40]), prio=1)
        for _ in range(r.choice([2, 3, 4])):
            sid += 1
            self.sess(lines, 1, 0, sid, cache=r.choice(["keep", "keep", "fresh"]))
            sid += 1
            self.sess(lines, 0, 1, sid, cache="keep")
        sid += 1
        self.sess(lines, 2, 1, sid, cache="fresh")
        sid += 1
        self.sess(lines, 2, 1, sid, cache="keep")
        return {"kind": "long_chain", "lines": lines}

    def straddle(self):
        """Multi-command segments whose boundaries do not line up with the 100-command responses."""
        r = self.r
        lines = ["world 3", "init 0 %d 8" % self.nn()]
        sid = r.range(1, 1000)
        for _ in range(r.choice([2, 3, 4])):
            self.acts(lines, 0, r.choice([37, 60, 99, 100, 101, 130]), prio=0, pad=r.choice([0, 10]))
            sid += 1
            self.sess(lines, 1, 0, sid, cache="keep")
            if r.chance(1, 2):
                sid += 1
                self.sess(lines, 1, 0, sid, cache="keep")
        for _ in range(3):
            sid += 1
            self.sess(lines, 2, 1, sid, cache="keep")
        return {"kind": "straddle", "lines": lines}

    def partial(self):
        """the requester's head lies INSIDE a multi-command segment of the responder (case 2 of find_needed_segments
        with a partial entry), also below a fork"""
        r = self.r
        lines = ["world 4", "init 0 %d 8" % self.nn()]
        sid = r.range(1, 1000)
        self.acts(lines, 0, r.choice([5, 30, 70]), prio=0)
        sid += 1
        self.sess(lines, 1, 0, sid, cache="keep")                 # client 1: a prefix
        self.acts(lines, 0, r.choice([3, 40, 120]), prio=0)
        for _ in range(3):
            sid += 1
            self.sess(lines, 2, 0, sid, cache="keep")             # client 2: everything, in larger batches
        if r.chance(1, 2):
            self.acts(lines, 1, r.choice([1, 2]), prio=1)          # a fork below client 2's segment tip
        sid += 1
        self.sess(lines, 1, 2, sid, cache=r.choice(["keep", "fresh"]))   # client 1's head is inside client 2's segment
        sid += 1
        self.sess(lines, 3, 2, sid, cache="keep", maxpolls=1)
        sid += 1
        self.sess(lines, 3, 1, sid, cache="keep")
        sid += 1
        self.sess(lines, 2, 1, sid, cache="keep")
        return {"kind": "partial", "lines": lines}

    def bigseg(self):
        """ONE responder-side segment with more than 2 x COMMAND_RESPONSE_MAX commands still to send (split over 3+
        responses, every resume point but the first lies inside the segment).  `feed` adds all commands in one
        transaction.  Poll budget = the bound of theorem session_terminates: ceil(total / 100) + 1."""
        r = self.r
        lines = ["world 4", "init 0 %d 8" % self.nn()]
        sid = r.range(1, 1000)
        nb = r.choice([1, 2, 5])
        self.acts(lines, 0, nb, prio=0)
        self.sess(lines, 1, 0, sid, cache="keep")                 # client 1: the common base only
        aligned = r.chance(1, 2)
        if aligned:
            lines.append("feed 2 0")                              # the base gets its own segment: the big one is requested from its first command
        n = r.range(250, 320)
        self.acts(lines, 0, n, prio=0, pad=r.choice([0, 0, 7]))
        lines.append("feed 2 0")                                  # otherwise the requester's head lies inside the big segment
        polls = lambda total: (total + 99) // 100 + 1
        sid += 1
        self.sess(lines, 1, 2, sid, cache="fresh", maxpolls=polls(n))
        sid += 1
        self.sess(lines, 3, 2, sid, cache="fresh", maxpolls=polls(n + nb + 1))   # an empty requester: the whole graph
        sid += 1
        self.sess(lines, 1, 2, sid, cache="keep", maxpolls=polls(0))             # nothing left: a single end message
        return {"kind": "bigseg", "lines": lines}

    def overflow(self):
        """Commands above MAX_COMMAND_LENGTH: a response that exceeds MAX_SYNC_MESSAGE_SIZE."""
        r = self.r
        lines = ["world 2", "init 0 %d 8" % self.nn()]
        self.acts(lines, 0, r.choice([99, 120]), prio=0, pad=r.choice([2100, 2300]))
        sid = r.range(1, 1000)
        self.sess(lines, 1, 0, sid, cache="fresh")
        sid += 1
        self.sess(lines, 1, 0, sid, cache="keep")
        return {"kind": "overflow", "lines": lines}


def add_bufs(rng, case, pass1):
    """Second pass: give every session explicit receive-buffer sizes around the exact fit learned in pass 1."""
    lines = []
    k = 0
    sessions = [s for s in pass1 if s is not None]
    for l in case["lines"]:
        if not l.startswith("sess "):
            lines.append(l)
            continue
        s = sessions[k] if k < len(sessions) else None
        k += 1
        if s is None:
            lines.append(l)
            continue
        slots = []
        for a in s["attempts"]:
            if not a["ok"]:
                slots.append([])
                continue
            L = a["len"]
            hdr = a["msg"]["hdr"] if a.get("msg") and a["msg"].get("kind") == "resp" else L
            ch = rng.below(10)
            if case["kind"] == "bigseg":
                ch = rng.choice([5, 5, 6, 7, 3])        # buffers at and just below the exact fit
            if ch <= 2:
                slots.append([])
            elif ch == 3:
                slots.append([max(L - 1, 0)])
            elif ch == 4:
                slots.append([0, max(L - 1, 0)])
            elif ch == 5:
                slots.append([L])                       # exact fit succeeds
            elif ch == 6:
                slots.append([max(hdr - 1, 0), L])      # header does not fit, then exact fit
            elif ch == 7:
                slots.append([hdr, max(L - 1, 0), L])   # header fits but the data does not
            elif ch == 8:
                slots.append([L // 2])
            else:
                slots.append([rng.below(L + 1), rng.below(L + 1)])
        if any(slots):
            l = l + " bufs=" + "/".join(",".join(str(x) for x in sl) for sl in slots)
        lines.append(l)
    return {"kind": case["kind"], "lines": lines}


def run_world(binp, case, extra_args=()):
    inp = "\n".join(case["lines"]) + "\n"
    rc, out, err = vlib.run_bin(binp, args=list(extra_args), input=inp, timeout=1200)
    if rc != 0:
        return None, "runner exit %d: %s" % (rc, err[-500:])
    return split_events(out.splitlines(), case["lines"]), None


# ---------------------------------------------------------------- postcard encoding of the sync wire types (Python, independent of Rust)

def varint(n):
    out = bytearray()
    while True:
        b = n & 0x7F
        n >>= 7
        if n:
            out.append(b | 0x80)
        else:
            out.append(b)
            return bytes(out)


def enc_id(b32):
    return varint(len(b32)) + b32


def enc_addr(a):            # (id bytes, max_cut)
    return enc_id(a[0]) + varint(a[1])


def enc_prio(p):            # ("M",) ("B", n) ("F",) ("I",)
    return {"M": b"\x00", "F": b"\x02", "I": b"\x03"}.get(p[0]) or (b"\x01" + varint(p[1]))


def enc_prior(ps):
    return varint(len(ps)) + b"".join(enc_addr(a) for a in ps)


def enc_meta(m):            # dict id, prio, parents, plen, len
    return enc_id(m["id"]) + enc_prio(m["prio"]) + enc_prior(m["parents"]) + varint(m["plen"]) + varint(m["len"])


def enc_resp(m):
    k = m["kind"]
    if k == "resp":
        return b"\x00" + varint(m["sid"]) + varint(m["idx"]) + varint(m.get("count", len(m["cmds"]))) + b"".join(enc_meta(c) for c in m["cmds"])
    if k == "end":
        return b"\x01" + varint(m["sid"]) + varint(m["max"]) + bytes([m.get("remaining", 0)])
    if k == "offer":
        return b"\x02" + varint(m["sid"]) + enc_id(m["head"])
    return b"\x03" + varint(m["sid"])


def enc_req(m):
    k = m["kind"]
    if k == "request":
        return b"\x00" + varint(m["sid"]) + enc_id(m["gid"]) + varint(m["max_bytes"]) + varint(m.get("count", len(m["cmds"]))) + b"".join(enc_addr(a) for a in m["cmds"])
    if k == "missing":
        return b"\x01" + varint(m["sid"]) + varint(len(m["idxs"])) + b"".join(varint(i) for i in m["idxs"])
    if k == "resume":
        return b"\x02" + varint(m["sid"]) + varint(m["idx"]) + varint(m["max_bytes"])
    return b"\x03" + varint(m["sid"])


def enc_duration(d):
    return varint(d[0]) + varint(d[1])


def enc_sync_type(m):
    k = m["kind"]
    if k == "poll":
        return b"\x00" + enc_req(m["req"])
    if k == "subscribe":
        return b"\x01" + varint(m["remain_open"]) + varint(m["max_bytes"]) + varint(m.get("count", len(m["cmds"]))) + b"".join(enc_addr(a) for a in m["cmds"]) + enc_id(m["gid"])
    if k == "unsubscribe":
        return b"\x02" + enc_id(m["gid"])
    if k == "push":
        return b"\x03" + enc_resp(m["msg"]) + enc_id(m["gid"])
    h = m["hello"]
    if h["kind"] == "subscribe":
        return b"\x04\x00" + enc_id(h["gid"]) + enc_duration(h["d1"]) + enc_duration(h["d2"]) + enc_duration(h["d3"])
    if h["kind"] == "unsubscribe":
        return b"\x04\x01" + enc_id(h["gid"])
    return b"\x04\x02" + enc_id(h["gid"]) + enc_addr(h["head"])


def coq_byte_list(bs):
    """bytes as a hex string literal decoded inside Coq (long list literals parse very slowly)"""
    return '(hx "%s"%%string)' % bytes(bs).hex()


COQ_HEADER_STR = COQ_HEADER.replace("Open Scope N_scope.", "From Coq Require Import String.\nOpen Scope N_scope.")


def replay_script(ctx):
    """the world script of a replay file given with --replay, if any"""
    if not getattr(ctx, "replay_in", None):
        return None
    try:
        import json
        obj = json.load(open(ctx.replay_in))
    except Exception:
        return None
    sc = obj.get("script")
    return list(sc) if isinstance(sc, list) and sc and sc[0].startswith("world") else None
