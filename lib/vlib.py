"""Shared machinery for the aranya-core Coq verification checks.

Every property check (checks/Cxx.py) is a Python module with a function
`run(ctx)`.  It uses the helpers below to

  1. regenerate coq/gen/*.v from /repo's working tree (tools/gen.py),
  2. build the proof cone of coq/props/Cxx.v with a full `make` (.vo) build,
  3. audit the development (forbidden vernacular, Print Assumptions allowlist),
  4. build the Rust harness against /repo by path and run the correspondence,
  5. write evidence/Cxx.json and print VIOLATION / KNOWN-FINDING lines.

Nothing here decides a property: the theorems do; this file only runs the
proof checker and the correspondence and reports what happened.
"""
import fcntl
import hashlib
import json
import os
import re
import shutil
import subprocess
import sys
import time

ROOT = os.path.dirname(os.path.dirname(os.path.abspath(__file__)))
REPO = os.environ.get("VERIF_REPO", "/repo")
BUILD = os.path.join(ROOT, "build")
_ALT = os.path.realpath(REPO) != "/repo"
_ALT_TAG = hashlib.sha1(os.path.realpath(REPO).encode()).hexdigest()[:8] if _ALT else ""
# A run against a private scratch worktree (VERIF_REPO, used for testing the checks against breaking
# changes) is fully isolated: its own copy of the Coq tree (so regenerated coq/gen files and rebuilt
# .vo files never disturb normal runs), its own cases/audit/target directories, its own evidence.
WORK = os.path.join(BUILD, "alt-" + _ALT_TAG) if _ALT else BUILD
COQ = os.path.join(WORK, "coq") if _ALT else os.path.join(ROOT, "coq")
TARGET = os.path.join(BUILD, "target")
EVID = os.path.join(WORK, "evidence") if _ALT else os.path.join(ROOT, "evidence")
REPLAY = os.path.join(WORK, "replay") if _ALT else os.path.join(ROOT, "replay")


def ensure_alt_coq():
    if not _ALT:
        return
    os.makedirs(WORK, exist_ok=True)
    subprocess.run(["rsync", "-a", "--delete", "--exclude", ".lia.cache", os.path.join(ROOT, "coq") + "/", COQ + "/"], check=True)


HOOK_CFG = "aranya_core_verif"

ALLOWED_AXIOMS = {
    # standard-library axioms that may appear; each is named in DESIGN.md §4
    "functional_extensionality_dep",
    "FunctionalExtensionality.functional_extensionality_dep",
    "Coq.Logic.FunctionalExtensionality.functional_extensionality_dep",
    "proof_irrelevance",
    "Coq.Logic.ProofIrrelevance.proof_irrelevance",
    "Eqdep.Eq_rect_eq.eq_rect_eq",
    "Coq.Logic.Eqdep.Eq_rect_eq.eq_rect_eq",
    "eq_rect_eq",
    "JMeq_eq",
    "Coq.Logic.JMeq.JMeq_eq",
}

FORBIDDEN = re.compile(
    r"\b(Admitted|admit|Axiom|Axioms|Parameter|Parameters|Conjecture|Conjectures|"
    r"Admit\s+Obligations|bypass_check|native_compute)\b|Unset\s+Guard|Unset\s+Positivity|"
    r"Unset\s+Universe\s+Checking|type-in-type|impredicative-set")


class Violation(Exception):
    def __init__(self, msg, replay=None, no_input=False):
        super().__init__(msg)
        self.replay = replay
        self.no_input = no_input


def sh(cmd, cwd=None, timeout=None, env=None, check=False, input=None):
    e = dict(os.environ)
    e.setdefault("CARGO_NET_OFFLINE", "true")
    if env:
        e.update(env)
    p = subprocess.run(cmd, cwd=cwd, timeout=timeout, env=e, input=input,
                       stdout=subprocess.PIPE, stderr=subprocess.STDOUT,
                       shell=isinstance(cmd, str), text=True, errors="replace")
    if check and p.returncode != 0:
        raise RuntimeError("command failed (%d): %s\n%s" % (p.returncode, cmd, p.stdout[-4000:]))
    return p.returncode, p.stdout


class Lock:
    """Serialises make / cargo across checks that may run concurrently."""

    def __init__(self, name):
        os.makedirs(WORK, exist_ok=True)
        self.path = os.path.join(WORK if name == "coq" else BUILD, name + ".lock")

    def __enter__(self):
        self.f = open(self.path, "w")
        fcntl.flock(self.f, fcntl.LOCK_EX)
        return self

    def __exit__(self, *a):
        fcntl.flock(self.f, fcntl.LOCK_UN)
        self.f.close()


# ---------------------------------------------------------------- SplitMix64

class Rng:
    """SplitMix64; every random choice of a check derives from VERIF_SEED."""
    M = (1 << 64) - 1

    def __init__(self, seed):
        self.s = seed & self.M

    def next(self):
        self.s = (self.s + 0x9E3779B97F4A7C15) & self.M
        z = self.s
        z = ((z ^ (z >> 30)) * 0xBF58476D1CE4E5B9) & self.M
        z = ((z ^ (z >> 27)) * 0x94D049BB133111EB) & self.M
        return z ^ (z >> 31)

    def below(self, n):
        return self.next() % n if n > 0 else 0

    def range(self, lo, hi):
        return lo + self.below(hi - lo + 1)

    def choice(self, xs):
        return xs[self.below(len(xs))]

    def chance(self, num, den):
        return self.below(den) < num

    def shuffle(self, xs):
        for i in range(len(xs) - 1, 0, -1):
            j = self.below(i + 1)
            xs[i], xs[j] = xs[j], xs[i]
        return xs

    def fork(self):
        return Rng(self.next())


# ---------------------------------------------------------------- context

class Ctx:
    def __init__(self, pid, tier, seed, replay=None):
        self.pid = pid
        self.tier = tier
        self.seed = seed
        self.replay_in = replay
        self.t0 = time.time()
        self.rng = Rng(seed ^ int(hashlib.sha256(pid.encode()).hexdigest()[:12], 16))
        self.obligations = []      # (name, ok, detail)
        self.coverage = {}
        self.assumptions = []
        self.trusted = []
        self.known_hits = []
        self.violations = []       # (msg, replay_path, no_input)
        self.checker_cmds = []
        self.log_lines = []

    @property
    def thorough(self):
        return self.tier == "thorough"

    def log(self, *a):
        s = " ".join(str(x) for x in a)
        self.log_lines.append(s)
        print("[%s %6.1fs] %s" % (self.pid, time.time() - self.t0, s), flush=True)

    def oblige(self, name, ok, detail=""):
        self.obligations.append((name, bool(ok), detail))
        if not ok:
            self.log("OBLIGATION FAILED:", name, detail[:2000])
        return ok

    # -- findings -----------------------------------------------------
    def known_findings(self):
        p = os.path.join(ROOT, "known_findings.json")
        if not os.path.exists(p):
            return []
        return [f for f in json.load(open(p)).get("findings", [])
                if f.get("property") == self.pid and f.get("status") == "open"]

    def report_known(self, finding, what):
        line = "KNOWN-FINDING: property=%s %s" % (self.pid, what)
        if line not in self.known_hits:
            self.known_hits.append(line)
            print(line, flush=True)

    def violation(self, msg, replay_obj, no_input=False):
        os.makedirs(REPLAY, exist_ok=True)
        path = os.path.join(REPLAY, "%s-%d-%d.json" % (self.pid, self.seed, len(self.violations)))
        replay_obj = dict(replay_obj)
        replay_obj.setdefault("property", self.pid)
        replay_obj.setdefault("seed", self.seed)
        replay_obj.setdefault("tier", self.tier)
        replay_obj["message"] = msg
        with open(path, "w") as f:
            json.dump(replay_obj, f, indent=1, default=str)
        self.violations.append((msg, path, no_input))
        self.log("violation:", msg)
        return path

    # -- finish -------------------------------------------------------
    def finish(self):
        wall = time.time() - self.t0
        nob = len(self.obligations)
        ndis = sum(1 for o in self.obligations if o[1])
        cov = dict(self.coverage)
        cov.setdefault("obligations", nob)
        cov.setdefault("discharged", ndis)
        cov.setdefault("checker_cmd", " && ".join(self.checker_cmds) or "make (coq_makefile) + coqc audit")
        cov.setdefault("trusted_base", self.trusted or default_trusted())
        cov["obligation_list"] = [{"name": n, "ok": ok, **({"detail": d[:500]} if (d and not ok) else {})}
                                  for (n, ok, d) in self.obligations]
        cov["known_findings_hit"] = self.known_hits
        ev = {
            "property_id": self.pid,
            "tier": self.tier,
            "seed": self.seed,
            "level": "proof",
            "coverage": cov,
            "assumptions": self.assumptions,
            "wall_s": round(wall, 2),
            "violations": len(self.violations),
        }
        os.makedirs(EVID, exist_ok=True)
        with open(os.path.join(EVID, self.pid + ".json"), "w") as f:
            json.dump(ev, f, indent=1, default=str)
        failed = [o for o in self.obligations if not o[1]]
        if failed and not self.violations:
            # A proof obligation broke and no failing input was exhibited.
            self.violation("obligations no longer discharged: " + ", ".join(o[0] for o in failed),
                           {"failed_obligations": [{"name": o[0], "detail": o[2][:4000]} for o in failed],
                            "note": "the theorem / correspondence named here no longer checks on this tree; "
                                    "the search found no concrete failing input"},
                           no_input=True)
            ev["violations"] = len(self.violations)
            with open(os.path.join(EVID, self.pid + ".json"), "w") as f:
                json.dump(ev, f, indent=1, default=str)
        if self.violations:
            # one line per distinct replay; a concrete failing input wins over no-input
            concrete = [v for v in self.violations if not v[2]]
            for (msg, path, no_input) in (concrete or self.violations[:1]):
                print("VIOLATION property=%s replay=%s%s" %
                      (self.pid, path, " no-failing-input-found" if no_input else ""), flush=True)
            return 1
        self.log("OK: %d/%d obligations discharged in %.1fs" % (ndis, nob, wall))
        return 0


def default_trusted():
    return [
        "Coq 8.16.1 kernel (coqc; vm_compute used; native_compute not used); coqchk in the thorough tier",
        "axioms: none declared; Print Assumptions of every property theorem checked against the allowlist of DESIGN.md §4",
        "tools/gen.py translator (constants / enum orders / tables regenerated from /repo's working tree)",
        "correspondence harness (Rust runner linked to /repo by path, case generators, canonicalisers) and the cases.v evaluation by vm_compute",
        "external crates and the OS are modelled, not verified (see level_note)",
    ]


# ---------------------------------------------------------------- translator

def regen(ctx, units=None):
    """Regenerate coq/gen/*.v from /repo's current working tree.
    `units` (or "gen_units" in checks/<pid>.json) restricts the run to the named
    translator plug-ins, so that a property is not failed by another unit's generator."""
    sys.path.insert(0, os.path.join(ROOT, "tools"))
    import gen as gen_mod
    if units is None:
        mp = os.path.join(ROOT, "checks", ctx.pid + ".json")
        if os.path.exists(mp):
            units = json.load(open(mp)).get("gen_units")
    with Lock("coq"):
        problems = gen_mod.generate(REPO, os.path.join(COQ, "gen"), units)
    ctx.oblige("translator:regen", not problems, "; ".join(problems))
    return not problems


# ---------------------------------------------------------------- Coq build

def coq_files():
    out = []
    for d, _, fs in os.walk(COQ):
        for f in fs:
            if f.endswith(".v"):
                out.append(os.path.relpath(os.path.join(d, f), COQ))
    return sorted(out)


def coq_prepare():
    files = coq_files()
    proj = "-Q . Aranya\n-arg -w -arg -notation-overridden,-deprecated-hint-without-locality,-deprecated-instance-without-locality,-ambiguous-paths,-redundant-canonical-projection\n" + "\n".join(files) + "\n"
    pp = os.path.join(COQ, "_CoqProject")
    old = open(pp).read() if os.path.exists(pp) else None
    if old != proj or not os.path.exists(os.path.join(COQ, "Makefile")):
        with open(pp, "w") as f:
            f.write(proj)
        sh(["coq_makefile", "-f", "_CoqProject", "-o", "Makefile"], cwd=COQ, check=True)


def coq_make(targets, timeout=1500, jobs=16):
    """Full .vo build of the given targets (paths relative to coq/)."""
    with Lock("coq"):
        coq_prepare()
        rc, out = sh(["make", "-j%d" % jobs, "-k"] + targets, cwd=COQ, timeout=timeout,
                     env={"TIMED": "", "COQDEP": "coqdep"})
    return rc, out


def theorem_names(vfile):
    txt = open(vfile).read()
    return re.findall(r"^\s*(?:Theorem|Corollary)\s+([A-Za-z0-9_']+)", txt, re.M)


def strip_comments(txt):
    out, depth, i = [], 0, 0
    while i < len(txt):
        if txt.startswith("(*", i):
            depth += 1
            i += 2
        elif txt.startswith("*)", i) and depth:
            depth -= 1
            i += 2
        else:
            if not depth:
                out.append(txt[i])
            i += 1
    return "".join(out)


def cone_of(vrel):
    """Transitive .v dependencies (inside coq/) of a file, via coqdep."""
    rc, out = sh(["coqdep", "-Q", ".", "Aranya"] + coq_files(), cwd=COQ)
    deps = {}
    for line in out.splitlines():
        if ":" not in line:
            continue
        lhs, rhs = line.split(":", 1)
        tgt = lhs.split()[0]
        if tgt.endswith(".vo"):
            deps[tgt[:-1]] = [x[:-1] for x in rhs.split() if x.endswith(".vo")]
    seen, todo = set(), [vrel]
    while todo:
        f = todo.pop()
        if f in seen:
            continue
        seen.add(f)
        todo.extend(deps.get(f, []))
    return sorted(seen)


def prove(ctx, extra_targets=()):
    """Build the cone of props/<pid>.v, audit it, check Print Assumptions."""
    pid = ctx.pid
    prop = "props/%s.v" % pid
    t = time.time()
    rc, out = coq_make([prop + "o", "base/Harness.vo"] + list(extra_targets))
    ok = rc == 0 and os.path.exists(os.path.join(COQ, prop + "o"))
    ctx.checker_cmds.append("cd coq && coq_makefile -f _CoqProject -o Makefile && make -j16 %so" % prop)
    ctx.oblige("coq:build:" + prop, ok, out[-6000:])
    ctx.log("coq cone build %s in %.1fs" % ("ok" if ok else "FAILED", time.time() - t))
    cone = cone_of(prop)
    # audit: forbidden vernacular anywhere in the cone
    bad = []
    for f in cone:
        src = strip_comments(open(os.path.join(COQ, f)).read())
        for m in FORBIDDEN.finditer(src):
            bad.append("%s: %s" % (f, m.group(0)))
    ctx.oblige("audit:no-admit-no-axiom", not bad, "; ".join(bad))
    ctx.coverage["cone_files"] = cone
    ctx.coverage["cone_lines"] = sum(len(open(os.path.join(COQ, f)).read().splitlines()) for f in cone)
    if not ok:
        return False
    # Print Assumptions of every theorem in the props file
    thms = theorem_names(os.path.join(COQ, prop))
    ctx.coverage["theorems"] = thms
    src = open(os.path.join(COQ, prop)).read()
    for th in thms:
        ctx.oblige("pinned:" + th, re.search(r"\bCheck\s+%s\s*:" % re.escape(th), src) is not None
                   or re.search(r"\bCheck\s+\(?%s\b" % re.escape(th), src) is not None,
                   "no `Check %s : stmt.` pin in %s" % (th, prop))
    os.makedirs(os.path.join(WORK, "audit"), exist_ok=True)
    av = os.path.join(WORK, "audit", "Audit_%s.v" % pid)
    with open(av, "w") as f:
        f.write("Require Import Aranya.props.%s.\n" % pid)
        for th in thms:
            f.write('Goal True. idtac "@@BEGIN %s". exact I. Qed.\nPrint Assumptions %s.\n' % (th, th))
        f.write('Goal True. idtac "@@END". exact I. Qed.\n')
    rc, out = sh(["coqc", "-Q", COQ, "Aranya", "-o", av + "o", av], cwd=os.path.join(WORK, "audit"), timeout=600)
    ctx.checker_cmds.append("coqc Audit_%s.v (Print Assumptions per theorem)" % pid)
    if rc != 0:
        ctx.oblige("audit:print-assumptions", False, out[-3000:])
        return False
    axioms = {}
    cur = None
    for line in out.splitlines():
        m = re.match(r"@@BEGIN (\S+)", line)
        if m:
            cur = m.group(1)
            axioms[cur] = []
            continue
        if line.startswith("@@END"):
            cur = None
            continue
        if cur is None:
            continue
        if "Closed under the global context" in line or line.strip() in ("Axioms:", ""):
            continue
        m = re.match(r"^([A-Za-z_][A-Za-z0-9_.']*)\s*:", line)
        if m:
            axioms[cur].append(m.group(1))
    ctx.coverage["axioms_per_theorem"] = axioms
    for th, axs in axioms.items():
        extra = [a for a in axs if a not in ALLOWED_AXIOMS and a.split(".")[-1] not in ALLOWED_AXIOMS]
        ctx.oblige("assumptions:" + th, not extra, "not allow-listed: " + ", ".join(extra))
    for th in thms:
        if th not in axioms:
            ctx.oblige("assumptions:" + th, False, "no Print Assumptions output")
    if ctx.thorough:
        t = time.time()
        rc, out = sh(["coqchk", "-silent", "-o", "-Q", ".", "Aranya", "Aranya.props.%s" % pid], cwd=COQ, timeout=3000)
        ctx.checker_cmds.append("coqchk -silent -o -Q . Aranya Aranya.props.%s" % pid)
        tail = out[-3000:]
        axs = re.findall(r"^\s*([A-Za-z_][A-Za-z0-9_.']+)\s*$", out.split("Axioms:")[-1], re.M) if "Axioms:" in out else []
        extra = [a for a in axs if a.split(".")[-1] not in ALLOWED_AXIOMS and a != "<none>"]
        ctx.oblige("coqchk", rc == 0 and not extra, tail)
        ctx.coverage["coqchk_axioms"] = axs
        ctx.log("coqchk in %.1fs" % (time.time() - t))
    return all(o[1] for o in ctx.obligations)


# ---------------------------------------------------------------- evaluating the model

def coq_eval(ctx, name, body, timeout=900):
    """Compile a generated cases file against the built development; returns stdout."""
    d = os.path.join(WORK, "cases", ctx.pid)
    os.makedirs(d, exist_ok=True)
    path = os.path.join(d, name + ".v")
    with open(path, "w") as f:
        f.write(body)
    rc, out = sh(["coqc", "-noglob", "-Q", COQ, "Aranya", "-w", "-all", path], cwd=d, timeout=timeout)
    return rc, out


def coq_eval_sharded(ctx, name, header, items, render, shard=400, timeout=900):
    """Evaluate many cases: `render(chunk)` gives the vernacular for a chunk.
    Shards run on up to 16 coqc processes.  Returns list of (rc, out)."""
    from concurrent.futures import ThreadPoolExecutor
    chunks = [items[i:i + shard] for i in range(0, len(items), shard)] or [[]]

    def one(ic):
        i, c = ic
        return coq_eval(ctx, "%s_%d" % (name, i), header + render(c), timeout)
    with ThreadPoolExecutor(max_workers=16) as ex:
        return list(ex.map(one, enumerate(chunks))), chunks


def parse_coq_value(out):
    """Parse the value printed by the last `Eval ... in` ( `= v : ty` )."""
    m = re.search(r"=\s*(.*?)\s*:\s*[A-Za-z(]", out, re.S)
    if not m:
        return None
    return parse_term(m.group(1))


def parse_term(s):
    """Nested lists / tuples of integers, booleans, strings as printed by Coq."""
    s = re.sub(r"%[A-Za-z_]+", "", s)
    toks = re.findall(r'"(?:[^"]|"")*"|\[|\]|\(|\)|;|,|-?\d+|[A-Za-z_][A-Za-z0-9_\']*', s)
    pos = [0]

    def parse_seq():
        # application sequence: head args*
        items = []
        while pos[0] < len(toks) and toks[pos[0]] not in ("]", ")", ";", ","):
            items.append(parse_atom())
        if len(items) == 1:
            return items[0]
        return tuple(items) if items else None

    def parse_atom():
        t = toks[pos[0]]
        pos[0] += 1
        if t == "[":
            xs = []
            if toks[pos[0]] == "]":
                pos[0] += 1
                return xs
            while True:
                xs.append(parse_seq())
                t2 = toks[pos[0]]
                pos[0] += 1
                if t2 == "]":
                    return xs
        if t == "(":
            xs = []
            while True:
                xs.append(parse_seq())
                t2 = toks[pos[0]]
                pos[0] += 1
                if t2 == ")":
                    return xs[0] if len(xs) == 1 else tuple(xs)
        if re.fullmatch(r"-?\d+", t):
            return int(t)
        if t.startswith('"'):
            return t[1:-1].replace('""', '"')
        if t == "true":
            return True
        if t == "false":
            return False
        return t
    return parse_seq()


def coq_list(xs, f=str):
    return "[" + "; ".join(f(x) for x in xs) + "]"


def coq_bytes(bs):
    """bytes -> Coq list N literal"""
    return "[" + "; ".join(str(b) for b in bs) + "]"


# ---------------------------------------------------------------- harness

def cargo_build(ctx, crate, profile="dev", hooks=True, features=None, extra_rustflags="", bin=None, timeout=3000):
    """Build harness/<crate> against /repo (path deps) and return the binary path."""
    cdir = os.path.join(ROOT, "harness", crate)
    alt = ""
    if _ALT:
        # private scratch worktree (mutation testing): copy the crate with its path deps redirected
        alt = _ALT_TAG
        adir = os.path.join(WORK, "harness", crate)
        if os.path.exists(adir):
            shutil.rmtree(adir)
        shutil.copytree(cdir, adir, ignore=shutil.ignore_patterns("target", "Cargo.lock"))
        for d, _, fs in os.walk(adir):
            for fn in fs:
                if fn.endswith((".toml", ".rs")):
                    fp = os.path.join(d, fn)
                    t = open(fp).read()
                    if "/repo/" in t:
                        open(fp, "w").write(t.replace("/repo/", os.path.realpath(REPO) + "/"))
        cdir = adir
    lock_src = os.path.join(REPO, "Cargo.lock")
    lock_dst = os.path.join(cdir, "Cargo.lock")
    if not os.path.exists(lock_dst):
        shutil.copy(lock_src, lock_dst)
    flags = []
    if hooks:
        flags += ["--cfg", HOOK_CFG]
    if extra_rustflags:
        flags += extra_rustflags.split()
    # one target dir per (hooks, rustflags) so switching does not thrash the cache
    tdir = TARGET + ("-" + hashlib.sha1(" ".join(flags).encode()).hexdigest()[:6] if extra_rustflags else "")
    if alt:
        tdir = os.path.join(BUILD, "alt-" + alt, "target")
        if not os.path.exists(tdir) and os.path.exists(TARGET) and not extra_rustflags:
            # warm start: hard-link copy of the main target dir, so registry dependencies are reused and
            # only the crates under the scratch worktree (different package ids => different file names) rebuild
            os.makedirs(os.path.dirname(tdir), exist_ok=True)
            subprocess.run(["cp", "-al", TARGET, tdir])
    cmd = ["cargo", "build", "--offline", "--quiet"]
    if profile == "release":
        cmd.append("--release")
    elif profile != "dev":
        cmd += ["--profile", profile]
    if features:
        cmd += ["--features", ",".join(features)]
    if bin:
        cmd += ["--bin", bin]
    t = time.time()
    with Lock("cargo" + alt):
        rc, out = sh(cmd, cwd=cdir, timeout=timeout,
                     env={"CARGO_TARGET_DIR": tdir, "RUSTFLAGS": " ".join(flags), "CARGO_NET_OFFLINE": "true"})
    pdir = {"dev": "debug", "release": "release"}.get(profile, profile)
    binp = os.path.join(tdir, pdir, bin or crate)
    ok = rc == 0 and os.path.exists(binp)
    ctx.log("cargo build %s [%s] %s in %.1fs" % (crate, profile, "ok" if ok else "FAILED", time.time() - t))
    if not ok:
        ctx.oblige("harness:build:%s:%s" % (crate, profile), False, out[-6000:])
        return None
    return binp


def run_bin(binp, args=(), input=None, timeout=1200, env=None):
    p = subprocess.run([binp] + list(args), input=input, timeout=timeout, env={**os.environ, **(env or {})},
                       stdout=subprocess.PIPE, stderr=subprocess.PIPE, text=True, errors="replace")
    return p.returncode, p.stdout, p.stderr


# ---------------------------------------------------------------- entry point

def main(argv):
    import argparse
    import importlib.util
    ap = argparse.ArgumentParser()
    ap.add_argument("pid")
    ap.add_argument("--tier", default=os.environ.get("VERIF_TIER", "quick"))
    ap.add_argument("--replay", default=None)
    a = ap.parse_args(argv)
    seed = int(os.environ.get("VERIF_SEED", "1"))
    tier = a.tier if a.tier in ("quick", "thorough") else "quick"
    ctx = Ctx(a.pid, tier, seed, a.replay)
    ensure_alt_coq()
    path = os.path.join(ROOT, "checks", a.pid + ".py")
    spec = importlib.util.spec_from_file_location("check_" + a.pid, path)
    mod = importlib.util.module_from_spec(spec)
    try:
        spec.loader.exec_module(mod)
        mod.run(ctx)
    except subprocess.TimeoutExpired as e:
        ctx.oblige("machinery:timeout", False, str(e)[:500])
    except Exception as e:  # machinery failure: never silently pass
        import traceback
        ctx.oblige("machinery:exception", False, traceback.format_exc()[-3000:])
    return ctx.finish()
