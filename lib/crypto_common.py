"""Helpers shared by the checks of the `crypto` unit (C34, C36-C39, C45)."""
import os
import sys

import vlib


def regen_mine(ctx):
    """Regenerate the coq/gen files owned by tools/gen_crypto.py from /repo's
    working tree (same contract as vlib.regen, restricted to this unit's
    generators so that another unit's translator problem is not reported here)."""
    sys.path.insert(0, os.path.join(vlib.ROOT, "tools"))
    import gen as gen_mod
    gen_mod.load_plugins()
    outdir = os.path.join(vlib.COQ, "gen")
    os.makedirs(outdir, exist_ok=True)
    problems = []
    with vlib.Lock("coq"):
        for g in gen_mod.GENERATORS:
            if g.__module__ != "gen_crypto":
                continue
            try:
                name, text, probs = g(vlib.REPO)
            except Exception as e:  # structural surprise
                problems.append("%s: %r" % (g.__name__, e))
                continue
            problems += probs
            path = os.path.join(outdir, name)
            old = open(path).read() if os.path.exists(path) else None
            if old != text:
                with open(path, "w") as f:
                    f.write(text)
    ctx.oblige("translator:regen", not problems, "; ".join(problems))
    return not problems


def coq_hex(bs):
    """bytes -> Coq term `(hx "..")` (model/AfcCases.v)"""
    return '(hx "%s"%%string)' % bytes(bs).hex()
