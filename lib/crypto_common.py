"""Helpers shared by the checks of the `crypto` unit (C34, C36-C39, C45)."""
import os
import sys

import vlib


def regen_mine(ctx):
    """Regenerate the coq/gen files owned by tools/gen_crypto.py from /repo's
    working tree (same contract as vlib.regen, restricted to this unit's
    generators so that another unit's translator problem is not reported here)."""
    sys.path.insert(0, os.path.join(vlib.ROOT, "tools"))
    import gen as gen_mod
    gen_mod.load_plugins()
    outdir = os.path.join(vlib.COQ, "gen")
    os.makedirs(outdir, exist_ok=True)
    problems = []
    with vlib.Lock("coq"):
        for g in gen_mod.GENERATORS:
            if g.__module__ != "gen_crypto":
                continue
            try:
                name, text, probs = g(vlib.REPO)
            except Exception as e:  # structural surprise
                problems.append("%s: %r" % (g.__name__, e))
                continue
            problems += probs
            path = os.path.join(outdir, name)
            old = open(path).read() if os.path.exists(path) else None
            if old != text:
                with open(path, "w") as f:
                    f.write(text)
    ctx.oblige("translator:regen", not problems, "; ".join(problems))
    return not problems


def coq_hex(bs):
    """bytes -> Coq term `(hx "..")` (model/AfcCases.v)"""
    return '(hx "%s"%%string)' % bytes(bs).hex()


def unhex(s):
    return b"" if s == "-" else bytes.fromhex(s)


CASES_HEADER = ("From Coq Require Import String.\nFrom Aranya Require Import base.Tactics base.Harness model.TupleHash "
                "model.CryptoSym model.AfcCases model.CryptoCases.\nOpen Scope N_scope.\n")


def run_lines(ctx, binp, lines):
    """Feed lines to a harness binary; None on any failure (obligation recorded)."""
    rc, out, err = vlib.run_bin(binp, input="\n".join(lines) + "\n")
    ol = out.splitlines()
    badl = [l[:300] for l in ol if l.startswith(("panic", "badcase"))]
    if rc != 0 or len(ol) != len(lines) or badl:
        ctx.oblige("harness:run", False, "rc=%s lines=%d/%d %s %s" % (rc, len(ol), len(lines), badl[:2], err[-800:]))
        return None
    return ol


def eval_mismatches(ctx, name, items, render, shard=100):
    """Sharded Coq evaluation; returns indices of mismatching items or None."""
    outs, chunks = vlib.coq_eval_sharded(ctx, name, CASES_HEADER, items, render, shard=shard)
    mism, base = [], 0
    for (rc, o), ch in zip(outs, chunks):
        v = vlib.parse_coq_value(o) if rc == 0 else None
        if v is None:
            ctx.oblige("correspondence:model-eval", False, o[-2000:])
            return None
        mism += [base + j for j in v]
        base += len(ch)
    return mism


def parse_log(s):
    """' ; '-separated recorder entries -> list of tuples (kind, bytes...)."""
    out = []
    for ent in s.split(" ; "):
        f = ent.split()
        if not f:
            continue
        if f[0] in ("S", "O"):
            # S nonce ad pt ok ct tag ; O nonce ad ct tag ok after
            out.append((f[0],) + tuple(unhex(x) if i not in ((3,) if f[0] == "S" else (4,)) else x for i, x in enumerate(f[1:])))
        else:
            out.append((f[0],) + tuple(unhex(x) for x in f[1:]))
    return out


def sweep_oracle(sw, ok_labels, bad, i, skip=("len",), ok_value="ok"):
    """every label must be `err` except the base labels which must be ok; returns (#mutations, by kind)."""
    n, kinds = 0, {}
    for label, res in sw.items():
        if label in skip:
            continue
        if label in ok_labels:
            if res != ok_labels[label]:
                bad.append((i, label, "honest case failed: %s=%s" % (label, res)))
            continue
        n += 1
        k = label.rstrip("0123456789").rstrip(".")
        kinds[k] = kinds.get(k, 0) + 1
        if res not in ("err", "differ"):
            bad.append((i, label, "succeeded after the change `%s` (%s)" % (label, res)))
    return n, kinds
