"""Helpers shared by the concurrency checks (C43, C44, C33)."""
import subprocess
from concurrent.futures import ThreadPoolExecutor


def run_parallel(binp, lines, nproc=4, timeout=2400, args=()):
    """Feed `lines` (one case each) to `nproc` copies of the harness binary.
    Returns (worst_rc, output lines in input order, stderr tail).  A chunk whose
    process died early yields fewer lines; the caller sees the shortfall."""
    n = len(lines)
    if n == 0:
        return 0, [], ""
    size = (n + nproc - 1) // nproc
    chunks = [lines[i:i + size] for i in range(0, n, size)]

    def one(chunk):
        p = subprocess.run([binp] + list(args), input="".join(l + "\n" for l in chunk), timeout=timeout,
                           stdout=subprocess.PIPE, stderr=subprocess.PIPE, text=True, errors="replace")
        return p.returncode, p.stdout.splitlines(), p.stderr[-1500:]
    with ThreadPoolExecutor(max_workers=nproc) as ex:
        outs = list(ex.map(one, chunks))
    rc = 0
    res = []
    err = ""
    complete = True
    for (r, ls, e), ch in zip(outs, chunks):
        if r != 0:
            rc = r if rc == 0 else rc
            err += e
        if complete:
            res += ls
            if len(ls) != len(ch):
                complete = False  # later chunks would be misaligned: drop them
    return rc, res, err
